""" C16 / rewrite r3 : demo program.

Checks the property C16 (catchment-grid intersection and Voronoi weights
conserve area) with the public API only, against independent oracles written
with exact rational arithmetic. Exits 0 when everything holds.

Emphasis for this rewrite (work space shared between calls, guards moved
between the Python wrappers and the C kernels): part_state() runs long
sequences of calls of varying sizes (big, small, big), keeps every result and
checks at the end that none was overwritten; no-overlap and one/two cell
cases are spread over all parts.

Run:  PYTHONPATH=<tree>/src /venv/bin/python demo.py
"""
import itertools
import math
import pickle
import sys
import warnings
from fractions import Fraction

import numpy as np

from hydrodiy.gis.grid import Grid, Catchment, voronoi

NCHECK = {"intersect": 0, "nooverlap": 0, "voronoi": 0}


# ---------------------------------------------------------------------------
# Helpers - only the public API of hydrodiy is used
# ---------------------------------------------------------------------------
def make_flowdir(ncols, nrows, csz, xll, yll):
    return Grid("fd", ncols, nrows, cellsize=csz, xllcorner=xll,
                yllcorner=yll, dtype=np.int64)


def make_catchment(flowdir, cells, cells_filled=None, name="demo"):
    """ Catchment whose area is an arbitrary set of cells, built with the
    public constructor Catchment.from_dict """
    if cells_filled is None:
        cells_filled = cells
    dic = {"name": name,
           "flowdir": flowdir.to_dict(),
           "idxcell_outlet": None,
           "idxinlets": None,
           "idxcells_area": [int(c) for c in cells],
           "idxcells_area_filled": [int(c) for c in cells_filled]}
    return Catchment.from_dict(dic)


def fail(msg):
    print("DEMO FAILURE: " + msg)
    sys.exit(1)


def ensure(cond, msg):
    if not cond:
        fail(msg)


def cell_centre(fd, cell):
    """ Exact (rational) centre of a flow direction cell """
    ncols, nrows = int(fd.ncols), int(fd.nrows)
    col = cell % ncols
    row = cell // ncols
    csz = Fraction(float(fd.cellsize))
    x = Fraction(float(fd.xllcorner)) + csz*(col+Fraction(1, 2))
    y = Fraction(float(fd.yllcorner)) + csz*(nrows-1-row+Fraction(1, 2))
    return x, y


def oracle_intersect(fd, cells, grid):
    """ Exact oracle : number of catchment cells whose centre falls in each
    cell of grid (dict gridcell -> count) """
    csz = Fraction(float(grid.cellsize))
    xll = Fraction(float(grid.xllcorner))
    yll = Fraction(float(grid.yllcorner))
    ncols, nrows = int(grid.ncols), int(grid.nrows)
    counts = {}
    for cell in cells:
        x, y = cell_centre(fd, int(cell))
        nx = math.floor((x-xll)/csz)
        ny = math.floor((y-yll)/csz)
        if nx < 0 or nx >= ncols or ny < 0 or ny >= nrows:
            continue
        gcell = (nrows-1-ny)*ncols+nx
        counts[gcell] = counts.get(gcell, 0)+1
    return counts


def call_intersect(ca, grid, filled):
    with warnings.catch_warnings():
        warnings.simplefilter("ignore")
        return ca.intersect(grid, filled=filled)


def check_intersect(fd, ca, cells, grid, filled, label, exact=True):
    """ Check the whole intersect clause of the property for one call.
    exact=True : geometry is dyadic, the oracle is exact.
    exact=False: geometry is not dyadic; the oracle locates the centres
                 with the public Grid.cell2coord/coord2cell helpers """
    if exact:
        counts = oracle_intersect(fd, cells, grid)
    else:
        xy = fd.cell2coord(np.array(cells, dtype=np.int64))
        gc = grid.coord2cell(xy)
        counts = {}
        for g in gc:
            if g >= 0:
                counts[int(g)] = counts.get(int(g), 0)+1

    if len(counts) == 0:
        # No overlap (or empty catchment) : the call is rejected
        try:
            call_intersect(ca, grid, filled)
        except ValueError:
            NCHECK["nooverlap"] += 1
            return None
        fail(f"{label}: expected an error when nothing overlaps")

    area_grid, idxcells, weights = call_intersect(ca, grid, filled)
    NCHECK["intersect"] += 1

    idxcells = np.asarray(idxcells)
    weights = np.asarray(weights)
    ensure(idxcells.ndim == 1 and weights.ndim == 1
           and len(idxcells) == len(weights), f"{label}: shapes")
    ensure(np.issubdtype(idxcells.dtype, np.integer), f"{label}: int cells")

    # .. each grid cell appears once, and exactly the expected ones
    lst = [int(c) for c in idxcells]
    ensure(len(set(lst)) == len(lst), f"{label}: duplicated grid cell")
    ensure(set(lst) == set(counts.keys()),
           f"{label}: grid cells {sorted(lst)} != {sorted(counts)}")

    # .. weight = number of cells x ratio of cell areas
    ratio = (float(fd.cellsize)/float(grid.cellsize))**2
    for c, w in zip(lst, weights):
        expected = counts[c]*ratio
        ensure(abs(w-expected) <= 1e-12*max(1., expected),
               f"{label}: weight of cell {c}: {w} != {expected}")

    # .. conservation of area
    ninside = sum(counts.values())
    area_catchment = ninside*float(fd.cellsize)**2
    area_weights = float(np.sum(weights))*float(grid.cellsize)**2
    ensure(abs(area_catchment-area_weights) <= 1e-11*area_catchment,
           f"{label}: area {area_weights} != {area_catchment}")

    # .. weight grid: position in the parent grid
    ncols = int(grid.ncols)
    rows = [c//ncols for c in lst]
    cols = [c % ncols for c in lst]
    r0, r1, c0, c1 = min(rows), max(rows), min(cols), max(cols)
    ensure(int(area_grid.parentgrid_rows_start) == r0
           and int(area_grid.parentgrid_rows_end) == r1
           and int(area_grid.parentgrid_cols_start) == c0
           and int(area_grid.parentgrid_cols_end) == c1,
           f"{label}: parent rows/cols")
    ensure(tuple(area_grid.data.shape) == (r1-r0+1, c1-c0+1)
           and int(area_grid.nrows) == r1-r0+1
           and int(area_grid.ncols) == c1-c0+1, f"{label}: shape")

    expected = np.zeros((r1-r0+1, c1-c0+1))
    for r, c, w in zip(rows, cols, weights):
        expected[r-r0, c-c0] = w
    ensure(np.array_equal(np.asarray(area_grid.data), expected),
           f"{label}: weight grid data")

    # .. the parent grid sliced with the stored rows and columns lines up
    #    with the weight grid
    parent = np.arange(int(grid.nrows)*ncols).reshape(int(grid.nrows),
                                                       ncols)
    sub = parent[r0:r1+1, c0:c1+1]
    ensure(sub.shape == area_grid.data.shape, f"{label}: slice shape")
    positive = np.asarray(area_grid.data) > 0
    ensure(set(sub[positive].tolist()) == set(lst), f"{label}: slice")
    for c, w in zip(lst, weights):
        ensure(area_grid.data[sub == c][0] == w, f"{label}: slice value")

    # .. geometry of the weight grid
    csz = float(grid.cellsize)
    ensure(float(area_grid.cellsize) == csz, f"{label}: cellsize")
    axll = float(grid.xllcorner)+c0*csz
    ayll = float(grid.yllcorner)+(int(grid.nrows)-1-r1)*csz
    tol = 1e-9*max(1., abs(axll), abs(ayll), csz)
    ensure(abs(float(area_grid.xllcorner)-axll) <= tol
           and abs(float(area_grid.yllcorner)-ayll) <= tol,
           f"{label}: lower left corner")
    # .. the centres of the weight grid cells are centres of parent cells
    xyc = area_grid.cell2coord(np.arange(int(area_grid.nrows)
                                         * int(area_grid.ncols)))
    ensure(np.array_equal(grid.coord2cell(xyc), sub.ravel()),
           f"{label}: cell centres")

    for attr in ["name", "ncols", "nrows", "cellsize", "xllcorner",
                 "yllcorner"]:
        ensure(getattr(area_grid, "parentgrid_"+attr) == getattr(grid, attr),
               f"{label}: parentgrid_{attr}")

    return area_grid, idxcells, weights


def oracle_voronoi_exact(fd, cells, points):
    counts = [0]*len(points)
    for cell in cells:
        x, y = cell_centre(fd, int(cell))
        best, jbest = None, 0
        for j, (px, py) in enumerate(points):
            d2 = (x-Fraction(float(px)))**2+(y-Fraction(float(py)))**2
            if best is None or d2 < best:
                best, jbest = d2, j
        counts[jbest] += 1
    return counts


def oracle_voronoi_float(fd, cells, points):
    xy = fd.cell2coord(np.array(cells, dtype=np.int64))
    points = np.array(points, dtype=np.float64)
    counts = [0]*len(points)
    for x, y in xy:
        dx = x-points[:, 0]
        dy = y-points[:, 1]
        dist = np.sqrt(dx*dx+dy*dy)
        # the demo only uses this oracle when there is a clear winner
        srt = np.sort(dist)
        if len(srt) > 1 and srt[1]-srt[0] < 1e-9*max(1., srt[1]):
            return None
        counts[int(np.argmin(dist))] += 1
    return counts


def check_voronoi(fd, ca, cells, points, label, exact=True, pts_arg=None):
    if exact:
        counts = oracle_voronoi_exact(fd, cells, points)
    else:
        counts = oracle_voronoi_float(fd, cells, points)
        if counts is None:
            return None
    arg = points if pts_arg is None else pts_arg
    weights = voronoi(ca, arg)
    NCHECK["voronoi"] += 1
    weights = np.asarray(weights)
    ensure(weights.shape == (len(points),), f"{label}: shape")
    ensure(bool(np.all(weights >= 0)), f"{label}: negative weight")
    ensure(abs(float(np.sum(weights))-1.) < 1e-12, f"{label}: sum != 1")
    n = len(cells)
    for j, w in enumerate(weights):
        ensure(abs(w-counts[j]/n) < 1e-12,
               f"{label}: weight {j} = {w}, expected {counts[j]}/{n}")
    return weights


# ---------------------------------------------------------------------------
# Part 1. intersect: exhaustive on a 3x3 fine grid
# ---------------------------------------------------------------------------
def part_exhaustive():
    fd = make_flowdir(3, 3, 1., 0., 0.)
    grids = [
        Grid("g1", 3, 3, cellsize=1., xllcorner=0., yllcorner=0.),
        Grid("g2", 2, 2, cellsize=2., xllcorner=-0.5, yllcorner=-0.5),
        Grid("g2b", 1, 2, cellsize=2., xllcorner=1., yllcorner=-1.),
        Grid("g3", 1, 1, cellsize=3., xllcorner=0., yllcorner=0.),
        Grid("g3b", 2, 1, cellsize=3., xllcorner=-1.5, yllcorner=0.5),
        Grid("g4", 2, 2, cellsize=4., xllcorner=-2.5, yllcorner=-2.5),
        Grid("gout", 2, 2, cellsize=2., xllcorner=10., yllcorner=0.),
    ]
    allcells = list(range(9))
    for n in range(1, 10):
        for cells in itertools.combinations(allcells, n):
            # filled area: add the centre cell when it is a hole
            filled = sorted(set(cells) | {4}) if n == 8 and 4 not in cells \
                else list(cells)
            ca = make_catchment(fd, cells, filled)
            for grid in grids:
                check_intersect(fd, ca, cells, grid, False,
                                f"exh{cells}/{grid.name}")
            check_intersect(fd, ca, filled, grids[1], True,
                            f"exhfilled{cells}")


# ---------------------------------------------------------------------------
# Part 2. intersect: random cell sets on fine grids up to 12x12
# ---------------------------------------------------------------------------
def random_case(rng, dyadic=True):
    ncf = int(rng.integers(1, 13))
    nrf = int(rng.integers(1, 13))
    if dyadic:
        cszf = float(rng.choice([0.25, 0.5, 1., 2.]))
        xllf = float(rng.integers(-40, 40))*0.125
        yllf = float(rng.integers(-40, 40))*0.125
    else:
        cszf = float(rng.choice([0.1, 0.3, 1./3, 0.05, 25.]))
        xllf = float(rng.uniform(-5, 5))
        yllf = float(rng.uniform(-5, 5))
    fd = make_flowdir(ncf, nrf, cszf, xllf, yllf)
    ntot = ncf*nrf
    n = int(rng.integers(1, ntot+1))
    if rng.uniform() < 0.15:
        n = min(ntot, int(rng.integers(1, 3)))
    cells = rng.permutation(ntot)[:n]
    if rng.uniform() < 0.5:
        cells = np.sort(cells)
    extra = rng.permutation(ntot)[:int(rng.integers(0, 4))]
    filled = np.array(sorted(set(cells.tolist()) | set(extra.tolist())))

    ratio = int(rng.integers(1, 5))
    csz = cszf*ratio
    nc = int(rng.integers(1, 8))
    nr = int(rng.integers(1, 8))
    kind = rng.uniform()
    if dyadic:
        off = lambda: float(rng.integers(-16, 17))*0.125*cszf
    else:
        off = lambda: float(rng.uniform(-2, 2))*cszf
    if kind < 0.25:
        # aligned with the fine grid (centres never on a boundary)
        xll = xllf+float(rng.integers(-3, 3))*cszf
        yll = yllf+float(rng.integers(-3, 3))*cszf
    elif kind < 0.5 and dyadic:
        # centres of fine cells exactly on coarse cell boundaries
        xll = xllf+cszf/2+float(rng.integers(-3, 3))*cszf
        yll = yllf+cszf/2+float(rng.integers(-3, 3))*cszf
    elif kind < 0.9:
        xll = xllf+off()
        yll = yllf+off()
    else:
        # far away: no overlap
        xll = xllf+(ncf+5)*cszf+abs(off())
        yll = yllf+off()
    grid = Grid("coarse", nc, nr, cellsize=csz, xllcorner=xll, yllcorner=yll)
    return fd, cells, filled, grid


def part_random(seed, ncases, dyadic):
    rng = np.random.default_rng(seed)
    for icase in range(ncases):
        fd, cells, filled, grid = random_case(rng, dyadic)
        ca = make_catchment(fd, cells, filled, name=f"ca{icase}")
        label = f"rnd{seed}-{icase}"
        check_intersect(fd, ca, cells, grid, False, label, exact=dyadic)
        check_intersect(fd, ca, filled, grid, True, label+"-filled",
                        exact=dyadic)


# ---------------------------------------------------------------------------
# Part 3. intersect on a delineated catchment (package test grid)
# ---------------------------------------------------------------------------
def part_delineated():
    fdir = np.array([[0, 4, 4, 4, 0, 0],
                     [0, 4, 4, 8, 0, 0],
                     [0, 2, 4, 8, 0, 0],
                     [0, 0, 2, 0, 0, 0],
                     [0, 0, 0, 4, 0, 0],
                     [0, 0, 0, 0, 0, 0]])
    fd = Grid("fdir", 6, 6, dtype=np.int64)
    fd.data = fdir
    ca = Catchment("delin", fd)
    ca.delineate_area(27)
    cells = [int(c) for c in ca.idxcells_area]
    filled = [int(c) for c in ca.idxcells_area_filled]
    ensure(len(cells) >= 2, "delineation")
    for csz, xll, yll, n in [(2., 1., 1., 3), (2., 0., 0., 3),
                             (3., -1., -1., 3), (4., -0.5, 0.5, 2),
                             (1., 0., 0., 6), (1., 2., 1., 3)]:
        grid = Grid("g", n, n, cellsize=csz, xllcorner=xll, yllcorner=yll)
        check_intersect(fd, ca, cells, grid, False, f"delin{csz}")
        check_intersect(fd, ca, filled, grid, True, f"delinfilled{csz}")

    # values of the package test
    grid = Grid("g", 3, 3, xllcorner=1., yllcorner=1., cellsize=2.)
    agrid, idx, wgt = call_intersect(ca, grid, False)
    got = dict(zip([int(i) for i in idx], [float(w) for w in wgt]))
    ensure(got == {6: 0.25, 7: 0.25, 3: 1., 4: 0.5, 0: 0.5, 1: 0.25},
           "package test values")
    ensure(np.array_equal(agrid.data, [[0.5, 0.25], [1., 0.5],
                                       [0.25, 0.25]]), "package grid")

    wgt = voronoi(ca, [[0., 0.], [0., 5.], [5., 0.], [5., 5.]])
    ensure(np.allclose(wgt, [1./11, 6./11, 1./11, 3./11], atol=1e-14,
                       rtol=0), "package voronoi values")


# ---------------------------------------------------------------------------
# Part 4. voronoi
# ---------------------------------------------------------------------------
def part_voronoi_special():
    fd = make_flowdir(4, 4, 1., 0., 0.)
    allcells = list(range(16))
    ca = make_catchment(fd, allcells)

    # one point : takes everything, wherever it is
    for pt in [[0.5, 0.5], [-100., 3.], [2., 2.], [1e6, -1e6]]:
        w = check_voronoi(fd, ca, allcells, [pt], "v1pt")
        ensure(w[0] == 1., "v1pt value")

    # ties : two points symmetric around the grid centre line,
    # cells on the line x=... do not exist (centres at .5), so take points
    # symmetric around the centres of column 1 (x=1.5)
    w = check_voronoi(fd, ca, allcells, [[0.5, 2.], [2.5, 2.]], "vtie")
    # columns 0 -> pt0, column 1 tie -> pt0 (lowest index), 2, 3 -> pt1
    ensure(np.array_equal(w, [0.5, 0.5]), "vtie value")
    w = check_voronoi(fd, ca, allcells, [[2.5, 2.], [0.5, 2.]], "vtie2")
    # column 1 is a tie, given to the first point listed
    ensure(np.array_equal(w, [0.75, 0.25]), "vtie2 value")

    # duplicated points : the first gets everything
    w = check_voronoi(fd, ca, allcells, [[1., 1.], [1., 1.], [1., 1.]],
                      "vdup")
    ensure(np.array_equal(w, [1., 0., 0.]), "vdup value")
    w = check_voronoi(fd, ca, allcells, [[9., 9.], [1., 1.], [1., 1.]],
                      "vdup2")
    ensure(w[2] == 0. and w[1] > 0, "vdup2 value")

    # points coincident with cell centres (4 fold ties at cell corners)
    pts = [[0.5, 0.5], [3.5, 3.5], [0.5, 3.5], [3.5, 0.5]]
    w = check_voronoi(fd, ca, allcells, pts, "vcentres")
    ensure(abs(w.sum()-1) < 1e-15, "vcentres")
    pts = [[1., 1.], [3., 1.], [1., 3.], [3., 3.], [2., 2.], [2., 2.]]
    check_voronoi(fd, ca, allcells, pts, "vcorners")

    # a single cell, two cells
    for cells in [[5], [5, 6], [0, 15], [3]]:
        cas = make_catchment(fd, cells)
        check_voronoi(fd, cas, cells, [[1.5, 2.5], [2.5, 2.5]], "vsmall")
        check_voronoi(fd, cas, cells, [[2., 2.5]], "vsmall1")
        check_voronoi(fd, cas, cells, [[7., 7.], [-7., -7.], [2., 2.5]],
                      "vsmall3")

    # all subsets of a 3x3 grid, with points on a lattice producing ties
    fd3 = make_flowdir(3, 3, 1., 0., 0.)
    pts = [[1.5, 1.5], [0., 0.], [3., 3.], [0., 3.], [3., 0.], [1.5, 1.5]]
    for n in range(1, 10):
        for cells in itertools.combinations(range(9), n):
            cas = make_catchment(fd3, cells)
            for npts in [1, 2, 5, 6]:
                check_voronoi(fd3, cas, cells, pts[1:1+npts] if npts < 6
                              else pts, f"vexh{cells}")

    # memory layouts of the points argument
    cells = [0, 1, 2, 5, 6, 10, 11, 15]
    cas = make_catchment(fd, cells)
    pts = [[0.5, 3.5], [3., 1.], [2., 2.], [-1., -1.]]
    ref = check_voronoi(fd, cas, cells, pts, "vlist")
    arr = np.array(pts)
    for name, arg in [("C", np.ascontiguousarray(arr)),
                      ("F", np.asfortranarray(arr)),
                      ("T", np.ascontiguousarray(arr.T).T),
                      ("strided", np.repeat(arr, 2, axis=0)[::2]),
                      ("tuple", tuple(map(tuple, pts)))]:
        w = check_voronoi(fd, cas, cells, pts, "vlayout"+name, pts_arg=arg)
        ensure(np.array_equal(w, ref), "vlayout "+name)
    ensure(np.array_equal(arr, np.array(pts)), "points modified")


def part_voronoi_random(seed, ncases, dyadic):
    rng = np.random.default_rng(seed)
    for icase in range(ncases):
        fd, cells, _, _ = random_case(rng, dyadic)
        ca = make_catchment(fd, cells)
        npts = int(rng.integers(1, 7))
        cszf = float(fd.cellsize)
        x0, y0 = float(fd.xllcorner), float(fd.yllcorner)
        pts = []
        for _ in range(npts):
            kind = rng.uniform()
            if dyadic:
                if kind < 0.3:
                    # cell centre
                    px = x0+(int(rng.integers(0, fd.ncols))+0.5)*cszf
                    py = y0+(int(rng.integers(0, fd.nrows))+0.5)*cszf
                elif kind < 0.6:
                    # cell corner, possibly outside
                    px = x0+int(rng.integers(-2, fd.ncols+3))*cszf
                    py = y0+int(rng.integers(-2, fd.nrows+3))*cszf
                elif kind < 0.7 and len(pts) > 0:
                    px, py = pts[int(rng.integers(0, len(pts)))]
                else:
                    px = x0+float(rng.integers(-80, 180))*0.125*cszf
                    py = y0+float(rng.integers(-80, 180))*0.125*cszf
            else:
                px = x0+float(rng.uniform(-3, fd.ncols+3))*cszf
                py = y0+float(rng.uniform(-3, fd.nrows+3))*cszf
            pts.append([px, py])
        check_voronoi(fd, ca, cells, pts, f"vrnd{seed}-{icase}",
                      exact=dyadic)


# ---------------------------------------------------------------------------
# Part 5. repeated calls, state, aliasing (identical calls give identical and
# independent results; changed inputs give changed results)
# ---------------------------------------------------------------------------
def same_result(res1, res2):
    a1, i1, w1 = res1
    a2, i2, w2 = res2
    return np.array_equal(i1, i2) and np.array_equal(w1, w2) \
        and np.array_equal(a1.data, a2.data) \
        and a1.to_dict() == a2.to_dict() and str(a1) == str(a2)


def part_state():
    fd = make_flowdir(8, 7, 0.5, -1., 2.)
    cells = [0, 1, 2, 9, 10, 17, 18, 19, 26, 30, 31, 38, 39, 55]
    filled = sorted(set(cells) | {11, 27})
    ca = make_catchment(fd, cells, filled, name="state")
    grid = Grid("coarse", 4, 4, cellsize=1.5, xllcorner=-1.25,
                yllcorner=1.75)

    res1 = check_intersect(fd, ca, cells, grid, False, "state1")
    snapshot = (res1[0].clone(), res1[1].copy(), res1[2].copy())
    res2 = check_intersect(fd, ca, cells, grid, False, "state2")
    ensure(same_result(res1, res2), "state: second call differs")
    ensure(res1[0] is not res2[0], "state: same grid object returned")
    ensure(not np.shares_memory(res1[1], res2[1])
           and not np.shares_memory(res1[2], res2[2])
           and not np.shares_memory(res1[0].data, res2[0].data),
           "state: results share memory")

    # .. damaging what was returned has no effect on later calls
    res2[1][:] = -7
    res2[2][:] = 1e30
    res2[0].data[:] = -1.
    res2[0].parentgrid_rows_start = 99
    res2[0].comment = "damaged"
    res3 = check_intersect(fd, ca, cells, grid, False, "state3")
    ensure(same_result(res1, res3), "state: third call differs")
    ensure(same_result(res1, snapshot), "state: first result modified")

    # .. filled/unfilled interleaved
    resf = check_intersect(fd, ca, filled, grid, True, "statef")
    ensure(not np.array_equal(resf[2], res1[2]), "state: filled ignored")
    res4 = check_intersect(fd, ca, cells, grid, False, "state4")
    ensure(same_result(res1, res4), "state: fourth call differs")
    ensure(same_result(res1, snapshot), "state: first result modified (2)")

    # .. the grid is moved / resized / renamed in place
    grid.xllcorner = grid.xllcorner+1.5
    check_intersect(fd, ca, cells, grid, False, "state-moved")
    grid.yllcorner = grid.yllcorner-0.5
    check_intersect(fd, ca, cells, grid, False, "state-moved2")
    grid2 = Grid("coarse", 5, 3, cellsize=1., xllcorner=-1.25,
                 yllcorner=1.75)
    check_intersect(fd, ca, cells, grid2, False, "state-grid2")
    grid3 = Grid("other name", 5, 3, cellsize=1., xllcorner=-1.25,
                 yllcorner=1.75)
    r3 = check_intersect(fd, ca, cells, grid3, False, "state-grid3")
    ensure("other name" in r3[0].comment, "state: comment")
    grid3.name = "renamed"
    r3 = check_intersect(fd, ca, cells, grid3, False, "state-grid3b")
    ensure("renamed" in r3[0].comment and r3[0].parentgrid_name == "renamed",
           "state: renamed")
    ca.name = "new catchment name"
    r3 = check_intersect(fd, ca, cells, grid3, False, "state-caname")
    ensure("new catchment name" in r3[0].comment, "state: catchment name")
    ensure(same_result(res1, snapshot), "state: first result modified (3)")

    # .. the catchment cells are modified in place (public property)
    area = ca.idxcells_area
    old = int(area[3])
    area[3] = 48
    cells2 = [int(c) for c in area]
    ensure(cells2 != cells, "state: in place modification")
    check_intersect(fd, ca, cells2, grid2, False, "state-inplace")
    w1 = check_voronoi(fd, ca, cells2, [[0., 3.], [2., 5.]], "state-vinpl")
    area[3] = old
    check_intersect(fd, ca, cells, grid2, False, "state-inplace-back")
    w2 = check_voronoi(fd, ca, cells, [[0., 3.], [2., 5.]], "state-vback")
    w3 = check_voronoi(fd, ca, cells, [[0., 3.], [2., 5.]], "state-vback2")
    ensure(np.array_equal(w2, w3) and not np.shares_memory(w2, w3),
           "state: voronoi repeat")
    w3[:] = 5.
    w4 = check_voronoi(fd, ca, cells, [[0., 3.], [2., 5.]], "state-vback3")
    ensure(np.array_equal(w2, w4), "state: voronoi after damage")

    # .. same cells, same grid, another flow direction geometry
    fdb = make_flowdir(8, 7, 0.5, -0.5, 2.)
    cab = make_catchment(fdb, cells, filled, name="state")
    check_intersect(fdb, cab, cells, grid2, False, "state-fdb")
    check_voronoi(fdb, cab, cells, [[0., 3.], [2., 5.]], "state-vfdb")
    fdc = make_flowdir(7, 8, 0.5, -1., 2.)
    cac = make_catchment(fdc, cells, filled, name="state")
    check_intersect(fdc, cac, cells, grid2, False, "state-fdc")
    check_voronoi(fdc, cac, cells, [[0., 3.], [2., 5.]], "state-vfdc")
    check_intersect(fd, ca, cells, grid2, False, "state-fd-again")

    # .. voronoi: points array modified in place between calls
    pts = np.array([[0., 3.], [2., 5.], [1., 4.]])
    wa = check_voronoi(fd, ca, cells, pts.tolist(), "state-vpts",
                       pts_arg=pts)
    pts[2, 0] = 100.
    wb = check_voronoi(fd, ca, cells, pts.tolist(), "state-vpts2",
                       pts_arg=pts)
    ensure(not np.array_equal(wa, wb), "state: points change ignored")
    # .. same bytes, other shape can not be confused: 2 then 3 then 1 points
    for npts in [2, 3, 1, 6, 1, 2]:
        p = [[0.25*k, 3.+0.5*k] for k in range(npts)]
        check_voronoi(fd, ca, cells, p, f"state-vn{npts}")

    # .. long alternating sequence: big, small, big (stale work space),
    #    results of earlier calls are kept and compared at the end
    rng = np.random.default_rng(5)
    kept = []
    for it in range(150):
        fdr, cellsr, filledr, gridr = random_case(rng, True)
        car = make_catchment(fdr, cellsr, filledr)
        res = check_intersect(fdr, car, cellsr, gridr, False, f"seq{it}")
        if res is not None:
            kept.append((res, (res[0].clone(), res[1].copy(),
                               res[2].copy()), (fdr, car, cellsr, gridr)))
        ptsr = [[float(fdr.xllcorner)+0.25*k, float(fdr.yllcorner)+k]
                for k in range(1+it % 6)]
        wr = check_voronoi(fdr, car, cellsr, ptsr, f"seqv{it}")
        kept.append(((None, wr, wr), (None, wr.copy(), wr.copy()), None))
    for res, snap, inputs in kept:
        ensure(np.array_equal(res[1], snap[1])
               and np.array_equal(res[2], snap[2]), "seq: result overwritten")
        if res[0] is not None:
            ensure(np.array_equal(res[0].data, snap[0].data),
                   "seq: grid overwritten")
    # .. and replayed in reverse order
    for res, snap, inputs in kept[::-1]:
        if inputs is None:
            continue
        fdr, car, cellsr, gridr = inputs
        again = check_intersect(fdr, car, cellsr, gridr, False, "replay")
        ensure(same_result(again, snap), "seq: replay differs")

    # .. the warning about cell sizes is issued by every call
    gridw = Grid("fine", 8, 8, cellsize=0.5, xllcorner=-1., yllcorner=2.)
    for it in range(3):
        with warnings.catch_warnings(record=True) as rec:
            warnings.simplefilter("always")
            ca.intersect(gridw)
        ensure(len(rec) >= 1, "state: warning not repeated")
    with warnings.catch_warnings(record=True) as rec:
        warnings.simplefilter("always")
        ca.intersect(grid2)
        ca.intersect(grid2)
    ensure(len(rec) == 0, "state: unexpected warning")


# ---------------------------------------------------------------------------
# Part 6. objects: clones, sums, pickles, dictionaries, other containers
# ---------------------------------------------------------------------------
def part_objects():
    fd = make_flowdir(6, 6, 1., 0., 0.)
    cells = [1, 2, 7, 8, 9, 13, 14, 20, 27]
    filled = sorted(set(cells) | {15, 21})
    ca = make_catchment(fd, cells, filled, name="obj")
    grid = Grid("coarse", 3, 3, cellsize=2., xllcorner=1., yllcorner=1.)
    ref = check_intersect(fd, ca, cells, grid, False, "obj")
    reff = check_intersect(fd, ca, filled, grid, True, "objf")
    pts = [[1., 1.], [4., 4.], [2.5, 2.5]]
    refv = check_voronoi(fd, ca, cells, pts, "objv")

    # .. public accessors
    ensure([int(c) for c in ca.idxcells_area] == cells, "obj: area")
    ensure([int(c) for c in ca.idxcells_area_filled] == filled,
           "obj: area filled")
    for c in range(36):
        ensure(bool(ca.isin(c)) == (c in cells), "obj: isin")
        ensure(bool(ca.isin(c, filled=True)) == (c in filled),
               "obj: isin filled")

    # .. clone, deep copy, pickle, dictionary round trip of the catchment
    import copy
    for kind, other in [("clone", ca.clone()), ("deepcopy", copy.deepcopy(ca)),
                        ("pickle", pickle.loads(pickle.dumps(ca))),
                        ("dict", Catchment.from_dict(ca.to_dict()))]:
        res = check_intersect(fd, other, cells, grid, False, "obj"+kind)
        ensure(same_result(ref, res), "obj: "+kind)
        res = check_intersect(fd, other, filled, grid, True, "objf"+kind)
        ensure(same_result(reff, res), "obj: filled "+kind)
        w = check_voronoi(fd, other, cells, pts, "objv"+kind)
        ensure(np.array_equal(w, refv), "obj: voronoi "+kind)
        ensure([int(c) for c in other.idxcells_area] == cells,
               "obj: area "+kind)

    # .. a clone is independent of the original
    other = ca.clone()
    other.idxcells_area[0] = 35
    ensure(int(ca.idxcells_area[0]) == cells[0], "obj: clone independent")
    cells_o = [int(c) for c in other.idxcells_area]
    check_intersect(fd, other, cells_o, grid, False, "obj-clone-mod")
    res = check_intersect(fd, ca, cells, grid, False, "obj-orig")
    ensure(same_result(ref, res), "obj: original after clone modified")

    # .. dictionaries given with other containers for the cells
    dic = ca.to_dict()
    for kind, conv in [("tuple", tuple), ("int32", lambda x:
                                          np.array(x, dtype=np.int32)),
                       ("int64", lambda x: np.array(x, dtype=np.int64)),
                       ("pyint", lambda x: [int(v) for v in x])]:
        dic2 = dict(dic)
        dic2["idxcells_area"] = conv(dic["idxcells_area"])
        dic2["idxcells_area_filled"] = conv(dic["idxcells_area_filled"])
        other = Catchment.from_dict(dic2)
        res = check_intersect(fd, other, cells, grid, False, "objd"+kind)
        ensure(same_result(ref, res), "obj: dict "+kind)
        w = check_voronoi(fd, other, cells, pts, "objdv"+kind)
        ensure(np.array_equal(w, refv), "obj: dict voronoi "+kind)

    # .. sum and difference of catchments
    ca1 = make_catchment(fd, [0, 1, 2, 6, 7], name="a")
    ca2 = make_catchment(fd, [7, 8, 9, 14, 21, 28], name="b")
    casum = ca1+ca2
    cells_sum = [int(c) for c in casum.idxcells_area]
    ensure(cells_sum == [0, 1, 2, 6, 7, 8, 9, 14, 21, 28], "obj: sum")
    check_intersect(fd, casum, cells_sum, grid, False, "obj-sum")
    check_voronoi(fd, casum, cells_sum, pts, "obj-sumv")
    cadif = ca2-ca1
    cells_dif = [int(c) for c in cadif.idxcells_area]
    ensure(cells_dif == [8, 9, 14, 21, 28], "obj: difference")
    check_intersect(fd, cadif, cells_dif, grid, False, "obj-dif")
    check_voronoi(fd, cadif, cells_dif, pts, "obj-difv")
    ensure([int(c) for c in ca1.idxcells_area] == [0, 1, 2, 6, 7],
           "obj: operand modified")

    # .. a catchment whose area is not delineated is rejected
    empty = Catchment("none", fd)
    for fun in [lambda: voronoi(empty, pts), lambda: empty.idxcells_area,
                lambda: empty.idxcells_area_filled,
                lambda: empty.isin(3), lambda: empty.to_dict()]:
        try:
            fun()
        except ValueError:
            pass
        else:
            fail("obj: no error for a catchment without area")
    try:
        call_intersect(empty, grid, False)
    except Exception:
        pass
    else:
        fail("obj: intersect without area")

    # .. the weight grid: clone, pickle, dictionary, text
    agrid = ref[0]
    attrs = ["name", "ncols", "nrows", "cellsize", "xllcorner", "yllcorner",
             "rows_start", "rows_end", "cols_start", "cols_end"]
    for kind, other in [("clone", agrid.clone()),
                        ("deepcopy", copy.deepcopy(agrid)),
                        ("pickle", pickle.loads(pickle.dumps(agrid)))]:
        for attr in attrs:
            ensure(hasattr(other, "parentgrid_"+attr), "obj: hasattr")
            ensure(getattr(other, "parentgrid_"+attr)
                   == getattr(agrid, "parentgrid_"+attr),
                   f"obj: weight grid {kind} {attr}")
        ensure(np.array_equal(other.data, agrid.data), "obj: data "+kind)
        ensure(str(other) == str(agrid), "obj: str "+kind)
        ensure(other.to_dict() == agrid.to_dict(), "obj: to_dict "+kind)
    txt = str(agrid)
    ensure("PARENT GRID" in txt and "rows_start : 0" in txt
           and "cols_end : 1" in txt, "obj: str")
    dic = agrid.to_dict()
    for attr in ["nrows", "ncols", "xllcorner", "yllcorner", "rows_start",
                 "rows_end", "cols_start", "cols_end"]:
        ensure(dic["parentgrid_"+attr] == getattr(agrid, "parentgrid_"+attr),
               "obj: to_dict "+attr)
    # a plain grid has no parent
    ensure(not hasattr(grid, "parentgrid_rows_start")
           and "PARENT GRID" not in str(grid)
           and "parentgrid_nrows" not in grid.to_dict(), "obj: no parent")
    try:
        grid.parentgrid_rows_start
    except AttributeError:
        pass
    else:
        fail("obj: attribute error expected")
    # parent attributes can be overwritten like any attribute
    other = agrid.clone()
    other.parentgrid_rows_start = 5
    ensure(other.parentgrid_rows_start == 5
           and agrid.parentgrid_rows_start == 0, "obj: overwrite")
    ensure(other.to_dict()["parentgrid_rows_start"] == 5, "obj: overwrite2")

    # .. clip uses the same book keeping
    big = Grid("big", 6, 6, cellsize=1., xllcorner=0., yllcorner=0.)
    big.data = np.arange(36).reshape(6, 6)
    clp = big.clip(1.5, 1.5, 3.5, 4.5)
    r0, r1 = int(clp.parentgrid_rows_start), int(clp.parentgrid_rows_end)
    c0, c1 = int(clp.parentgrid_cols_start), int(clp.parentgrid_cols_end)
    ensure(np.array_equal(clp.data, big.data[r0:r1+1, c0:c1+1])
           and clp.parentgrid_name == "big", "obj: clip")

    # .. weight grid used to extract data from the parent grid
    grid.data = np.arange(9).reshape(3, 3)+10.
    r0, r1 = int(agrid.parentgrid_rows_start), int(agrid.parentgrid_rows_end)
    c0, c1 = int(agrid.parentgrid_cols_start), int(agrid.parentgrid_cols_end)
    sub = grid.data[r0:r1+1, c0:c1+1]
    mean1 = float(np.sum(sub*agrid.data))
    mean2 = float(np.sum(grid.data.ravel()[ref[1]]*ref[2]))
    ensure(abs(mean1-mean2) < 1e-12, "obj: extraction")


def main():
    part_exhaustive()
    part_random(11, 700, True)
    part_random(12, 300, False)
    part_delineated()
    part_voronoi_special()
    part_voronoi_random(21, 700, True)
    part_voronoi_random(22, 300, False)
    part_state()
    part_objects()
    ensure(NCHECK["intersect"] > 5000 and NCHECK["nooverlap"] > 300
           and NCHECK["voronoi"] > 3000, f"not enough checks {NCHECK}")
    print("DEMO OK", NCHECK)


if __name__ == "__main__":
    main()
    sys.exit(0)
