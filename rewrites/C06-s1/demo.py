#!/usr/bin/env python
""" Property C06 - catchment delineation is exactly upstream reachability on
the flow grid.

Self-contained check (own pure-python reference model, no file of the
library's test-suite is used). Run as

    PYTHONPATH=<tree>/src /venv/bin/python demo.py

Exit code 0 = property holds on all inputs tried.

What is checked, for every grid/outlet/inlets/start tried:

 A. downstream(c): -2 on a sink (code 0), -1 when the flow leaves the grid
    (or when the code is not one of the eight ESRI codes), the neighbour
    pointed by the ESRI code otherwise.
 B. upstream(d): a (n, 9) table padded with -1, each upstream cell listed once,
    and c is listed for d  <=>  downstream(c) == d.
 C. delineate_area(outlet, inlets): as a set, the cells whose downstream chain
    reaches the outlet without passing through an inlet, plus the outlet
    itself when that set is not empty; empty otherwise; no cell listed twice.
    The filled area has no duplicates, lies in the grid and contains the area.
    When the flow directions form a loop through the outlet (not cut by an
    inlet) any error or any bounded answer is accepted - but no hang.
 D. delineate_river(start): the cells are the downstream chain of start,
    dist advances by 1 (orthogonal step) or sqrt(2) (diagonal step), x/y are
    the cell centres; on a loop: an error, or a prefix of the chain no longer
    than nval.
 E. compute_flowpathlengths(): one row per area cell; for every cell other than
    the outlet the end cell is the outlet and the length is
    n_orthogonal + n_diagonal*sqrt(2) (relative tolerance 1e-12).
 F. The same answers are obtained whatever the call history: repeated calls,
    calls on a clone, calls after the flow direction data was replaced or
    modified in place, calls after a failed call.
"""
import sys
import math
import time
import itertools
import numpy as np

from hydrodiy.gis.grid import Grid, Catchment, delineate_river

SQ2 = math.sqrt(2.)

# (drow, dcol) for the 8 ESRI codes. Row 0 is the top row of the data array
ESRI = {32: (-1, -1), 64: (-1, 0), 128: (-1, 1),
        16: (0, -1), 1: (0, 1),
        8: (1, -1), 4: (1, 0), 2: (1, 1)}
ESRI_CODES = sorted(ESRI)
INVALID_CODES = [3, 5, 7, 255, 256, -1, -4, 1000, 129, 2**40]

NFAIL = 0
NCHECK = 0


def fail(msg):
    global NFAIL
    NFAIL += 1
    if NFAIL <= 20:
        print("FAIL:", msg)


def check(cond, msg):
    global NCHECK
    NCHECK += 1
    if not cond:
        fail(msg)


# ---------------------------------------------------------------- model ----
class Model(object):
    def __init__(self, fd):
        fd = np.asarray(fd)
        self.nr, self.nc = fd.shape
        self.ntot = self.nr*self.nc
        self.fd = [int(v) for v in fd.ravel()]
        self.down = [self._down(c) for c in range(self.ntot)]
        self.ups = [[] for c in range(self.ntot)]
        for c, d in enumerate(self.down):
            if d >= 0:
                self.ups[d].append(c)

    def _down(self, c):
        code = self.fd[c]
        if code == 0:
            return -2
        if code not in ESRI:
            return -1
        r, k = divmod(c, self.nc)
        dr, dk = ESRI[code]
        r, k = r+dr, k+dk
        if r < 0 or r >= self.nr or k < 0 or k >= self.nc:
            return -1
        return r*self.nc+k

    def step(self, c, d):
        r1, k1 = divmod(c, self.nc)
        r2, k2 = divmod(d, self.nc)
        assert max(abs(r1-r2), abs(k1-k2)) == 1
        return SQ2 if (r1 != r2 and k1 != k2) else 1.

    def area(self, outlet, inlets):
        """ returns (set of cells, loop) where loop is True if the
        flow directions loop through the outlet without meeting an inlet """
        inlets = set(inlets)
        seen = set()
        loop = False
        layer = [outlet]
        while layer:
            nxt = []
            for d in layer:
                for c in self.ups[d]:
                    if c in inlets:
                        continue
                    if c == outlet:
                        loop = True
                        continue
                    assert c not in seen
                    seen.add(c)
                    nxt.append(c)
            layer = nxt
        if seen:
            seen.add(outlet)
        return seen, loop

    def area_by_definition(self, outlet, inlets):
        """ Same thing, straight from the sentence of the property """
        inlets = set(inlets)
        cells = set()
        for c in range(self.ntot):
            if c == outlet:
                continue
            x = c
            nstep = 0
            ok = False
            while nstep <= self.ntot:
                if x in inlets:
                    break
                x = self.down[x]
                nstep += 1
                if x < 0:
                    break
                if x == outlet:
                    ok = True
                    break
            if ok:
                cells.add(c)
        if cells:
            cells.add(outlet)
        return cells

    def chain(self, start, nmax):
        """ downstream chain from start, at most nmax cells """
        out = [start]
        while len(out) < nmax:
            d = self.down[out[-1]]
            if d < 0:
                break
            out.append(d)
        return out

    def has_loop_from(self, start):
        ch = self.chain(start, self.ntot+2)
        return len(ch) > self.ntot

    def pathlength(self, c, outlet):
        north, ndiag = 0, 0
        x = c
        while x != outlet:
            d = self.down[x]
            assert d >= 0
            if self.step(x, d) == 1.:
                north += 1
            else:
                ndiag += 1
            x = d
        return north+ndiag*SQ2


# ------------------------------------------------------------- checkers ----
def make_flowdir(fd, cellsize=1., xll=0., yll=0.):
    fd = np.asarray(fd, dtype=np.int64)
    nr, nc = fd.shape
    g = Grid("fd", nc, nr, dtype=np.int64, cellsize=cellsize,
             xllcorner=xll, yllcorner=yll)
    g.data = fd
    return g


def check_updown(ca, mo, tag):
    ntot = mo.ntot
    allc = np.arange(ntot)
    down = ca.downstream(allc)
    check(down.shape == (ntot,), f"{tag} downstream shape")
    check([int(v) for v in down] == mo.down,
          f"{tag} downstream {list(down)} != {mo.down}")
    up = ca.upstream(allc)
    check(up.shape == (ntot, 9), f"{tag} upstream shape")
    for d in range(ntot):
        row = [int(v) for v in up[d]]
        pos = [v for v in row if v >= 0]
        check(all(v == -1 for v in row if v < 0), f"{tag} upstream padding")
        check(len(set(pos)) == len(pos), f"{tag} upstream duplicates {row}")
        check(sorted(pos) == mo.ups[d],
              f"{tag} upstream of {d}: {row} expected {mo.ups[d]}")
    # single cell queries, scalar argument
    for c in {0, ntot-1, ntot//2}:
        d1 = ca.downstream(c)
        check(len(d1) == 1 and int(d1[0]) == mo.down[c],
              f"{tag} scalar downstream")
        u1 = ca.upstream(c)
        check(u1.shape == (1, 9)
              and sorted(int(v) for v in u1[0] if v >= 0) == mo.ups[c],
              f"{tag} scalar upstream")


def run_area(ca, outlet, inlets, nval):
    """ returns None if error, (area, filled) otherwise """
    try:
        if nval is None:
            ca.delineate_area(outlet, inlets)
        else:
            ca.delineate_area(outlet, inlets, nval)
    except Exception:
        return None
    return (np.array(ca.idxcells_area, copy=True),
            np.array(ca.idxcells_area_filled, copy=True))


def check_area(ca, mo, outlet, inlets, nval, tag, flowpaths=True):
    minl = [] if inlets is None else \
        [int(v) for v in np.atleast_1d(inlets)]
    expected, loop = mo.area(outlet, minl)
    res = run_area(ca, outlet, inlets, nval)
    tag = f"{tag} outlet={outlet} inlets={inlets} nval={nval}"
    if loop:
        # error or bounded result
        if res is not None:
            check(len(res[0]) <= max(nval or 0, 1000000),
                  f"{tag} unbounded")
        return None
    if res is None:
        fail(f"{tag} error raised on a grid without loop at the outlet")
        return None
    area, filled = res
    la = [int(v) for v in area]
    check(len(set(la)) == len(la), f"{tag} area has duplicates {la}")
    check(set(la) == expected,
          f"{tag} area {sorted(la)} expected {sorted(expected)}")
    lf = [int(v) for v in filled]
    check(len(set(lf)) == len(lf), f"{tag} filled has duplicates")
    check(all(0 <= v < mo.ntot for v in lf), f"{tag} filled out of grid")
    check(set(la) <= set(lf), f"{tag} filled does not contain area")
    if len(la) == 0:
        check(len(lf) == 0, f"{tag} filled not empty for an empty area")

    if flowpaths and len(la) > 0:
        ca.compute_flowpathlengths()
        fp = ca.flowpathlengths
        check(list(fp.columns) == ["idxcell_start", "idxcell_end",
                                   "length[cell]"], f"{tag} fp columns")
        vals = np.asarray(fp.values, dtype=np.float64)
        check(vals.shape == (len(la), 3), f"{tag} fp shape")
        starts = [int(v) for v in vals[:, 0]]
        check(sorted(starts) == sorted(la), f"{tag} fp starts")
        for s, e, ln in vals:
            s = int(s)
            if s == outlet:
                continue
            exp = mo.pathlength(s, outlet)
            check(int(e) == outlet, f"{tag} fp end of {s} is {e}")
            check(abs(ln-exp) <= 1e-12*max(1., exp),
                  f"{tag} fp length of {s}: {ln!r} expected {exp!r}")
    return la


def check_river(fdgrid, mo, start, nval, tag):
    tag = f"{tag} river start={start} nval={nval}"
    loop = mo.has_loop_from(start)
    try:
        if nval is None:
            df = delineate_river(fdgrid, start)
        else:
            df = delineate_river(fdgrid, start, nval)
    except Exception:
        check(loop, f"{tag} error without loop")
        return
    nmax = 1000000 if nval is None else nval
    expected = mo.chain(start, nmax)
    cells = [int(v) for v in df["idxcell"].values]
    if loop:
        # bounded result, following the chain
        check(len(cells) <= nmax, f"{tag} unbounded")
        check(cells == expected[:len(cells)], f"{tag} not on the chain")
    else:
        check(cells == expected, f"{tag} cells {cells} expected {expected}")
    check(list(df.columns) == ["dist", "dx", "dy", "x", "y", "idxcell"],
          f"{tag} columns")
    n = len(cells)
    dist = df["dist"].values
    dx, dy = df["dx"].values, df["dy"].values
    x, y = df["x"].values, df["y"].values
    csz = float(fdgrid.cellsize)
    xll, yll = float(fdgrid.xllcorner), float(fdgrid.yllcorner)
    north, ndiag = 0, 0
    for i in range(n):
        r, k = divmod(cells[i], mo.nc)
        if i == 0:
            check(dist[0] == 0. and dx[0] == 0 and dy[0] == 0,
                  f"{tag} first point")
        else:
            r0, k0 = divmod(cells[i-1], mo.nc)
            if r0 != r and k0 != k:
                ndiag += 1
            else:
                north += 1
            exp = north+ndiag*SQ2
            check(abs(dist[i]-exp) <= 1e-12*max(1., exp),
                  f"{tag} dist[{i}]={dist[i]!r} expected {exp!r}")
            check(dx[i] == k0-k and dy[i] == r0-r, f"{tag} dx/dy")
        ex = xll+csz*(k+0.5)
        ey = yll+csz*(mo.nr-1-r+0.5)
        check(abs(x[i]-ex) <= 1e-9*max(1., abs(ex))
              and abs(y[i]-ey) <= 1e-9*max(1., abs(ey)), f"{tag} x/y")
        if n > 40 and i > 20 and loop:
            break


def inlet_sets(ntot, rng, outlet, nmax):
    """ a selection of inlet sets (None = no inlet argument) """
    sets = [None, []]
    sets += [[c] for c in range(ntot)][:nmax]
    if ntot >= 2:
        for _ in range(nmax):
            k = int(rng.integers(2, min(ntot, 5)+1))
            sets.append([int(v) for v in rng.choice(ntot, k, replace=False)])
        # duplicated inlets, inlet equal to outlet
        sets.append([outlet, outlet])
        sets.append([int(rng.integers(ntot))]*2+[outlet])
    return sets


# -------------------------------------------------------------- suites ----
def exhaustive_small(rng):
    """ every grid of the alphabet (8 codes, sink, 1 invalid code) for
    sizes 1x1, 1x2, 2x1, 1x3, 3x1; every outlet; every inlet subset """
    alphabet = ESRI_CODES+[0, 3]
    shapes = [(1, 1), (1, 2), (2, 1), (1, 3), (3, 1)]
    n = 0
    for nr, nc in shapes:
        ntot = nr*nc
        ca = None
        for codes in itertools.product(alphabet, repeat=ntot):
            fd = np.array(codes, dtype=np.int64).reshape((nr, nc))
            mo = Model(fd)
            if ca is None:
                ca = Catchment("ex", make_flowdir(fd))
            elif n % 2 == 0:
                ca.flowdir.data = fd           # data replaced
            else:
                ca.flowdir.data[:] = fd        # data modified in place
            n += 1
            tag = f"[{nr}x{nc} {codes}]"
            check_updown(ca, mo, tag)
            subsets = [None]
            for k in range(ntot+1):
                subsets += [list(s) for s in
                            itertools.combinations(range(ntot), k)]
            for outlet in range(ntot):
                for inl in subsets:
                    check_area(ca, mo, outlet, inl, ntot+1, tag)
            fdg = ca.flowdir
            for start in range(ntot):
                check_river(fdg, mo, start, 3*ntot+2, tag)
    return n


def exhaustive_2x2(rng):
    """ every 2x2 grid of the alphabet; every outlet; a few inlet sets """
    alphabet = ESRI_CODES+[0, 3]
    ca = None
    n = 0
    for codes in itertools.product(alphabet, repeat=4):
        fd = np.array(codes, dtype=np.int64).reshape((2, 2))
        mo = Model(fd)
        if ca is None:
            ca = Catchment("ex22", make_flowdir(fd))
        else:
            ca.flowdir.data[:] = fd
        n += 1
        tag = f"[2x2 {codes}]"
        if n % 7 == 0:
            check_updown(ca, mo, tag)
        else:
            down = ca.downstream(np.arange(4))
            check([int(v) for v in down] == mo.down, f"{tag} downstream")
        for outlet in range(4):
            inl = [None, [(outlet+1+n) % 4], [(outlet+2) % 4, (outlet+n) % 4]]
            for s in inl:
                check_area(ca, mo, outlet, s, 5, tag, flowpaths=(n % 3 == 0))
        if n % 5 == 0:
            check_river(ca.flowdir, mo, n % 4, 9, tag)
    return n


def random_grid(rng, nr, nc, kind):
    ntot = nr*nc
    if kind == 0:
        # uniformly random codes, with sinks and invalid codes
        pool = ESRI_CODES*3+[0, 0]+[int(rng.choice(INVALID_CODES))]
        fd = rng.choice(pool, size=(nr, nc))
    elif kind == 1:
        # everything drains towards one cell (large catchments, ties
        # between orthogonal and diagonal routes)
        r0, k0 = int(rng.integers(nr)), int(rng.integers(nc))
        fd = np.zeros((nr, nc), dtype=np.int64)
        inv = {v: k for k, v in ESRI.items()}
        for r in range(nr):
            for k in range(nc):
                dr = int(np.sign(r0-r))
                dk = int(np.sign(k0-k))
                if rng.random() < 0.3 and dr != 0 and dk != 0:
                    if rng.random() < 0.5:
                        dr = 0
                    else:
                        dk = 0
                fd[r, k] = inv[(dr, dk)] if (dr, dk) != (0, 0) else \
                    int(rng.choice([0, 1, 4, 16, 64]))
    elif kind == 2:
        # one single code everywhere (long straight/diagonal chains
        # leaving the grid) with a few perturbations
        fd = np.full((nr, nc), int(rng.choice(ESRI_CODES)), dtype=np.int64)
        for _ in range(int(rng.integers(0, 3))):
            fd[int(rng.integers(nr)), int(rng.integers(nc))] = \
                int(rng.choice(ESRI_CODES+[0]+INVALID_CODES))
    else:
        # a ring along the border (loop) + inside draining to the ring
        fd = rng.choice(ESRI_CODES, size=(nr, nc))
        if nr >= 2 and nc >= 2:
            fd[0, :] = 1
            fd[:, nc-1] = 4
            fd[nr-1, :] = 16
            fd[:, 0] = 64
            fd[0, 0] = 1
            fd[0, nc-1] = 4
            fd[nr-1, nc-1] = 16
            fd[nr-1, 0] = 64
    return np.asarray(fd, dtype=np.int64)


def random_suite(rng, nrep, maxdim):
    n = 0
    for irep in range(nrep):
        nr = int(rng.integers(1, maxdim+1))
        nc = int(rng.integers(1, maxdim+1))
        if irep % 10 == 0:
            nr = 1
        elif irep % 10 == 1:
            nc = 1
        elif irep % 10 == 2:
            nc = 2   # diagonal step changes the cell number by 1
        kind = irep % 4
        fd = random_grid(rng, nr, nc, kind)
        mo = Model(fd)
        ntot = nr*nc
        csz = float(rng.choice([1., 0.05, 25., 0.1]))
        xll = float(rng.choice([0., -120.5, 1e5]))
        yll = float(rng.choice([0., 37.25, -4e5]))
        ca = Catchment("rnd", make_flowdir(fd, csz, xll, yll))
        tag = f"[rnd{irep} {nr}x{nc} kind={kind} {fd.tolist()}]"
        check_updown(ca, mo, tag)
        n += 1

        # model self consistency (two formulations of the area)
        o = int(rng.integers(ntot))
        s = [int(v) for v in rng.choice(ntot, min(ntot, 2), replace=False)]
        a1, loop = mo.area(o, s)
        if not loop:
            assert a1 == mo.area_by_definition(o, s), tag

        # outlets: corners, the cell receiving most, random cells
        cands = range(ntot) if ntot <= 100 else \
            [int(v) for v in rng.integers(0, ntot, 50)]
        nups = [(len(mo.area(c, [])[0]), c) for c in cands]
        outlets = {0, ntot-1, nc-1, ntot-nc, max(nups)[1]}
        outlets |= {int(v) for v in rng.integers(0, ntot, 3)}
        for outlet in sorted(outlets):
            for inl in inlet_sets(ntot, rng, outlet, 2):
                nval = [ntot+1, None, ntot+5][int(rng.integers(3))]
                check_area(ca, mo, outlet, inl, nval, tag)

        starts = {0, ntot-1} | {int(v) for v in rng.integers(0, ntot, 3)}
        for start in sorted(starts):
            nval = [ntot+1, 2*ntot+3, None][int(rng.integers(3))]
            if mo.has_loop_from(start) and nval is None:
                nval = 3*ntot
            check_river(ca.flowdir, mo, start, nval, tag)
        # truncated river (nval shorter than the chain)
        check_river(ca.flowdir, mo, int(rng.integers(ntot)), 2, tag)
        check_river(ca.flowdir, mo, int(rng.integers(ntot)), 1, tag)
    return n


def history_suite(rng):
    """ same answers whatever was called before """
    n = 0
    for irep in range(60):
        nr, nc = int(rng.integers(2, 7)), int(rng.integers(2, 7))
        ntot = nr*nc
        fd = random_grid(rng, nr, nc, 1 if irep % 3 else 0)
        mo = Model(fd)
        ca = Catchment("hist", make_flowdir(fd))
        tag = f"[hist{irep} {fd.tolist()}]"
        keep = []
        for icall in range(12):
            outlet = int(rng.integers(ntot))
            inl = inlet_sets(ntot, rng, outlet, 1)
            inl = inl[int(rng.integers(len(inl)))]
            nval = [ntot+1, ntot+7, None][int(rng.integers(3))]
            what = int(rng.integers(7))
            if what == 0:
                # failed call first (buffer too small or outlet off grid)
                try:
                    ca.delineate_area(outlet, inl, 1)
                except Exception:
                    pass
                try:
                    ca.delineate_area(ntot+3, inl, nval)
                except Exception:
                    pass
                try:
                    ca.delineate_area(outlet, inl, -1)
                except Exception:
                    pass
                try:
                    ca.delineate_area(outlet, [-1, ntot], nval)
                except Exception:
                    pass
            elif what == 1:
                # work on a clone, the original must not be disturbed
                cb = ca.clone()
                check_area(cb, mo, int(rng.integers(ntot)), None, nval, tag)
            elif what == 2:
                # new flow directions, modified in place
                fd = random_grid(rng, nr, nc, int(rng.integers(3)))
                ca.flowdir.data[:] = fd
                mo = Model(fd)
            elif what == 3:
                # new flow directions, array replaced
                fd = random_grid(rng, nr, nc, int(rng.integers(3)))
                ca.flowdir.data = fd
                mo = Model(fd)
            elif what == 4:
                # one cell changed through the grid item setter
                c = int(rng.integers(ntot))
                fd = fd.copy()
                fd.flat[c] = int(rng.choice(ESRI_CODES+[0, 3]))
                ca.flowdir[c] = fd.flat[c]
                mo = Model(fd)
            elif what == 5:
                check_updown(ca, mo, tag)
            la = check_area(ca, mo, outlet, inl, nval, tag)
            if la is not None:
                # results of earlier calls must not change afterwards
                keep.append((ca.idxcells_area, list(ca.idxcells_area),
                             ca.idxcells_area_filled,
                             list(ca.idxcells_area_filled)))
            check_river(ca.flowdir, mo, int(rng.integers(ntot)),
                        2*ntot, tag)
            n += 1
        for arr, cp, arrf, cpf in keep:
            check(list(arr) == cp and list(arrf) == cpf,
                  f"{tag} earlier result modified by later calls")
    return n


def filled_access_suite(rng):
    """ the filled area read through the various public accessors, in
    various orders, after one or several delineations """
    n = 0
    for irep in range(150):
        nr, nc = int(rng.integers(1, 8)), int(rng.integers(1, 8))
        ntot = nr*nc
        fd = random_grid(rng, nr, nc, 1 if irep % 4 else 0)
        mo = Model(fd)
        ca = Catchment("fill", make_flowdir(fd))
        tag = f"[fill{irep} {fd.tolist()}]"
        # two delineations in a row, nothing read after the first one
        o1, o2 = int(rng.integers(ntot)), int(rng.integers(ntot))
        inl = [int(rng.integers(ntot))] if irep % 2 else None
        minl = [] if inl is None else inl
        exp1, loop1 = mo.area(o1, [])
        exp2, loop2 = mo.area(o2, minl)
        if loop1 or loop2:
            continue
        ca.delineate_area(o1, None, ntot+1)
        ca.delineate_area(o2, inl, ntot+1)
        how = irep % 5
        if how == 0:
            filled = [int(v) for v in ca.idxcells_area_filled]
        elif how == 1:
            filled = [int(v) for v in ca.clone().idxcells_area_filled]
        elif how == 2:
            filled = [int(v) for v in ca.to_dict()["idxcells_area_filled"]]
        elif how == 3:
            filled = [c for c in range(ntot) if ca.isin(c, filled=True)]
        else:
            cb = ca.clone()
            cb.delineate_area(o1, None, ntot+1)
            filled1 = [int(v) for v in cb.idxcells_area_filled]
            check(exp1 <= set(filled1), f"{tag} clone filled")
            filled = [int(v) for v in ca.idxcells_area_filled]
        area = [int(v) for v in ca.idxcells_area]
        check(set(area) == exp2, f"{tag} area after 2 delineations")
        check(len(set(filled)) == len(filled), f"{tag} filled duplicates")
        check(exp2 <= set(filled), f"{tag} filled does not contain area")
        check(all(0 <= v < ntot for v in filled), f"{tag} filled off grid")
        # all accessors agree
        f2 = [int(v) for v in ca.idxcells_area_filled]
        f3 = [int(v) for v in ca.to_dict()["idxcells_area_filled"]]
        check(sorted(f2) == sorted(filled) and sorted(f3) == sorted(filled),
              f"{tag} accessors of filled area disagree")
        n += 1
    return n


def concurrent_suite():
    """ catchments used from several threads at the same time """
    import threading
    nfail0 = NFAIL

    def work(seed):
        rng = np.random.default_rng(seed)
        for irep in range(15):
            nr, nc = int(rng.integers(1, 7)), int(rng.integers(1, 7))
            ntot = nr*nc
            fd = random_grid(rng, nr, nc, irep % 3)
            mo = Model(fd)
            ca = Catchment(f"thread{seed}", make_flowdir(fd))
            for icall in range(6):
                nval = [ntot+1, ntot+3][icall % 2]
                check_area(ca, mo, int(rng.integers(ntot)), None, nval,
                           f"[thread{seed} {fd.tolist()}]")
                check_river(ca.flowdir, mo, int(rng.integers(ntot)),
                            ntot+1, f"[thread{seed}]")

    threads = [threading.Thread(target=work, args=(k,)) for k in range(4)]
    for th in threads:
        th.start()
    for th in threads:
        th.join()
    return NFAIL-nfail0


def documented_example():
    """ 6x6 example: two branches joining, then a sink """
    fd = np.zeros((6, 6), dtype=np.int64)
    fd[0, 1:4] = 4
    fd[1, 1:3] = 4
    fd[1, 3] = 8
    fd[2, 1] = 2
    fd[2, 2] = 4
    fd[2, 3] = 8
    fd[3, 2] = 2
    fd[4, 3] = 4
    g = make_flowdir(fd)
    mo = Model(fd)
    ca = Catchment("doc", g)
    check_updown(ca, mo, "[doc]")
    la = check_area(ca, mo, 27, None, None, "[doc]")
    check(sorted(la) == [1, 2, 3, 7, 8, 9, 13, 14, 15, 20, 27], "[doc] area")
    la = check_area(ca, mo, 12, None, None, "[doc]")
    check(la == [], "[doc] empty area")
    la = check_area(ca, mo, 27, 14, None, "[doc]")
    check(sorted(la) == [1, 7, 13, 15, 20, 27], "[doc] area with inlet")
    la = check_area(ca, mo, 27, [14, 13], None, "[doc]")
    check(sorted(la) == [15, 20, 27], "[doc] area with 2 inlets")
    check_river(g, mo, 1, None, "[doc]")
    df = delineate_river(g, 1)
    check(list(df["idxcell"]) == [1, 7, 13, 20, 27, 33], "[doc] river")
    check(np.allclose(df["dist"], [0, 1, 2, 2+SQ2, 2+2*SQ2, 3+2*SQ2],
                      rtol=1e-14, atol=0), "[doc] river dist")


def loops_do_not_hang():
    """ loops: error or bounded result, quickly """
    # 2-cell loop, ring, ring with tributaries
    grids = [np.array([[1, 16]]), np.array([[4], [64]]),
             np.array([[1, 4], [64, 16]]),
             np.array([[2, 4, 8], [1, 4, 16], [1, 64, 16]]),
             random_grid(np.random.default_rng(1), 5, 6, 3)]
    for fd in grids:
        fd = np.asarray(fd, dtype=np.int64)
        mo = Model(fd)
        ntot = fd.size
        ca = Catchment("loop", make_flowdir(fd))
        check_updown(ca, mo, "[loop]")
        for outlet in range(ntot):
            for nval in [None, ntot+1, 50]:
                t0 = time.time()
                check_area(ca, mo, outlet, None, nval, "[loop]")
                check_area(ca, mo, outlet, [(outlet+1) % ntot], nval,
                           "[loop]")
                check(time.time()-t0 < 30., "[loop] too slow")
        for start in range(ntot):
            for nval in [1, 2, ntot, ntot+1, 5*ntot]:
                check_river(ca.flowdir, mo, start, nval, "[loop]")
        # default nval on a loop (1e6 points at most)
        t0 = time.time()
        check_river(ca.flowdir, mo, 0, None, "[loop]")
        check(time.time()-t0 < 60., "[loop] river too slow")


def main(quick=False):
    rng = np.random.default_rng(20260929)
    t0 = time.time()
    documented_example()
    print(f"documented example done      ({time.time()-t0:6.1f}s)")
    loops_do_not_hang()
    print(f"loops done                   ({time.time()-t0:6.1f}s)")
    n = exhaustive_small(rng)
    print(f"exhaustive small: {n:6d} grids ({time.time()-t0:6.1f}s)")
    n = exhaustive_2x2(rng)
    print(f"exhaustive 2x2  : {n:6d} grids ({time.time()-t0:6.1f}s)")
    n = random_suite(rng, 60 if quick else 300, 9)
    n += random_suite(rng, 5 if quick else 20, 40)
    print(f"random          : {n:6d} grids ({time.time()-t0:6.1f}s)")
    n = history_suite(rng)
    print(f"call histories  : {n:6d} calls ({time.time()-t0:6.1f}s)")
    n = filled_access_suite(rng)
    print(f"filled accessors: {n:6d} cases ({time.time()-t0:6.1f}s)")
    concurrent_suite()
    print(f"concurrent calls done        ({time.time()-t0:6.1f}s)")
    print(f"{NCHECK} checks, {NFAIL} failures")
    return 1 if NFAIL else 0


if __name__ == "__main__":
    sys.exit(main(quick="--quick" in sys.argv))
