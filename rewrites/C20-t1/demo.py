#!/usr/bin/env python
""" Demo / self-check for property C20 (sampling, ranking and summary helpers).

Run as
    PYTHONPATH=<tree>/src /venv/bin/python demo.py

Every check is made against an oracle written here with plain numpy, never
against a stored output of the library, so the program exits 0 on the
unmodified tree and on the rewritten tree.  Exit status 1 = a check failed.
"""
import sys
import itertools
import warnings

import numpy as np
import pandas as pd
from scipy.stats import norm

import matplotlib
matplotlib.use("Agg")

from hydrodiy.stat import sutils
from hydrodiy.plot.boxplot import Boxplot, boxplot_stats, BoxplotError
from hydrodiy.plot.violinplot import Violin

warnings.filterwarnings("ignore")

NCHECKS = 0
FAILURES = []


def check(cond, label):
    global NCHECKS
    NCHECKS += 1
    if not cond:
        FAILURES.append(label)
        if len(FAILURES) < 30:
            print("FAILED:", label)


def raises(fun, *args, **kwargs):
    try:
        fun(*args, **kwargs)
    except Exception:
        return True
    return False


# ----------------------------------------------------------------------
# 1. lhs
# ----------------------------------------------------------------------
def check_lhs(rng):
    sizes = [1, 2, 3, 4, 5, 7, 10, 16, 31, 64, 100, 257, 400]
    for nsamples in sizes:
        for nparams in range(1, 7):
            kind = rng.integers(0, 5)
            if kind == 0:
                pmin = np.zeros(nparams)
                pmax = np.ones(nparams)
            elif kind == 1:
                pmin = rng.uniform(-1e3, 1e3, nparams)
                pmax = pmin + rng.uniform(1e-3, 1e3, nparams)
            elif kind == 2:
                # big offset, small width
                pmin = rng.uniform(-1e6, 1e6, nparams)
                pmax = pmin + rng.uniform(1., 10., nparams)
            elif kind == 3:
                # straddling zero, very different scales
                pmin = -10.**rng.integers(-6, 7, nparams)
                pmax = 10.**rng.integers(-6, 7, nparams)
            else:
                pmin = rng.uniform(-5, 5, nparams)
                pmax = pmin + 10.**rng.uniform(-8, 8, nparams)

            for layout in range(3):
                if layout == 0:
                    a, b = pmin, pmax
                elif layout == 1:
                    a, b = pmin.tolist(), pmax.tolist()
                else:
                    # scalar upper bound broadcast on all parameters
                    a, b = pmin, float(np.max(pmax))
                smp = sutils.lhs(nsamples, a, b)
                lab = f"lhs n={nsamples} p={nparams} kind={kind}"\
                      + f" layout={layout}"
                smp = np.asarray(smp)
                check(smp.shape == (nsamples, nparams), lab+" shape")
                if smp.shape != (nsamples, nparams):
                    continue
                check(np.all(np.isfinite(smp)), lab+" finite")
                bb = np.broadcast_to(np.asarray(b, dtype=float), (nparams,))
                for ip in range(nparams):
                    lo, hi = float(pmin[ip]), float(bb[ip])
                    du = (hi-lo)/nsamples
                    # tolerance for points rounded onto a stratum edge
                    tol = 1e-9*du + 4*np.spacing(max(abs(lo), abs(hi)))
                    s = np.sort(smp[:, ip])
                    k = np.arange(nsamples)
                    ok = np.all(s >= lo+k*du-tol) \
                        and np.all(s <= lo+(k+1)*du+tol)
                    check(ok, lab+f" one point per stratum (param {ip})")
                    # within bounds
                    check(s[0] >= lo-tol and s[-1] <= hi+tol,
                          lab+" within range")

    # Not always the same draw
    a = sutils.lhs(50, [0.]*3, [1.]*3)
    b = sutils.lhs(50, [0.]*3, [1.]*3)
    check(not np.allclose(a, b), "lhs two draws differ")
    # columns are shuffled independently
    check(not np.array_equal(np.argsort(a[:, 0]), np.argsort(a[:, 1])),
          "lhs columns permuted independently")

    # errors
    check(raises(sutils.lhs, 10, [0., 0.], [1., 1., 1.]),
          "lhs rejects pmax of wrong length")
    check(raises(sutils.lhs, 10, [0., 2.], [1., 1.]),
          "lhs rejects pmax<pmin")
    check(raises(sutils.lhs, 10, [0., 1.], [1., 1.]),
          "lhs rejects pmax==pmin")


# ----------------------------------------------------------------------
# 2. ppos
# ----------------------------------------------------------------------
def check_ppos(rng):
    csts = [0., 0.5, 0.3, 0.375, 0.3175, 0.4, 0.25, 1e-12, 0.5-1e-12]
    csts += rng.uniform(0, 0.5, 10).tolist()
    sizes = list(range(1, 40)) + [50, 99, 100, 101, 255, 256, 365, 500, 1000]
    for nval in sizes:
        for cst in csts:
            lab = f"ppos n={nval} cst={cst}"
            pp = np.asarray(sutils.ppos(nval, cst))
            check(pp.shape == (nval, ), lab+" shape")
            check(np.all(np.diff(pp) > 0), lab+" strictly increasing")
            check(pp[0] > 0 and pp[-1] < 1, lab+" in (0, 1)")
            check(np.allclose(pp+pp[::-1], 1., rtol=0, atol=1e-13),
                  lab+" symmetric")
            expected = (np.arange(1, nval+1)-cst)/(nval+1-2*cst)
            check(np.allclose(pp, expected, rtol=1e-13, atol=1e-15),
                  lab+" formula")
    # default constant
    check(np.allclose(sutils.ppos(10), (np.arange(1, 11)-0.3)/10.4,
                      rtol=1e-13, atol=0), "ppos default cst")
    # numpy integer size
    check(len(sutils.ppos(np.int64(7), 0.4)) == 7, "ppos numpy int")
    # rejected constants
    for cst in [-1e-6, -1., 0.5+1e-6, 1., 10.]:
        check(raises(sutils.ppos, 10, cst), f"ppos rejects cst={cst}")


# ----------------------------------------------------------------------
# 3. standard_normal
# ----------------------------------------------------------------------
def sgn(v):
    """ Pairwise order of the elements of v (-1, 0, 1), inf safe """
    v = np.asarray(v, dtype=float)
    return (v[:, None] > v[None, :]).astype(int)\
        - (v[:, None] < v[None, :]).astype(int)


def check_standard_normal(rng):
    vectors = []
    for n in [1, 2, 3, 4, 5, 10, 33, 100, 400]:
        vectors.append(rng.normal(size=n))
        # heavy ties
        vectors.append(rng.integers(0, 3, n).astype(float))
        vectors.append(rng.integers(0, max(2, n//2), n).astype(float))
        # constant
        vectors.append(np.full(n, 2.5))
        # with infinities (not nan)
        x = rng.normal(size=n)
        x[rng.integers(0, n)] = np.inf
        if n > 1:
            x[0] = -np.inf
        vectors.append(x)
        # sorted / reversed
        vectors.append(np.sort(rng.normal(size=n)))
        vectors.append(np.sort(rng.normal(size=n))[::-1].copy())
    vectors.append(np.array([1., 1.]))
    vectors.append(np.array([2., 1.]))
    vectors.append(np.array([1., 2., 2., 3., 3., 3.]))

    for iv, x in enumerate(vectors):
        n = len(x)
        for cst in [0., 0.3, 0.375, 0.5]:
            for method in ["average", "min", "max", "first", "dense"]:
                lab = f"standard_normal v{iv} n={n} cst={cst} {method}"
                x0 = x.copy()
                if method == "average":
                    if cst == 0.:
                        unorm, ranks = sutils.standard_normal(x)
                    else:
                        unorm, ranks = sutils.standard_normal(x, cst)
                else:
                    unorm, ranks = sutils.standard_normal(
                                        x, cst=cst, rank_method=method)
                check(np.array_equal(x, x0), lab+" input untouched")
                unorm = np.asarray(unorm, dtype=float)
                ranks = np.asarray(ranks, dtype=float)
                check(unorm.shape == (n, ) and ranks.shape == (n, ),
                      lab+" shapes")

                # ranks follow the data
                dx = sgn(x)
                dr = sgn(ranks)
                du = sgn(unorm)
                if method == "first":
                    # ties are ranked by position
                    pos = np.arange(n)
                    dpos = np.sign(pos[:, None]-pos[None, :])
                    dx = np.where(dx == 0, dpos, dx)
                check(np.array_equal(dx, dr), lab+" ranks ordered as data")

                # scores = strictly increasing function of ranks
                check(np.array_equal(dr, du),
                      lab+" scores strictly increasing in ranks")

                # ranks are 0-based
                if method in ["average", "first"]:
                    check(abs(ranks.sum()-n*(n-1)/2) < 1e-9,
                          lab+" ranks sum")
                check(ranks.min() >= 0 and ranks.max() <= n-1,
                      lab+" ranks range")

                # Formula
                expected = norm.ppf((ranks+1-cst)/(n+1-2*cst))
                check(np.allclose(unorm, expected, rtol=1e-12, atol=1e-12),
                      lab+" formula")
                check(np.all(np.isfinite(unorm)), lab+" finite scores")

                # Symetric scores when no ties
                if len(np.unique(x)) == n:
                    us = np.sort(unorm)
                    check(np.allclose(us+us[::-1], 0, atol=1e-9),
                          lab+" symmetric scores")

        # sorted option -> ranks are positions
        unorm, ranks = sutils.standard_normal(x, 0.3, sorted=True)
        ranks = np.asarray(ranks, dtype=float)
        unorm = np.asarray(unorm, dtype=float)
        check(np.array_equal(ranks, np.arange(n)), f"sorted ranks v{iv}")
        check(np.all(np.diff(unorm) > 0), f"sorted scores increasing v{iv}")
        check(np.allclose(unorm, norm.ppf(sutils.ppos(n, 0.3)),
                          rtol=1e-12, atol=1e-12), f"sorted scores v{iv}")

    # nan rejected
    for x in [np.array([np.nan]), np.array([1., np.nan, 2.]),
              np.array([np.nan, np.nan])]:
        check(raises(sutils.standard_normal, x), "standard_normal nan")


# ----------------------------------------------------------------------
# 4. pareto_front
# ----------------------------------------------------------------------
def pareto_oracle(data, orientation):
    """ Brute force: i is dominated iff there is another point j strictly
    better in every coordinate that is available for both. """
    nval, ncol = data.shape
    out = np.zeros(nval, dtype=int)
    for i in range(nval):
        for j in range(nval):
            if i == j:
                continue
            better = True
            for k in range(ncol):
                a, b = data[i, k], data[j, k]
                if np.isnan(a) or np.isnan(b):
                    continue
                if orientation > 0:
                    better = better and (b > a)
                else:
                    better = better and (b < a)
            if better:
                out[i] = 1
                break
    return out


def pareto_datasets(rng):
    for nval in list(range(0, 14)) + [17, 25, 33, 40, 59, 60]:
        for ncol in range(1, 6):
            for kind in range(7):
                if kind == 0:
                    data = rng.normal(size=(nval, ncol))
                elif kind == 1:
                    # heavy ties
                    data = rng.integers(0, 3, (nval, ncol)).astype(float)
                elif kind == 2:
                    # heavy ties + nan
                    data = rng.integers(-2, 3, (nval, ncol)).astype(float)
                    data[rng.uniform(size=data.shape) < 0.25] = np.nan
                elif kind == 3:
                    # continuous + a lot of nan, incl. full rows
                    data = rng.normal(size=(nval, ncol))
                    data[rng.uniform(size=data.shape) < 0.5] = np.nan
                    if nval > 2:
                        data[rng.integers(0, nval)] = np.nan
                elif kind == 4:
                    # one nan column, duplicated rows
                    data = rng.integers(0, 4, (nval, ncol)).astype(float)
                    data[:, rng.integers(0, ncol)] = np.nan
                    if nval > 3:
                        data[nval//2:] = data[:nval-nval//2]
                elif kind == 5:
                    # all equal
                    data = np.ones((nval, ncol))
                else:
                    # chain: everything dominated but one, shuffled;
                    # large and tiny magnitudes
                    base = np.arange(nval, dtype=float)[:, None]\
                                * np.ones((1, ncol))
                    scale = 10.**rng.integers(-300, 300)
                    data = base[rng.permutation(nval)]*scale
                    if nval > 4:
                        data[1, 0] = np.nan
                yield kind, data


def check_pareto(rng):
    previous = None
    for kind, data in pareto_datasets(rng):
        nval, ncol = data.shape
        complete = not np.any(np.isnan(data))
        for orientation in [1, -1]:
            lab = f"pareto n={nval} d={ncol} kind={kind} o={orientation}"
            data0 = data.copy()
            if orientation == 1 and kind % 2 == 0:
                # default orientation
                isdom = sutils.pareto_front(data)
            else:
                isdom = sutils.pareto_front(data, orientation)
            check(np.array_equal(data, data0, equal_nan=True),
                  lab+" input untouched")
            isdom = np.asarray(isdom)
            check(isdom.shape == (nval, ), lab+" shape")
            check(np.all((isdom == 0) | (isdom == 1)), lab+" 0/1 flags")
            expected = pareto_oracle(data, orientation)
            check(np.array_equal(isdom, expected), lab+" matches oracle")

            if complete and nval > 0:
                check(np.sum(isdom == 0) > 0, lab+" front not empty")

            # reversing orientation = negating the data
            other = np.asarray(sutils.pareto_front(-data, -orientation))
            check(np.array_equal(isdom, other), lab+" negation")

            # same call again, same answer; answer of an earlier call
            # is not altered by later calls
            again = np.asarray(sutils.pareto_front(data, orientation))
            check(np.array_equal(isdom, again), lab+" repeatable")
            check(np.array_equal(isdom, expected), lab+" result not aliased")

            # result can be modified by the caller without consequences
            if nval > 0:
                try:
                    again[:] = 7
                except Exception:
                    pass
                third = np.asarray(sutils.pareto_front(data, orientation))
                check(np.array_equal(third, expected),
                      lab+" result independent from earlier results")

            # Same object, contents changed in place
            if nval > 1 and ncol > 0:
                data2 = data.copy()
                res_a = np.asarray(sutils.pareto_front(data2, orientation))
                data2[:] = data2[::-1].copy()
                res_b = np.asarray(sutils.pareto_front(data2, orientation))
                check(np.array_equal(res_a, expected)
                      and np.array_equal(res_b, expected[::-1]),
                      lab+" in place modification of input seen")

            # Other memory layouts of the same numbers
            if nval > 0:
                fdata = np.asfortranarray(data)
                check(np.array_equal(np.asarray(
                        sutils.pareto_front(fdata, orientation)), expected),
                      lab+" fortran layout")
                wide = np.full((nval, 2*ncol+1), -77.)
                wide[:, ::2][:, :ncol] = data
                view = wide[:, ::2][:, :ncol]
                check(np.array_equal(np.asarray(
                        sutils.pareto_front(view, orientation)), expected),
                      lab+" strided view")

        # permutation of points permutes the flags
        if nval > 1:
            perm = rng.permutation(nval)
            r1 = np.asarray(sutils.pareto_front(data, 1))
            r2 = np.asarray(sutils.pareto_front(data[perm], 1))
            check(np.array_equal(r1[perm], r2),
                  f"pareto n={nval} d={ncol} kind={kind} permutation")

        # interleave with a previous, different data set
        # (stale state from a bigger or smaller problem)
        if previous is not None:
            exp_prev = pareto_oracle(previous, -1)
            got_prev = np.asarray(sutils.pareto_front(previous, -1))
            check(np.array_equal(exp_prev, got_prev),
                  f"pareto n={nval} d={ncol} kind={kind} interleaved")
        if kind in [2, 3]:
            previous = data

    # Hand written cases
    data = np.array([[1., 1.], [2., 2.], [2., 1.], [1., 2.], [2., 2.]])
    check(np.array_equal(sutils.pareto_front(data, 1), [1, 0, 0, 0, 0]),
          "pareto hand 1")
    check(np.array_equal(sutils.pareto_front(data, -1), [0, 1, 0, 0, 1]),
          "pareto hand 2")
    data = np.array([[1., np.nan], [np.nan, 5.], [0., 0.]])
    # pt 0 vs pt 1: nothing to compare -> vacuously dominated
    check(np.array_equal(sutils.pareto_front(data, 1), [1, 1, 1]),
          "pareto hand 3")
    data = np.array([[3.]])
    check(np.array_equal(sutils.pareto_front(data, 1), [0]), "pareto single")
    check(np.array_equal(sutils.pareto_front(data, -1), [0]),
          "pareto single neg")
    data = np.array([[3.], [3.]])
    check(np.array_equal(sutils.pareto_front(data, 1), [0, 0]),
          "pareto two equal")
    data = np.array([[3., 1.], [4., 2.]])
    check(np.array_equal(sutils.pareto_front(data, 1), [1, 0]),
          "pareto two")
    check(np.array_equal(sutils.pareto_front(data, -1), [0, 1]),
          "pareto two neg")

    # same numbers, other shapes
    base = np.array([3., 1., 2., 2., 3., 1., 0., 4., 4., 0., 1., 1.])
    for shape in [(12, 1), (6, 2), (4, 3), (3, 4), (2, 6), (1, 12)]:
        for orientation in [1, -1]:
            data = base.reshape(shape)
            check(np.array_equal(sutils.pareto_front(data, orientation),
                                 pareto_oracle(data, orientation)),
                  f"pareto reshaped {shape} {orientation}")

    # signed zeros are equal
    data = np.array([[0., 1.], [-0., 1.], [0., -0.], [-0., 0.]])
    check(np.array_equal(sutils.pareto_front(data), [0, 0, 0, 0]),
          "pareto signed zeros")
    check(np.array_equal(sutils.pareto_front(-data), [0, 0, 0, 0]),
          "pareto signed zeros negated")

    # not 2d -> error
    check(raises(sutils.pareto_front, np.arange(5.)), "pareto 1d rejected")
    check(raises(sutils.pareto_front, np.zeros((2, 2, 2))),
          "pareto 3d rejected")


# ----------------------------------------------------------------------
# 5. Box plot statistics
# ----------------------------------------------------------------------
def plabel(q):
    return "{0:0.1f}%".format(q)


def coverage_levels(bc, wc):
    return [(100.-wc)/2, (100.-bc)/2, 50., 100.-(100.-bc)/2,
            100.-(100.-wc)/2]


def check_box_summary(stats, values, bc, wc, lab):
    """ stats: mapping label->value, values: raw column / group """
    values = np.asarray(values, dtype=float)
    fin = values[np.isfinite(values)]
    nok = len(fin)
    levels = coverage_levels(bc, wc)
    names = [plabel(q) for q in levels]

    def get(name):
        try:
            return float(stats[name])
        except KeyError:
            return np.nan

    check(get("count") == nok, lab+" count")
    if nok > 3:
        expected = np.percentile(fin, levels)
        got = np.array([get(n) for n in names])
        scale = max(1e-300, np.max(np.abs(fin)))
        check(np.all(np.abs(got-expected) <= 1e-12*scale),
              lab+" percentiles")
        seq = np.concatenate([[get("min")], got, [get("max")]])
        check(np.all(np.diff(seq) >= 0), lab+" ordered min<=..<=max")
        check(get("min") == fin.min(), lab+" min")
        check(get("max") == fin.max(), lab+" max")
        check(abs(get("mean")-np.mean(fin)) <= 1e-12*scale, lab+" mean")
        check(get("min") <= get("mean") + 1e-12*scale
              and get("mean") <= get("max") + 1e-12*scale,
              lab+" mean within min/max")
    else:
        for n in names+["min", "max", "mean"]:
            check(np.isnan(get(n)), lab+f" {n} is nan for small sample")


def make_column(rng, n, kind):
    if kind == 0:
        x = rng.normal(size=n)
    elif kind == 1:
        x = rng.integers(0, 4, n).astype(float)
    elif kind == 2:
        x = np.full(n, 3.25)
    elif kind == 3:
        x = np.exp(rng.normal(size=n)*5)
    elif kind == 4:
        x = rng.normal(size=n)*1e-200
    else:
        x = np.round(rng.normal(size=n), 1)*1e10
    x = np.asarray(x, dtype=float)
    return x


def sprinkle(rng, x, pnan, pinf):
    x = x.copy()
    u = rng.uniform(size=len(x))
    x[u < pnan] = np.nan
    x[(u >= pnan) & (u < pnan+pinf/2)] = np.inf
    x[(u >= pnan+pinf/2) & (u < pnan+pinf)] = -np.inf
    return x


COVERAGES = [(50., 90.), (40., 40.4), (40., 100.), (99., 100.), (99.5, 99.9),
             (60., 95.), (80., 90.), (45.5, 77.7), (50., 99.), (66.6, 99.8)]


def check_boxplot(rng):
    sizes = [0, 1, 2, 3, 4, 5, 6, 7, 10, 21, 50, 101, 400]
    # --- boxplot_stats on a single column ---
    for n in sizes:
        for kind in range(6):
            for pnan, pinf in [(0, 0), (0.2, 0.2), (0.9, 0.05), (0., 0.5),
                               (1., 0.), (0., 1.)]:
                x = sprinkle(rng, make_column(rng, n, kind), pnan, pinf)
                bc, wc = COVERAGES[rng.integers(0, len(COVERAGES))]
                lab = f"boxplot_stats n={n} kind={kind} nan={pnan}"\
                      + f" inf={pinf} cov=({bc},{wc})"
                x0 = x.copy()
                for container in [0, 1]:
                    xx = x if container == 0 else pd.Series(x)
                    st = boxplot_stats(xx, bc, wc)
                    check(np.array_equal(x, x0, equal_nan=True),
                          lab+" input untouched")
                    check_box_summary(st, x, bc, wc, lab+f" c{container}")

    # --- Boxplot on data frames ---
    for n in sizes[1:]:
        for ncol in [1, 2, 5]:
            cols = {}
            for ic in range(ncol):
                kind = rng.integers(0, 6)
                pnan, pinf = [(0, 0), (0.2, 0.2), (0.8, 0.1),
                              (1., 0.)][rng.integers(0, 4)]
                cols[f"c{ic}"] = sprinkle(rng, make_column(rng, n, kind),
                                          pnan, pinf)
            df = pd.DataFrame(cols)
            df0 = df.copy()
            for bc, wc in [COVERAGES[0],
                           COVERAGES[rng.integers(1, len(COVERAGES))]]:
                lab = f"Boxplot n={n} ncol={ncol} cov=({bc},{wc})"
                if (bc, wc) == (50., 90.):
                    bp = Boxplot(df)
                else:
                    bp = Boxplot(df, box_coverage=bc, whiskers_coverage=wc)
                check(df.equals(df0), lab+" input untouched")
                stats = bp.stats
                check(list(stats.columns) == list(df.columns),
                      lab+" columns")
                for cn in df.columns:
                    check_box_summary(stats.loc[:, cn], df[cn].values,
                                      bc, wc, lab+f" col={cn}")
                # stats queried twice: same values
                check(bp.stats.equals(stats), lab+" stats stable")

            # numpy input
            bp = Boxplot(df.values)
            for ic, cn in enumerate(df.columns):
                check_box_summary(bp.stats.iloc[:, ic], df[cn].values,
                                  50., 90., f"Boxplot numpy n={n} {cn}")

    # Series input
    x = sprinkle(rng, rng.normal(size=30), 0.1, 0.1)
    bp = Boxplot(pd.Series(x))
    check(bp.stats.shape[1] == 1, "Boxplot series 1 column")
    check_box_summary(bp.stats.iloc[:, 0], x, 50., 90., "Boxplot series")

    # --- Boxplot with groups ---
    for n in [4, 5, 8, 13, 30, 100, 400]:
        for ncat in [2, 3, 5]:
            if ncat > n:
                continue
            for trial in range(4):
                kind = rng.integers(0, 6)
                pnan, pinf = [(0, 0), (0.2, 0.2), (0.7, 0.1),
                              (0., 0.3)][trial]
                x = sprinkle(rng, make_column(rng, n, kind), pnan, pinf)
                # unequal sizes, every category present
                prob = rng.uniform(0.1, 1, ncat)**2
                prob /= prob.sum()
                cats = rng.choice(ncat, size=n, p=prob)
                cats[:ncat] = np.arange(ncat)
                if trial % 2 == 0:
                    names = np.array([f"g{c}" for c in cats])
                else:
                    names = cats*10
                # make one group entirely missing from time to time
                if trial == 3:
                    x[cats == 0] = np.nan
                bc, wc = COVERAGES[rng.integers(0, len(COVERAGES))]
                lab = f"Boxplot by n={n} ncat={ncat} trial={trial}"\
                      + f" cov=({bc},{wc})"
                if trial == 0:
                    by = pd.Series(names)
                elif trial == 1:
                    by = names
                elif trial == 2:
                    by = pd.Series(names, name="thegroup")
                else:
                    by = names.tolist()
                x0 = x.copy()
                bp = Boxplot(pd.Series(x) if trial < 2 else x, by=by,
                             box_coverage=bc, whiskers_coverage=wc)
                check(np.array_equal(x, x0, equal_nan=True),
                      lab+" input untouched")
                stats = bp.stats
                ucat = np.unique(names)
                check(sorted(stats.columns.tolist()) == sorted(ucat.tolist()),
                      lab+" one column per group")
                for c in ucat:
                    grp = x[names == c]
                    alone = boxplot_stats(grp, bc, wc)
                    col = stats.loc[:, c]
                    check_box_summary(col, grp, bc, wc, lab+f" grp={c}")
                    # same as the group taken alone
                    for name in alone.index:
                        va = alone[name]
                        vb = col[name] if name in col.index else np.nan
                        same = (np.isnan(va) and np.isnan(vb)) \
                            or abs(va-vb) <= 1e-12*max(1e-300, abs(va))
                        check(same, lab+f" grp={c} {name} same as alone")

    # one category only -> error
    check(raises(Boxplot, np.arange(10.), by=np.zeros(10)),
          "Boxplot single category rejected")
    # coverage guards
    check(raises(Boxplot, np.arange(10.), box_coverage=39.),
          "Boxplot box coverage<40 rejected")
    check(raises(Boxplot, np.arange(10.), box_coverage=60.,
                 whiskers_coverage=60.), "Boxplot whiskers<=box rejected")
    check(raises(Boxplot, np.arange(10.), box_coverage=60.,
                 whiskers_coverage=50.), "Boxplot whiskers<box rejected")
    check(raises(Boxplot, ["a", "b"]), "Boxplot non numeric rejected")

    # --- object history: stats belong to the coverages at compute time ---
    df = pd.DataFrame({"a": sprinkle(rng, rng.normal(size=50), 0.1, 0.1),
                       "b": rng.integers(0, 3, 50).astype(float)})
    bp = Boxplot(df, box_coverage=60, whiskers_coverage=80)
    s1 = bp.stats.copy()
    other = Boxplot(df*2+1, box_coverage=50, whiskers_coverage=99)
    check(bp.stats.equals(s1), "Boxplot objects independent")
    for cn in df.columns:
        check_box_summary(other.stats[cn], (df*2+1)[cn].values, 50, 99,
                          "Boxplot second object")
        check_box_summary(bp.stats[cn], df[cn].values, 60, 80,
                          "Boxplot first object")

    # --- object history: attributes changed after construction are taken
    # into account when (and only when) statistics are recomputed ---
    if hasattr(bp, "_compute"):
        bp.box_coverage = 45.
        bp.whiskers_coverage = 95.
        check(bp.stats.equals(s1), "Boxplot stats kept until recomputed")
        bp._compute()
        for cn in df.columns:
            check_box_summary(bp.stats[cn], df[cn].values, 45, 95,
                              "Boxplot recomputed")
        check(not bp.stats.equals(s1), "Boxplot recomputed differs")
        other._compute()
        for cn in df.columns:
            check_box_summary(other.stats[cn], (df*2+1)[cn].values, 50, 99,
                              "Boxplot second object recomputed")
        bp.box_coverage = 60
        bp.whiskers_coverage = 80
        bp._compute()
        check(bp.stats.equals(s1), "Boxplot back to first coverages")

    # --- drawing does not alter the statistics ---
    import matplotlib.pyplot as plt
    fig, ax = plt.subplots()
    bp.draw(ax=ax)
    bp.show_count()
    check(bp.stats.equals(s1), "Boxplot stats unchanged by draw")
    check(set(bp.elements.keys()) == set(df.columns), "Boxplot elements")
    plt.close(fig)

    x = sprinkle(rng, rng.normal(size=60), 0.1, 0.1)
    by = np.repeat(["u", "v", "w"], [10, 20, 30])
    bp = Boxplot(x, by=by)
    s1 = bp.stats.copy()
    fig, ax = plt.subplots()
    bp.draw(ax=ax)
    bp.show_count()
    check(bp.stats.equals(s1), "Boxplot by stats unchanged by draw")
    plt.close(fig)


# ----------------------------------------------------------------------
# 6. Violin
# ----------------------------------------------------------------------
def check_violin(rng):
    names = ["Q0", "Q25", "median", "Q75", "Q100"]
    levels = [0, 25, 50, 75, 100]
    for n in [1, 2, 3, 4, 5, 10, 50, 200, 600]:
        for ncol in [1, 3]:
            for trial in range(4):
                cols = {}
                for ic in range(ncol):
                    # (no tiny magnitudes here: the density estimate of the
                    # library treats values closer than 1e-10 as equal)
                    kind = [0, 1, 2, 3, 5][rng.integers(0, 5)]
                    pnan, pinf = [(0, 0), (0.2, 0.2), (0.8, 0.1),
                                  (1., 0.), (0., 0.3)][rng.integers(0, 5)]
                    cols[f"c{ic}"] = sprinkle(rng,
                                              make_column(rng, n, kind),
                                              pnan, pinf)
                df = pd.DataFrame(cols)
                df0 = df.copy()
                lab = f"Violin n={n} ncol={ncol} trial={trial}"
                if trial == 0:
                    vl = Violin(df)
                elif trial == 1:
                    vl = Violin(df.values)
                elif trial == 2:
                    vl = Violin(df, npoints_kde=50)
                else:
                    vl = Violin(df, npoints_kde=101, nresample_kde=20)
                check(df.equals(df0), lab+" input untouched")
                stats = vl.stats
                check(list(stats.index) == names, lab+" stat names")
                check(stats.shape == (5, ncol), lab+" stats shape")
                kx, ky = vl.kde_x, vl.kde_y
                check(kx.shape == ky.shape and kx.shape[1] == ncol,
                      lab+" kde shape")
                for ic, cn in enumerate(df.columns):
                    x = df[cn].values
                    fin = x[np.isfinite(x)]
                    got = np.asarray(stats.iloc[:, ic], dtype=float)
                    pieces = [vl.stat_extremes_low, vl.stat_center_low,
                              vl.stat_median, vl.stat_center_high,
                              vl.stat_extremes_high]
                    got2 = np.array([float(np.asarray(p)[ic])
                                     for p in pieces])
                    check(np.array_equal(got, got2, equal_nan=True),
                          lab+f" {cn} stats consistent")
                    if len(fin) == 0:
                        check(np.all(np.isnan(got)), lab+f" {cn} empty")
                    else:
                        expected = np.percentile(fin, levels)
                        scale = max(1e-300, np.max(np.abs(fin)))
                        check(np.all(np.abs(got-expected) <= 1e-12*scale),
                              lab+f" {cn} quantiles")
                        check(np.all(np.diff(got) >= 0),
                              lab+f" {cn} ordered")
                        check(got[0] == fin.min() and got[-1] == fin.max(),
                              lab+f" {cn} min/max")

                    xx = np.asarray(kx.iloc[:, ic], dtype=float)
                    yy = np.asarray(ky.iloc[:, ic], dtype=float)
                    if len(fin) <= 2 or fin.min() == fin.max():
                        check(np.all(np.isnan(xx)) and np.all(np.isnan(yy)),
                              lab+f" {cn} no density")
                    else:
                        check(np.all(np.isfinite(yy)),
                              lab+f" {cn} density finite")
                        check(yy.min() == 0. and yy.max() == 1.
                              and np.all((yy >= 0) & (yy <= 1)),
                              lab+f" {cn} density in [0, 1]")
                        check(np.all(np.diff(xx) >= 0),
                              lab+f" {cn} density abscissae sorted")
                        tol = 2e-6
                        check(xx[0] >= fin.min()-tol
                              and xx[-1] <= fin.max()+tol,
                              lab+f" {cn} density support")

    check(raises(Violin, ["a", "b"]), "Violin non numeric rejected")

    # draw does not modify stats
    import matplotlib.pyplot as plt
    df = pd.DataFrame({"a": sprinkle(rng, rng.normal(size=80), 0.1, 0.1),
                       "b": rng.integers(0, 5, 80).astype(float),
                       "c": np.nan})
    vl = Violin(df)
    s1 = vl.stats.copy()
    ky = vl.kde_y.copy()
    fig, ax = plt.subplots()
    vl.draw(ax=ax)
    check(vl.stats.equals(s1), "Violin stats unchanged by draw")
    check(vl.kde_y.equals(ky), "Violin kde unchanged by draw")
    check(set(vl.elements.keys()) == {"a", "b"}, "Violin elements")
    plt.close(fig)


def main():
    seed = 20200
    if len(sys.argv) > 1:
        seed = int(sys.argv[1])
    rng = np.random.default_rng(seed)
    np.random.seed(seed % 2**31)

    for fun in [check_lhs, check_ppos, check_standard_normal,
                check_pareto, check_boxplot, check_violin]:
        n0, f0 = NCHECKS, len(FAILURES)
        fun(rng)
        print(f"{fun.__name__:25s}: {NCHECKS-n0:7d} checks,"
              + f" {len(FAILURES)-f0} failures")

    if FAILURES:
        print(f"{len(FAILURES)} FAILED CHECKS out of {NCHECKS}")
        sys.exit(1)

    print(f"ALL {NCHECKS} CHECKS PASSED")
    sys.exit(0)


if __name__ == "__main__":
    main()
