""" Demo for property C13: grids and catchments survive save/load,
dictionary export, cloning and clipping.

Run as  PYTHONPATH=<tree>/src /venv/bin/python demo.py
Exits 0 when every check passes.
"""
import sys
import tempfile
import warnings
from pathlib import Path

import numpy as np

from hydrodiy.gis.grid import Grid, Catchment

NCHECK = [0]
RNG = np.random.default_rng(5813)

INTS = [np.int8, np.int16, np.int32, np.int64,
        np.uint8, np.uint16, np.uint32, np.uint64]
FLOATS = [np.float16, np.float32, np.float64]
DTYPES = INTS + FLOATS

SHAPES = [(1, 1), (1, 2), (2, 1), (2, 2), (3, 7), (7, 5), (1, 17), (13, 1)]

# (cellsize, xll, yll): awkward but finite float64 values
GEOMS = [
    (1., 0., 0.),
    (0.1, -0.0, 0.0),
    (1./3, -123456.78901234567, 1e-310),
    (2.5e-5, 1.7976931348623157e308, -1.7976931348623157e308),
    (5e-324, 4.9e-324, -2.2250738585072014e-308),
    (1e300, 0.30000000000000004, 1e22),
    (0.05, 112.05, -44.00000000000001),
]


def check(cond, msg):
    NCHECK[0] += 1
    if not cond:
        print("FAILED:", msg)
        sys.exit(1)


def bits(x):
    return np.float64(x).tobytes()


def same_bits(a, b):
    a = np.asarray(a)
    b = np.asarray(b)
    return a.dtype == b.dtype and a.shape == b.shape \
        and a.tobytes() == b.tobytes()


def values_for(dtype, n):
    """ Values covering the full range of the type (random bit
    patterns + special values) """
    dt = np.dtype(dtype)
    raw = RNG.integers(0, 256, size=n*dt.itemsize, dtype=np.uint8)
    x = raw.view(dt).copy()
    if dt.kind in "iu":
        info = np.iinfo(dt)
        special = [info.min, info.max, 0, 1, info.max-1, info.min+1]
        if dt.kind == "i":
            special += [-1]
    else:
        info = np.finfo(dt)
        special = [np.nan, np.inf, -np.inf, -0.0, 0.0, info.max, info.min,
                   info.tiny, info.smallest_subnormal, -info.smallest_subnormal,
                   info.eps, 1., -1.]
    with warnings.catch_warnings():
        warnings.simplefilter("ignore")
        special = np.array([dt.type(v) for v in special], dtype=dt)
    k = min(n, len(special))
    pos = RNG.permutation(n)[:k]
    x[pos] = special[:k]
    return x


def nodatas_for(dtype):
    dt = np.dtype(dtype)
    if dt.kind in "iu":
        info = np.iinfo(dt)
        nd = [info.min, info.max, 0, 1]
        if dt.kind == "i":
            nd += [-1, -99]
        return [dt.type(v) for v in nd]
    info = np.finfo(dt)
    nd = [np.nan, np.inf, -np.inf, 0., -0.0, -9999., info.max, info.min,
          info.tiny, info.smallest_subnormal, 0.1, -9999.5, 1e-5]
    with warnings.catch_warnings():
        warnings.simplefilter("ignore")
        return [dt.type(v) for v in nd]


def same_nodata(a, b, dtype):
    # identical value (nan equals nan), held in the grid type
    a = np.asarray(a)
    b = np.asarray(b)
    if a.dtype != np.dtype(dtype) or b.dtype != np.dtype(dtype):
        return False
    if np.dtype(dtype).kind == "f" and np.isnan(a):
        return bool(np.isnan(b))
    return a.tobytes() == b.tobytes()


def same_meta(g, h, what):
    check(tuple(g.shape) == tuple(h.shape), what + " shape")
    check(int(g.nrows) == int(h.nrows) and int(g.ncols) == int(h.ncols),
          what + " nrows/ncols")
    check(g.data.shape == h.data.shape, what + " data shape")
    for att in ["cellsize", "xllcorner", "yllcorner"]:
        check(bits(getattr(g, att)) == bits(getattr(h, att)),
              what + " " + att + f" {getattr(g, att)!r} {getattr(h, att)!r}")
    check(np.dtype(g.dtype) == np.dtype(h.dtype), what + " dtype")
    check(g.data.dtype == h.data.dtype, what + " data dtype")
    check(np.dtype(h.dtype).isnative and h.data.dtype.isnative,
          what + " native")
    check(same_nodata(g.nodata, h.nodata, g.dtype),
          what + f" nodata {g.nodata!r} {h.nodata!r}")


def make_grid(dtype, shape, geom, nodata, name="g"):
    nrows, ncols = shape
    csz, xll, yll = geom
    g = Grid(name, ncols, nrows, cellsize=csz, xllcorner=xll,
             yllcorner=yll, dtype=dtype, nodata=nodata,
             comment="demo grid")
    vals = values_for(dtype, nrows*ncols).reshape(shape)
    g.data = vals
    check(same_bits(g.data, vals), "data setter keeps the bits")
    return g, vals


def write_big_endian_copy(fbil, fbil_m, dtype):
    """ Same raster as a BYTEORDER M file """
    fhdr = fbil.with_suffix(".hdr")
    txt = fhdr.read_text()
    lines = []
    found = False
    for line in txt.splitlines():
        if line.upper().startswith("BYTEORDER"):
            found = True
            order = line.split()[1].upper()
            lines.append("{0:<14} {1}".format(
                "BYTEORDER", "M" if order == "I" else "I"))
        else:
            lines.append(line)
    check(found, "header has a byteorder line")
    fbil_m.with_suffix(".hdr").write_text("\n".join(lines)+"\n")
    raw = np.fromfile(str(fbil), dtype=np.dtype(dtype))
    raw.byteswap().tofile(str(fbil_m))


def check_saveload(tmp):
    k = 0
    for dtype in DTYPES:
        nds = nodatas_for(dtype)
        for ishape, shape in enumerate(SHAPES):
            for igeom, geom in enumerate(GEOMS):
                nodata = nds[(ishape*len(GEOMS)+igeom) % len(nds)]
                g, vals = make_grid(dtype, shape, geom, nodata,
                                    name=f"grid{k}")
                k += 1
                fbil = tmp / f"grid_{k}.bil"
                g.save(str(fbil))
                # saving does not change the grid
                check(same_bits(g.data, vals), "save leaves data alone")

                h = Grid.from_header(str(fbil))
                same_meta(g, h, f"save/load {np.dtype(dtype).name} {shape}")
                check(same_bits(h.data, vals),
                      f"save/load values {np.dtype(dtype).name} {shape}")
                check(not np.shares_memory(h.data, g.data), "load memory")

                # header path also accepted
                h2 = Grid.from_header(fbil.with_suffix(".hdr"))
                check(same_bits(h2.data, vals), "load from hdr path")

                # Other byte order
                fbil_m = tmp / f"grid_{k}_swapped.bil"
                write_big_endian_copy(fbil, fbil_m, dtype)
                hm = Grid.from_header(str(fbil_m))
                same_meta(g, hm, f"swapped {np.dtype(dtype).name} {shape}")
                check(same_bits(hm.data, vals),
                      f"swapped values {np.dtype(dtype).name} {shape}")

                # second generation: save what was loaded
                fbil3 = tmp / f"grid_{k}_gen2.bil"
                hm.save(str(fbil3))
                check(fbil3.read_bytes() == fbil.read_bytes(),
                      "second generation data file")
                h3 = Grid.from_header(fbil3)
                same_meta(g, h3, "gen2")
                check(same_bits(h3.data, vals), "gen2 values")

    # All nodata values for a small grid
    for dtype in DTYPES:
        for nodata in nodatas_for(dtype):
            g, vals = make_grid(dtype, (2, 3), GEOMS[2], nodata)
            fbil = tmp / "nodata.bil"
            g.save(fbil)
            h = Grid.from_header(fbil)
            same_meta(g, h, f"nodata {nodata!r}")
            check(same_bits(h.data, vals), "nodata values")


def check_dict():
    for dtype in DTYPES:
        for nodata in nodatas_for(dtype):
            for shape, geom in zip(SHAPES, GEOMS + GEOMS[:1]):
                g, vals = make_grid(dtype, shape, geom, nodata, "dd")
                dic = g.to_dict()
                check(isinstance(dic, dict), "to_dict is a dict")
                h = Grid.from_dict(dic)
                same_meta(g, h, f"dict {np.dtype(dtype).name} {nodata!r}")
                check(h.name == g.name and h.comment == g.comment,
                      "dict name/comment")
                # exporting does not touch the grid
                check(same_bits(g.data, vals), "to_dict leaves data alone")
                # the rebuilt grid is a grid of its own
                h.fill(1)
                h.cellsize = 77.
                check(same_bits(g.data, vals), "from_dict independent")
                check(bits(g.cellsize) == bits(geom[0]),
                      "from_dict independent geom")


def check_clone():
    for dtype in DTYPES:
        nds = nodatas_for(dtype)
        for i, (shape, geom) in enumerate(zip(SHAPES, GEOMS + GEOMS[:1])):
            nodata = nds[i % len(nds)]
            g, vals = make_grid(dtype, shape, geom, nodata, "orig")
            c = g.clone()
            same_meta(g, c, "clone")
            check(same_bits(c.data, vals), "clone values")
            check(c.name == g.name and c.comment == g.comment, "clone name")
            check(not np.shares_memory(c.data, g.data), "clone memory")

            # change the clone in every way: the original does not move
            one = np.dtype(dtype).type(1)
            c.data[0, 0] = one if vals[0, 0] != one else one+one
            c[shape[0]*shape[1]-1] = 3
            c.fill(2)
            c.name = "other"
            c.comment = "other comment"
            c.cellsize = 123.
            c.xllcorner = -1.
            c.yllcorner = -2.
            c.nodata = 1
            c.data = np.ones(shape)
            check(same_bits(g.data, vals), "clone change -> original data")
            check(g.name == "orig" and g.comment == "demo grid",
                  "clone change -> original name")
            check(bits(g.cellsize) == bits(geom[0])
                  and bits(g.xllcorner) == bits(geom[1])
                  and bits(g.yllcorner) == bits(geom[2]),
                  "clone change -> original geometry")
            check(same_nodata(g.nodata, nodata, dtype),
                  "clone change -> original nodata")
            check(tuple(g.shape) == shape, "clone change -> original shape")

            # change the original: a clone does not move
            c = g.clone()
            g.fill(5)
            g[0] = 9
            g.data[-1, -1] = 7
            g.xllcorner = 55.
            g.nodata = 2
            g.name = "changed"
            check(same_bits(c.data, vals), "original change -> clone data")
            check(bits(c.xllcorner) == bits(geom[1]),
                  "original change -> clone geometry")
            check(same_nodata(c.nodata, nodata, dtype),
                  "original change -> clone nodata")
            check(c.name == "orig", "original change -> clone name")

            # clone of a clone, clone with the same dtype given
            c2 = c.clone().clone(dtype)
            same_meta(c, c2, "clone of clone")
            check(same_bits(c2.data, vals), "clone of clone values")


def check_clip():
    # Geometries for which cell centres are exact in float64
    exact = [(0.5, 10., -20.), (1., 0., 0.), (2., -7., 3.), (0.25, -1., -1.)]
    other = [(0.1, 112.05, -44.05), (1./3, -5.1, 7.3), (1e-3, 0., 0.),
             (1e5, -3e9, 2e10)]
    shapes = [(1, 1), (1, 2), (2, 1), (2, 2), (5, 8), (9, 4)]
    for dtype in DTYPES:
        nds = nodatas_for(dtype)
        for ig, geom in enumerate(exact + other):
            isexact = ig < len(exact)
            for shape in shapes:
                nodata = nds[(ig + shape[0]) % len(nds)]
                g, vals = make_grid(dtype, shape, geom, nodata, "parent")
                nrows, ncols = shape
                csz, xll, yll = geom

                # boxes : corners given by cell + position in the cell
                boxes = []
                fr = [0.5, 0.01, 0.99]
                if isexact:
                    # lower left corner exactly on a cell edge (tie)
                    fr = fr + [0.]
                cells = {(0, 0, ncols-1, nrows-1), (0, 0, 0, 0),
                         (ncols-1, nrows-1, ncols-1, nrows-1),
                         (ncols//2, nrows//2, ncols-1, nrows-1),
                         (0, 0, ncols//2, nrows//2),
                         (ncols//3, nrows//3, ncols//2, nrows//2)}
                for (i0, j0, i1, j1) in sorted(cells):
                    if i1 < i0 or j1 < j0:
                        continue
                    for f0 in fr:
                        for f1 in fr:
                            boxes.append((i0, j0, i1, j1, f0, f1))

                for (i0, j0, i1, j1, f0, f1) in boxes:
                    bx0 = xll + csz*(i0+f0)
                    by0 = yll + csz*(j0+f0)
                    bx1 = xll + csz*(i1+f1)
                    by1 = yll + csz*(j1+f1)
                    # cells (from lower left, counted upward) holding the
                    # corners, as the grid sees them
                    ic = g.coord2cell([[bx0, by0], [bx1, by1]])
                    if np.any(ic < 0):
                        continue  # corner not inside the extent
                    rc = g.cell2rowcol(ic)
                    r0, r1 = rc[1, 0], rc[0, 0]
                    c0, c1 = rc[0, 1], rc[1, 1]
                    if r1 < r0 or c1 < c0:
                        continue

                    cl = g.clip(bx0, by0, bx1, by1)
                    what = f"clip {np.dtype(dtype).name} {shape} {geom}"
                    check(tuple(cl.shape) == (r1-r0+1, c1-c0+1),
                          what + " shape")
                    check(np.dtype(cl.dtype) == np.dtype(dtype)
                          and cl.data.dtype == np.dtype(dtype),
                          what + " dtype")
                    check(same_nodata(cl.nodata, nodata, dtype),
                          what + " nodata")
                    check(bits(cl.cellsize) == bits(csz), what + " csz")
                    check(same_bits(cl.data, vals[r0:r1+1, c0:c1+1]),
                          what + " values")
                    check(not np.shares_memory(cl.data, g.data),
                          what + " memory")
                    check(same_bits(g.data, vals), what + " parent intact")
                    check(int(cl.parentgrid_rows_start) == r0
                          and int(cl.parentgrid_rows_end) == r1
                          and int(cl.parentgrid_cols_start) == c0
                          and int(cl.parentgrid_cols_end) == c1,
                          what + " parent attributes")

                    # Cell centres
                    idx = np.arange(cl.nrows*cl.ncols)
                    xyc = cl.cell2coord(idx)
                    rcc = cl.cell2rowcol(idx)
                    pidx = (rcc[:, 0]+r0)*ncols + rcc[:, 1]+c0
                    xyp = g.cell2coord(pidx)
                    if isexact:
                        check(np.array_equal(xyc, xyp),
                              what + " centres coincide exactly")
                        check(np.array_equal(g.coord2cell(xyc), pidx),
                              what + " centres map to parent cells")
                    else:
                        check(np.allclose(xyc, xyp, rtol=0.,
                                          atol=1e-6*csz),
                              what + " centres coincide")
                    check(same_bits(cl[idx], g[pidx]),
                          what + " values at coinciding centres")

                    # a clip is independent from its parent
                    cl.fill(1)
                    check(same_bits(g.data, vals), what + " independent")

    # a clipped grid can be saved and loaded too
    with tempfile.TemporaryDirectory() as tmp:
        g, vals = make_grid(np.int16, (5, 8), (0.5, 10., -20.), -1, "p")
        cl = g.clip(10.6, -19.4, 12.9, -18.1)
        f = Path(tmp) / "clip.bil"
        cl.save(f)
        h = Grid.from_header(f)
        same_meta(cl, h, "clip save/load")
        check(same_bits(cl.data, h.data), "clip save/load values")
        for att in ["rows_start", "rows_end", "cols_start", "cols_end",
                    "nrows", "ncols"]:
            check(int(getattr(h, "parentgrid_"+att))
                  == int(getattr(cl, "parentgrid_"+att)),
                  "clip save/load parent " + att)


def check_catchment():
    fd = Grid("flowdir", 6, 6, dtype=np.int32, nodata=-1,
              cellsize=0.05, xllcorner=145.05, yllcorner=-37.3)
    fd.data = [[0, 4, 4, 4, 0, 0],
               [0, 4, 4, 8, 0, 0],
               [0, 2, 4, 8, 0, 0],
               [0, 0, 2, 0, 0, 0],
               [0, 0, 0, 4, 0, 0],
               [0, 0, 0, 0, 0, 0]]
    fd0 = fd.data.copy()

    # ring shaped catchment : filled area differs from area
    ring = Grid("ring", 5, 5, dtype=np.int64, nodata=-1)
    ring.data = [[1,  1,  1,  1, 4],
                 [64, 0,  0,  0, 4],
                 [64, 0,  0,  0, 4],
                 [64, 0,  0,  0, 4],
                 [64, 16, 16, 16, 0]]
    cases = [(fd, 27, None), (fd, 27, 14), (fd, 27, [14, 13]),
             (fd, 14, None), (fd, 12, None), (fd, 33, [20]),
             (fd, 1, None), (ring, 24, None), (ring, 24, [2]),
             (ring, 20, None), (ring, 24, [2, 10])]

    for flow, outlet, inlets in cases:
        ca = Catchment("catch", flow)
        ca.delineate_area(outlet, inlets)
        area = np.array(ca.idxcells_area).copy()
        filled = np.array(ca.idxcells_area_filled).copy()

        dic = ca.to_dict()
        check(isinstance(dic, dict), "catchment dict")
        cb = Catchment.from_dict(dic)
        what = f"catchment {flow.name} {outlet} {inlets}"

        check(int(cb.idxcell_outlet) == outlet
              and int(ca.idxcell_outlet) == outlet, what + " outlet")
        if inlets is None:
            check(cb.idxinlets is None and ca.idxinlets is None,
                  what + " no inlets")
        else:
            exp = np.atleast_1d(inlets).astype(np.int64)
            check(np.array_equal(np.asarray(cb.idxinlets, dtype=np.int64),
                                 exp), what + " inlets")
            check(len(cb.idxinlets) == len(exp), what + " inlets len")
        check(np.array_equal(np.asarray(cb.idxcells_area), area),
              what + " area")
        check(np.asarray(cb.idxcells_area).dtype == np.int64,
              what + " area type")
        check(np.array_equal(np.asarray(cb.idxcells_area_filled), filled),
              what + " filled area")
        check(cb.name == ca.name, what + " name")
        # (the flow direction grid of a catchment is held as int64)
        fa, fb = ca.flowdir, cb.flowdir
        check(tuple(fa.shape) == tuple(fb.shape), what + " flowdir shape")
        for att in ["cellsize", "xllcorner", "yllcorner"]:
            check(bits(getattr(fa, att)) == bits(getattr(fb, att)),
                  what + " flowdir " + att)
        check(np.dtype(fa.dtype) == np.dtype(fb.dtype) == np.int64,
              what + " flowdir dtype")
        check(int(fa.nodata) == int(fb.nodata), what + " flowdir nodata")

        # exporting does not change the catchment
        check(np.array_equal(ca.idxcells_area, area)
              and np.array_equal(ca.idxcells_area_filled, filled),
              what + " source intact")

        # second generation
        cc = Catchment.from_dict(cb.to_dict())
        check(int(cc.idxcell_outlet) == outlet, what + " gen2 outlet")
        check(np.array_equal(cc.idxcells_area, area), what + " gen2 area")
        check(np.array_equal(cc.idxcells_area_filled, filled),
              what + " gen2 filled")
        if inlets is None:
            check(cc.idxinlets is None, what + " gen2 no inlets")
        else:
            check(np.array_equal(np.asarray(cc.idxinlets, dtype=np.int64),
                                 exp), what + " gen2 inlets")

        # catchment clone is independent
        cd = ca.clone()
        cd.flowdir.fill(0)
        cd._idxcells_area = None
        check(np.array_equal(ca.idxcells_area, area), what + " clone indep")
        check(int(cd.idxcell_outlet) == outlet, what + " clone outlet")

    check(same_bits(fd.data, fd0), "catchment keeps its own flowdir")

    ringca = Catchment("ring", ring)
    ringca.delineate_area(24)
    check(len(ringca.idxcells_area_filled) > len(ringca.idxcells_area),
          "ring catchment has a hole")


def main():
    with tempfile.TemporaryDirectory() as tmp:
        check_saveload(Path(tmp))
    check_dict()
    check_clone()
    check_clip()
    check_catchment()
    print(f"C13 demo: {NCHECK[0]} checks passed")


if __name__ == "__main__":
    main()
    sys.exit(0)
