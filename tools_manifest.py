#!/usr/bin/env python3
"""Regenerates MANIFEST.json from harness/registry.json (one entry per claimed property)."""
import json
from pathlib import Path
ROOT = Path(__file__).resolve().parent
reg = json.loads((ROOT / "harness" / "registry.json").read_text())
for f in sorted((ROOT / "harness" / "registry.d").glob("*.json")):
    reg.update(json.loads(f.read_text()))
# a property is claimed only after the coordinator integrated it (fix commits cherry-picked, seeds run)
claimed = set((ROOT / "harness" / "claimed.txt").read_text().split())
reg = {k: v for k, v in reg.items() if k in claimed}
props = [json.loads(l) for l in (ROOT / "properties.jsonl").read_text().splitlines() if l.strip()]
checks, na = [], []
for p in props:
    pid = p["id"]
    r = reg.get(pid)
    if r is None or r.get("not_applicable"):
        na.append({"property_id": pid, "reason": (r or {}).get("reason", "check not built yet (work in progress; see DESIGN.md section 3)")})
        continue
    checks.append({
        "property_id": pid,
        "quick_cmd": f"./check {pid} --tier quick",
        "thorough_cmd": f"./check {pid} --tier thorough",
        "evidence_file": f"evidence/{pid}.json",
        "replay_cmd_template": f"./check {pid} --replay {{path}}",
        "engine": "lean4-model+correspondence",
        "level_claimed": {"category": "proof", "text": r["text"], "design_ref": f"DESIGN.md section 3, {pid}"},
        "level_note": r["note"],
        "technique": r.get("technique", "Lean 4 theorems about an executable model + differential correspondence of the model with the code"),
    })
m = {
    "version": 1,
    "setup_cmd": "./setup.sh",
    "hooks": {"guard": "HYDRODIY_VERIF", "enable": "no source hooks: checks use the public API, ctypes on kernels rebuilt from the working tree, and HYDROVERIF_REPO to select the tree",
              "baseline_off_cmd": "cd /repo && /venv/bin/python -m pytest -ra -q -p no:cacheprovider --timeout=900 --continue-on-collection-errors",
              "source_commits": [], "add_only": True},
    "engines": [{"name": "lean4-model+correspondence", "path": "lean/ + harness/", "serves_properties": [c["property_id"] for c in checks],
                 "kind_free_text": "Lean 4 property theorems over executable models (lake build + #print axioms audit), model drivers compiled from the same definitions, Python harness running model and real code on the same requests"}],
    "checks": checks,
    "notes": "Known genuine defects are listed in known_findings.json; see DESIGN.md.",
    "not_applicable": na,
}
(ROOT / "MANIFEST.json").write_text(json.dumps(m, indent=1) + "\n")
print(f"{len(checks)} checks, {len(na)} not claimed")
