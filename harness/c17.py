"""C17 — AR simulation and residual computation are exact inverses.

Model: lean/HydroVerif/Model/C17.lean (both kernels of c_armodels.c index by index, the guards, the wrapper defaults
and the scalar / array `params` of armodels.py), Model/C17Spec.lean (specification-side quantities), Model/C17Hist.lean
(histories of calls on one set of argument objects, incl. the alias created by handing a returned array back),
Model/C17Round.lean (the same kernels in an arithmetic that rounds every result to 53 bits, over the rationals);
theorems: lean/HydroVerif/Props/C17.lean.
Correspondence: `armodel_sim` / `armodel_residual` of the REAL code (rebuilt kernels, -ffp-contract=off)
against the Float instance of the model, bit for bit (NaN canonical, errors by guard kind), request by
request — single calls, runs cut at a random place and resumed from the model's lag buffer (simBuf / resBuf), whole
histories run by the model's `step` function (replies and final contents); on short series additionally against the
exact (Rat) instance within a rounding budget and against the `Fl rnd53` instance (53-bit round-to-nearest-even over
Rat, the arithmetic of the rounding theorems) value for value; the statements of the theorems (recursion with
`past`, buffer contents with `glag`, homogeneity / shift / additivity, the two rounding budgets) are evaluated by the
driver on the model's runs of the same inputs.
Oracle (failing-input search, real code only, independent of the model): the AR recursion checked term by
term on the outputs; residual(sim(e)) = e with NaN -> 0; sim(residual(y)) = y; NaN innovation == zero
innovation (bit-equal); zero residual at missing inputs (order 1: exactly zero); defaults == the explicit values they
stand for; valid calls accepted, invalid ones rejected; exact-rational direct recursion on short series; on cases in
which no floating-point operation can round (dyadic coefficients, integer-like values, any power-of-two magnitude) the
outputs must be the exact rational recursion and residual(sim(e)) must be e, with no tolerance.
Cases: orders 0..11 x coefficient vectors (decaying, alternating, last-lag-only, unit shift, dyadic,
random signs, all negative, zero; sum|phi| from 0.3 to 1.5) x means / initial values of any sign,
default or explicit x series lengths {0,1,2,3,order,order+1,10,200} (thorough: up to 3000) x value classes
(normal, integer, huge, constant) x a magnitude ladder (30% of the cases: innovations, inputs, mean and initial value
multiplied by one power of two from 2^-1040 (subnormal) to 2^900, denser around round decimal thresholds) x NaN layouts
(none, first step, inside the first `order` steps, a run longer than the order, 10% random, last, all); a separate
malformed stream (order 0/11+, NaN coefficient, NaN mean, NaN initial value, several at once); a history stream: 2-4
calls on the SAME argument objects with in-place edits of the series / the coefficients / the returned arrays between
calls, interleaved calls with other arguments of equal sizes, results of earlier calls fed back later, pickled /
deep-copied arguments, fault paths (1-3 rejected calls of either function — NaN written into the coefficients in place,
other orders, NaN mean / initial value, default mean on a series without data — between two identical valid calls
whose answers must agree bit for bit), a quarter of them at another magnitude; a second history stream of random
operation LISTS (3-10 operations: in-place edits possibly out of range, other objects, feeding the returned array
back, calls of either function with any mix of defaults, valid or not) — every answer compared with the
model and the oracle on the state at the time of the call.
A case is non-trivial when the call is accepted, the series is non-empty and some coefficient is non-zero.
"""
import json
import math
import re
import warnings
from fractions import Fraction

from . import common as C

PID = "C17"
U = 2.0 ** -53
NAN = float("nan")
# absolute floor of the rounding budgets: results in the subnormal range carry an absolute error of up to 2^-1075 per
# operation (about 4p+5 operations per step in the kernel and in the oracle together, coefficients <= 1.5)
FLOOR = 1e-318


# --------------------------------------------------------------------------------------
# generators
def gen_params(rng, p, kind, s):
    """coefficient vector of order p with sum of absolute values == s (<= 1.5), any sign"""
    if p == 0:
        return []
    if kind == "decay_pos":
        w = [1.0 / (k + 1) for k in range(p)]
        sg = [1.0] * p
    elif kind == "alt":
        w = [1.0 / (k + 1) for k in range(p)]
        sg = [(-1.0) ** k for k in range(p)]
    elif kind == "neg_all":
        w = [rng.random() + 0.05 for _ in range(p)]
        sg = [-1.0] * p
    elif kind == "last_only":
        w = [0.0] * (p - 1) + [1.0]
        sg = [rng.choice([-1.0, 1.0])] * p
    elif kind == "unit_shift":
        j = rng.randrange(p)
        v = [0.0] * p
        v[j] = rng.choice([-1.0, 1.0])
        return v
    elif kind == "dyadic":
        v = [rng.randint(-4, 4) / 8.0 for _ in range(p)]
        while sum(abs(x) for x in v) > 1.5:
            j = rng.randrange(p)
            v[j] = 0.0
        return v
    elif kind == "zeros":
        return [0.0] * p
    elif kind == "increasing":
        w = [float(k + 1) for k in range(p)]
        sg = [rng.choice([-1.0, 1.0]) for _ in range(p)]
    else:  # random
        w = [rng.random() ** 2 + 1e-3 for _ in range(p)]
        sg = [rng.choice([-1.0, 1.0]) for _ in range(p)]
    tot = sum(w)
    v = [sg[k] * w[k] / tot * s for k in range(p)]
    # rounding may push the sum a hair above s; the quantifier bound is 1.5
    while sum(abs(x) for x in v) > 1.5:
        v = [x * (1 - 2 ** -40) for x in v]
    return v


PARAM_KINDS = ["decay_pos", "alt", "neg_all", "last_only", "unit_shift", "dyadic", "random", "random",
               "increasing", "zeros"]
SUMS = [0.3, 0.6, 0.6, 0.9, 0.9, 0.99, 1.0, 1.2, 1.5]


def gen_values(rng, n, vclass):
    if vclass == "int":
        return [float(rng.randint(-5, 5)) for _ in range(n)]
    if vclass == "huge":
        return [rng.gauss(0, 1) * rng.choice([1e300, 6e307]) for _ in range(n)]
    if vclass == "const":
        c = rng.choice([0.0, 1.0, -2.5])
        return [c] * n
    if vclass == "small":
        return [rng.gauss(0, 1) * 1e-3 for _ in range(n)]
    if vclass == "big":
        return [rng.gauss(0, 1) * 1e3 for _ in range(n)]
    return [rng.gauss(0, 1) for _ in range(n)]


VCLASSES = ["normal", "normal", "normal", "int", "int", "small", "big", "const", "huge"]
NANLAYOUTS = ["none", "none", "first", "first_p", "first_p", "run", "random", "last", "all"]


def put_nan(rng, xs, p, layout):
    n = len(xs)
    xs = list(xs)
    if n == 0 or layout == "none":
        return xs
    if layout == "first":
        idx = [0]
    elif layout == "first_p":
        m = max(1, min(n, p))
        idx = [i for i in range(m) if rng.random() < 0.6] or [rng.randrange(m)]
    elif layout == "run":
        ln = min(n, p + rng.randint(1, 3))
        st = rng.randint(0, n - ln)
        idx = list(range(st, st + ln))
    elif layout == "random":
        idx = [i for i in range(n) if rng.random() < 0.1]
    elif layout == "last":
        idx = [n - 1]
    else:
        idx = list(range(n))
    for i in idx:
        xs[i] = NAN
    return xs


def gen_mean_ini(rng):
    m = rng.choice([0.0, 5.0, -3.25, 1e6, -1e-3, 20.0, round(rng.gauss(0, 10), 3)])
    ini = rng.choice([m, m + 5.0, -m, 0.0, 10.0, round(rng.gauss(0, 10), 3), -7.5])
    return m, ini


# magnitude ladder: the recursion is linear, hence scale free (theorems sim_homogeneous / residual_homogeneous): every
# finite magnitude is inside the quantifier.  Powers of two (scaling by them is exact), from subnormal to 1e270,
# denser around "round" decimal thresholds (1e-100, 1e-30, 1e-12, 1e-8 ...).
SCALE_EXPONENTS = [-1040, -1000, -900, -700, -500, -400, -340, -333, -331, -300, -200, -100, -66, -40, -30, -27, -20,
                   20, 27, 40, 66, 100, 200, 333, 500, 700, 900]


def scaled(xs, k):
    return [math.ldexp(x, k) if x == x else x for x in xs]


def gen_case(rng, p, kind, s, n, tag=""):
    c = gen_case_unit(rng, p, kind, s, n, tag)
    if rng.random() < 0.3 and "/huge" not in c["tag"]:
        k = rng.choice(SCALE_EXPONENTS)
        if abs(c["mean"]) > 1e5:
            c["mean"] = 20.0
        for key in ("innov", "inputs"):
            c[key] = scaled(c[key], k)
        c["mean"], c["ini"] = math.ldexp(c["mean"], k), math.ldexp(c["ini"], k)
        c["scale"] = k
        c["tag"] += f"/scale=2^{k}"
    return c


def gen_case_unit(rng, p, kind, s, n, tag=""):
    m, ini = gen_mean_ini(rng)
    vclass = rng.choice(VCLASSES)
    return {
        "params": gen_params(rng, p, kind, s),
        "mean": m, "ini": ini,
        "simform": rng.choice(["mi", "mi", "mi", "m", "dd", "di"]),   # which of sim_mean / sim_ini are passed
        "resform": rng.choice(["mi", "mi", "mi", "m", "dd", "di"]),
        "innov": put_nan(rng, gen_values(rng, n, vclass), p, rng.choice(NANLAYOUTS)),
        "inputs": put_nan(rng, [x + (m if abs(m) < 1e5 else 0.0) for x in gen_values(rng, n, vclass if vclass != "huge" else "big")],
                          p, rng.choice(NANLAYOUTS)),
        "pform": rng.choice(["list", "array", "array", "scalar"]),
        "aform": rng.choice(["plain", "plain", "plain", "strided", "int"]),
        "tag": f"{tag}{kind}/s={s}/{vclass}",
    }


def gen_malformed(rng):
    kind = rng.choice(["order0", "order11", "order_big", "nan_param", "nan_param", "nan_mean", "nan_ini",
                       "nan_mean_ini", "nan_param_mean", "order11_nan"])
    p = rng.randint(1, 10)
    c = gen_case(rng, p, "random", 0.6, rng.choice([0, 1, 3, 8]), tag="malformed/")
    c["simform"] = c["resform"] = "mi"
    c["pform"] = "array"
    if kind == "order0":
        c["params"] = []
    elif kind == "order11":
        c["params"] = gen_params(rng, 11, "random", 0.6)
    elif kind == "order_big":
        c["params"] = gen_params(rng, rng.randint(12, 40), "random", 0.6)
    elif kind == "nan_param":
        c["params"][rng.randrange(p)] = NAN
    elif kind == "nan_mean":
        c["mean"] = NAN
    elif kind == "nan_ini":
        c["ini"] = NAN
    elif kind == "nan_mean_ini":
        c["mean"] = NAN
        c["ini"] = NAN
    elif kind == "nan_param_mean":
        c["params"][rng.randrange(p)] = NAN
        c["mean"] = NAN
    else:
        c["params"] = gen_params(rng, 11, "random", 0.6)
        c["params"][rng.randrange(11)] = NAN
    c["tag"] = "malformed/" + kind
    return c


# --------------------------------------------------------------------------------------
# which guard of the CURRENT source is behind an error code (ARMODEL_ERROR + __LINE__)
def guard_table():
    src = (C.REPO / "src" / "hydrodiy" / "stat" / "c_armodels.c").read_text().splitlines()
    base = 56000
    hdr = (C.REPO / "src" / "hydrodiy" / "stat" / "c_armodels.h").read_text()
    m = re.search(r"#define\s+ARMODEL_ERROR\s+(\d+)", hdr)
    if m:
        base = int(m.group(1))
    table = {}
    for i, line in enumerate(src):
        if "ARMODEL_ERROR" in line and "__LINE__" in line and "return" in line:
            kind = "other"
            for j in range(i, max(i - 4, -1), -1):
                t = src[j].replace(" ", "")
                if "if(" in t:
                    if "nparams" in t and "isnan" not in t:
                        kind = "badOrder"
                    elif "isnan(params" in t:
                        kind = "nanParam"
                    elif "isnan(sim_mean)" in t:
                        kind = "nanMean"
                    elif "isnan(sim_ini)" in t:
                        kind = "nanIni"
                    break
            table[base + i + 1] = kind
    return table


def causes(params, mean, ini):
    out = []
    if not (1 <= len(params) <= 10):
        out.append("badOrder")
    if any(x != x for x in params):
        out.append("nanParam")
    if mean != mean:
        out.append("nanMean")
    if ini != ini:
        out.append("nanIni")
    return out


# --------------------------------------------------------------------------------------
def amplification(params, n):
    """A_t = sum_{j<=t} psibar_j, psibar the impulse response of the AR with |phi|: how much a one-step
    rounding error can grow through the recursion up to step t"""
    import numpy as np
    from scipy.signal import lfilter
    if n == 0:
        return np.zeros(0)
    a = np.concatenate([[1.0], -np.abs(np.asarray(params, dtype=float))])
    imp = np.zeros(n)
    imp[0] = 1.0
    with np.errstate(all="ignore"):
        psi = lfilter([1.0], a, imp)
        return np.cumsum(psi)


class Runner:
    def __init__(self, ctx):
        import numpy as np
        from hydrodiy.stat import armodels
        self.np = np
        self.am = armodels
        self.ctx = ctx
        self.guards = guard_table()
        self.reqs, self.impls, self.cases, self.kinds = [], [], [], []
        self.qreqs = []      # (request, impl float list, tolerance list, case)
        self.mreqs = []      # (nanmean request, numpy value, tolerance, case)
        self.rreqs = []      # (request at Fl rnd53, impl float list, case): 53-bit rounding arithmetic over Rat
        self.breqs = []      # (boundr / specq request, case): theorem statements evaluated by the driver
        self.stats = {}

    def stat(self, k, n=1):
        self.stats[k] = self.stats.get(k, 0) + n

    # ---- the real code
    def call(self, fn, params, series, args, pform="array", aform="plain"):
        np = self.np
        if pform == "scalar" and len(params) == 1:
            pa = float(params[0])
        elif pform == "list":
            pa = list(params)
        else:
            pa = np.array(params, dtype=np.float64)
        if aform == "strided":
            base = np.zeros(2 * len(series), dtype=np.float64)
            base[::2] = series
            base[1::2] = 12345.0
            arr = base[::2]
        elif aform == "int" and all(x == x and abs(x) < 1e9 and x == int(x) for x in series):
            arr = np.array([int(x) for x in series], dtype=np.int64)
        else:
            arr = np.array(series, dtype=np.float64)
        try:
            with warnings.catch_warnings():
                warnings.simplefilter("ignore")
                out = fn(pa, arr, *args[0], **args[1])
            return "ok", [float(x) for x in np.asarray(out, dtype=np.float64).ravel()]
        except ValueError as e:
            m = re.search(r"returns (\d+)", str(e))
            if m:
                return "err", self.guards.get(int(m.group(1)), "other")
            return "err", "other:ValueError"
        except Exception as e:  # noqa
            return "err", "other:" + type(e).__name__

    @staticmethod
    def pyargs(form, m, ini):
        """(positional, keyword) arguments after the series; form: m/d for the mean, i/d for the initial value"""
        if form == "mi":
            return (m, ini), {}
        if form == "m":
            return (m,), {}
        if form == "di":
            return (), {"sim_ini": ini}
        return (), {}

    @staticmethod
    def argtok(form, m, ini):
        mt = C.f2h(m) if form[0] == "m" else "none"
        it = C.f2h(ini) if form[-1] == "i" and form != "m" else "none"
        return mt, it

    def add(self, req, res, case, branch, nontrivial, cz=()):
        impl = ("ok " + C.flist(res[1])) if res[0] == "ok" else ("err " + res[1])
        self.kinds.append(list(cz))
        self.reqs.append(req)
        self.impls.append(impl)
        self.cases.append(case)
        self.ctx.count(req, nontrivial, branch,
                       sample={"request": req[:300], "reply": impl[:200]} if nontrivial and len(req) < 600 else None)

    def rounded_ok(self, c, xs, extra=()):
        """runs sent to the model in 53-bit rounding arithmetic over Rat: unit magnitude (nothing near the subnormal
        range or overflow), short series"""
        return ("scale" not in c and len(xs) <= 40 and
                all((v != v) or abs(v) < 1e150 for v in xs) and all(abs(v) < 1e150 for v in extra))

    @staticmethod
    def ratlist(xs):
        return C.slist("nan" if x != x else C.rat(x) for x in xs)

    # ---- oracle pieces (numpy float with explicit rounding budgets; no model involved)
    def lagged(self, y, m, ini, p):
        np = self.np
        ext = np.concatenate([np.full(p, ini), y])
        n = len(y)
        # L[t, k] = value at lag k+1 before step t
        L = np.stack([ext[p - (k + 1): p - (k + 1) + n] for k in range(p)], axis=1) if n else np.zeros((0, p))
        return L

    def check_recursion(self, case, phi, m, ini, e0, y):
        """y[t]-m = sum_k phi[k]*(y[t-k]-m) + e0[t], y[-k] = ini — term by term on the outputs of the real code"""
        np = self.np
        p, n = len(phi), len(y)
        if n == 0:
            return
        y = np.asarray(y)
        e0 = np.asarray(e0)
        phi = np.asarray(phi)
        with np.errstate(all="ignore"):
            L = self.lagged(y, m, ini, p)
            pred = (L - m) @ phi + e0
            lhs = y - m
            scale = np.abs(y) + abs(m) + np.abs(e0) + (np.abs(L) + abs(m)) @ np.abs(phi)
            tol = 8 * (p + 4) * U * scale + FLOOR
            ok = np.isfinite(scale) & np.isfinite(pred) & (scale < 1e290)
            bad = ok & (np.abs(lhs - pred) > tol)
        self.stat("oracle_recursion_steps", int(ok.sum()))
        if bad.any():
            t = int(np.argmax(bad))
            self.ctx.finding(f"sim/recursion/order={'1' if p == 1 else '>=2'}/{'first_steps' if t < p else 'later_steps'}",
                             "armodel_sim output does not satisfy y[t]-m = sum_k phi[k]*(y[t-k]-m) + e[t] started from the initial value",
                             {**case, "t": t, "got": float(lhs[t]), "required": float(pred[t]), "tol": float(tol[t])})

    def check_close(self, sig, what, case, got, want, tol, mask=None):
        np = self.np
        got, want, tol = np.asarray(got), np.asarray(want), np.asarray(tol)
        with np.errstate(all="ignore"):
            ok = np.isfinite(got) & np.isfinite(want) & np.isfinite(tol)
            if mask is not None:
                ok &= mask
            bad = ok & (np.abs(got - want) > tol)
        self.stat("oracle_" + sig.split("/")[0] + "_steps", int(ok.sum()))
        if bad.any():
            t = int(np.argmax(bad))
            self.ctx.finding(sig, what, {**case, "t": t, "got": float(got[t]), "required": float(want[t]), "tol": float(tol[t])})
            return False
        return True

    def exact_sim(self, phi, m, ini, e0):
        phi = [Fraction(x) for x in phi]
        m, ini = Fraction(m), Fraction(ini)
        buf = [ini - m] * len(phi)
        out = []
        for e in e0:
            t = Fraction(e) + sum(a * b for a, b in zip(phi, buf))
            buf = [t] + buf[:-1]
            out.append(t + m)
        return out

    def exact_run(self, phi, m, ini, e0):
        """the exact outputs of the recursion when NO floating-point operation of either kernel can round, whatever the
        order of summation: at every step all terms (innovation, coefficient x lag products, mean) are multiples of one
        power of two q with (sum of |terms|)/q < 2^53, so every partial sum is representable.  None otherwise."""
        F = Fraction

        def fits(terms):
            den = max(t.denominator for t in terms)
            return den <= 2 ** 1074 and sum(abs(t) for t in terms) * den < 2 ** 53

        ph = [F(x) for x in phi]
        m_, i_ = F(m), F(ini)
        if not fits([i_, m_]):
            return None
        buf = [i_ - m_] * len(ph)
        out = []
        for e in e0:
            prods = [a * b for a, b in zip(ph, buf)]
            if not fits([F(e)] + prods):
                return None
            t = F(e) + sum(prods)
            y = t + m_
            if not (fits([t, m_]) and fits([y, m_]) and fits([t] + prods)):
                return None
            buf = [t] + buf[:-1]
            out.append(y)
        return out

    # ---- one case
    def run(self, c):
        np = self.np
        ctx = self.ctx
        phi, m, ini = c["params"], c["mean"], c["ini"]
        p = len(phi)
        innov, inputs = c["innov"], c["inputs"]
        n = len(innov)
        pform, aform = c.get("pform", "array"), c.get("aform", "plain")
        tag = c.get("tag", "")
        cz = causes(phi, m, ini)
        nontriv = (not cz) and n > 0 and any(x != 0 for x in phi)
        base = {k: c[k] for k in ("params", "mean", "ini")}
        ordtag = f"order={p if p <= 11 else '12+'}"

        # ------------- simulation, as called
        sform = c.get("simform", "mi")
        rm = m if sform[0] == "m" else 0.0                      # mean / initial value the call stands for
        ri = ini if (sform[-1] == "i" and sform != "m") else rm
        czs = causes(phi, rm, ri)
        r_sim = self.call(self.am.armodel_sim, phi, innov, self.pyargs(sform, m, ini), pform, aform)
        mt, it = self.argtok(sform, m, ini)
        ptok = ("s" + C.f2h(phi[0])) if (pform == "scalar" and p == 1) else C.flist(phi)     # python scalar: np.atleast_1d (paramsOf)
        self.add(f"pysim {ptok} {C.flist(innov)} {mt} {it}", r_sim, {**base, "form": sform, "innov": innov, "tag": tag, "pform": pform},
                 f"sim/{ordtag}/{'accepted' if r_sim[0] == 'ok' else 'rejected'}", nontriv, czs)
        self.oracle_validation("sim", czs, r_sim, {**base, "form": sform, "n": n})
        if r_sim[0] == "ok" and not czs:
            y = r_sim[1]
            e0 = [0.0 if x != x else x for x in innov]
            if len(y) != n:
                ctx.finding("sim/length", "output length differs from the innovation series", {**base, "n": n, "got": len(y)})
                return
            case = {**base, "form": sform, "innov": innov}
            if any(v != v for v in y):
                self.stat("sim_runs_reaching_the_isnan_skip_of_the_lag_buffer")
            elif any(math.isinf(v) for v in y):
                self.stat("sim_runs_overflowing_to_inf")
            self.check_recursion(case, phi, rm, ri, e0, y)
            # defaults stand for explicit values
            if sform != "mi":
                r_exp = self.call(self.am.armodel_sim, phi, innov, ((rm, ri), {}))
                if not (r_exp[0] == "ok" and C.flist(r_exp[1]) == C.flist(y)):
                    ctx.finding(f"sim/defaults/form={sform}", "default sim_mean=0 / sim_ini=sim_mean differs from passing those values explicitly", case)
            # NaN innovation == zero innovation, bit for bit
            if any(x != x for x in innov):
                r_zero = self.call(self.am.armodel_sim, phi, e0, ((rm, ri), {}))
                if r_zero[0] != "ok" or C.flist(r_zero[1]) != C.flist(y):
                    ctx.finding("sim/nan_innovation_not_zero", "a NaN innovation does not act as a zero innovation", case)
            # exact direct recursion on short series
            if n <= 12 and all(abs(x) < 1e200 for x in e0):
                ex = self.exact_sim(phi, rm, ri, e0)
                A = amplification(phi, n)
                S = max([abs(float(v)) for v in ex] + [abs(rm), abs(ri)] + [abs(v) for v in e0]) * (1 + sum(abs(x) for x in phi))
                tol = (A * 4 * (p + 3) + 8) * (U * S + FLOOR)
                self.check_close("sim/exact_recursion", "armodel_sim differs from the exact AR recursion beyond the rounding budget",
                                 case, y, [float(v) for v in ex], tol)
                self.qreqs.append(("simq " + C.slist(C.rat(x) for x in phi) + f" {C.rat(rm)} {C.rat(ri)} " +
                                   C.slist("nan" if x != x else C.rat(x) for x in innov), y, list(tol), case))
                self.breqs.append(("specq " + C.slist(C.rat(x) for x in phi) + f" {C.rat(rm)} {C.rat(ri)} " + self.ratlist(innov), case))
                cc = ctx.rng.choice([3.0, -0.5, 2.0 ** -400, 1e-3, -7.25, 0.0])
                dd = ctx.rng.choice([7.0, -2.5, 1e6, 0.1])
                self.breqs.append(("linq " + C.slist(C.rat(x) for x in phi) + f" {C.rat(rm)} {C.rat(ri)} " + self.ratlist(innov) +
                                   f" {C.rat(cc)} {C.rat(dd)}", case))
            # the run cut at a random place and resumed from the model's lag buffer (simBuf) == the run of the real code
            if n >= 2:
                cut = ctx.rng.randint(1, n - 1)
                self.add(f"simcut {C.flist(phi)} {C.f2h(rm)} {C.f2h(ri)} {C.flist(innov)} {cut}", r_sim,
                         {**base, "innov": innov, "cut": cut, "tag": tag}, f"sim_resumed_from_simBuf/{ordtag}", nontriv)
            # the same model text in 53-bit rounding arithmetic over Rat (Fl rnd53, the arithmetic of the rounding theorems)
            if self.rounded_ok(c, innov, (rm, ri)) and all(math.isfinite(v) for v in y) and ctx.rng.random() < 0.5:
                rq = C.slist(C.rat(x) for x in phi) + f" {C.rat(rm)} {C.rat(ri)} " + self.ratlist(innov)
                self.rreqs.append(("simr " + rq, y, case))
                if n <= 12:
                    self.breqs.append(("boundr " + rq, case))
            # cases in which no operation can round (dyadic coefficients, integer-like values at any magnitude): the
            # outputs are the exact rational recursion, with no tolerance
            exact = self.exact_run(phi, rm, ri, e0) if (n <= 40 and all(math.isfinite(v) for v in y)) else None
            if exact is not None and n:
                self.stat("exact_cases_no_rounding_possible")
                bad = [t for t in range(n) if Fraction(y[t]) != exact[t]]
                if bad:
                    ctx.finding("sim/exact_case", "armodel_sim differs from the exact AR recursion on a case in which no floating-point "
                                "operation can round", {**case, "t": bad[0], "got": y[bad[0]], "required": float(exact[bad[0]])})
            # residual of the simulated series recovers the innovations
            if all(v == v for v in y):
                r_back = self.call(self.am.armodel_residual, phi, y, ((rm, ri), {}))
                if exact is not None and r_back[0] == "ok" and len(r_back[1]) == n and not any(Fraction(y[t]) != exact[t] for t in range(n)):
                    bad = [t for t in range(n) if not (r_back[1][t] == e0[t])]
                    if bad:
                        ctx.finding("residual_sim/exact_case", "residual(sim(e)) differs from e on a case in which no floating-point "
                                    "operation can round", {**case, "y": y, "t": bad[0], "got": r_back[1][bad[0]], "required": e0[bad[0]]})
                self.add(f"pyres {C.flist(phi)} {C.flist(y)} nan {C.f2h(rm)} {C.f2h(ri)}", r_back, {**base, "inputs": y, "tag": tag},
                         f"residual_of_sim/{ordtag}", nontriv)
                if r_back[0] != "ok":
                    ctx.finding("residual/rejects_valid", "a valid call was rejected", {**base, "inputs": y, "reply": r_back[1]})
                else:
                    ya = np.asarray(y)
                    with np.errstate(all="ignore"):
                        L = self.lagged(ya, rm, ri, p)
                        scale = np.abs(ya) + abs(rm) + np.abs(e0) + (np.abs(L) + abs(rm)) @ np.abs(np.asarray(phi))
                        tol = 8 * (p + 4) * U * scale + FLOOR
                    self.check_close(f"residual_sim/order={'1' if p == 1 else '>=2'}",
                                     "residual(sim(e)) differs from e (NaN innovations read as 0)",
                                     {**case, "y": y}, r_back[1], e0, tol, mask=scale < 1e290)

            # sim_mean left at its default on BOTH calls (the docstring example of both functions)
            with warnings.catch_warnings(), np.errstate(all="ignore"):
                warnings.simplefilter("ignore")
                nmy = float(np.mean(np.asarray(y))) if n else NAN
            if sform[0] == "d" and all(math.isfinite(v) for v in y) and (n == 0 or math.isfinite(nmy)):
                r_dd = self.call(self.am.armodel_residual, phi, y, self.pyargs(sform, m, ini))
                self.add(f"pyres {C.flist(phi)} {C.flist(y)} {C.f2h(nmy)} none {it}", r_dd, {**base, "form": sform, "inputs": y, "tag": tag},
                         f"residual_of_sim_default_mean/{ordtag}", nontriv, causes(phi, nmy, ri if sform == "di" else nmy))
                dcase = {**base, "form": sform, "innov": innov, "y": y}
                if r_dd[0] != "ok":
                    if n == 0:
                        ctx.finding("residual_sim/sim_mean_default_on_both_calls/empty_series",
                                    "armodel_residual(params, armodel_sim(params, e)) with e empty is rejected (default mean = nanmean of nothing = NaN) instead of returning an empty series", dcase)
                    else:
                        ctx.finding("residual/rejects_valid", "a valid call was rejected", {**dcase, "reply": r_dd[1]})
                else:
                    ya = np.asarray(y)
                    with np.errstate(all="ignore"):
                        L = self.lagged(ya, rm, ri, p)
                        scale = np.abs(ya) + abs(nmy) + np.abs(e0) + (np.abs(L) + abs(nmy)) @ np.abs(np.asarray(phi))
                        tol = 8 * (p + 4) * U * scale + FLOOR
                    self.check_close("residual_sim/sim_mean_default_on_both_calls",
                                     "armodel_residual(params, armodel_sim(params, e)) differs from e when sim_mean is left at its default on both "
                                     "calls: armodel_sim centres on 0., armodel_residual on nanmean(inputs)",
                                     dcase, r_dd[1], e0, tol, mask=scale < 1e290)

        # ------------- residual of an arbitrary series, as called
        rform = c.get("resform", "mi")
        with warnings.catch_warnings():
            warnings.simplefilter("ignore")
            nm = float(np.nanmean(np.array(inputs, dtype=np.float64)))
        qm = m if rform[0] == "m" else nm
        qi = ini if (rform[-1] == "i" and rform != "m") else qm
        czr = causes(phi, qm, qi)
        r_res = self.call(self.am.armodel_residual, phi, inputs, self.pyargs(rform, m, ini), pform, aform)
        mt, it = self.argtok(rform, m, ini)
        self.add(f"pyres {ptok} {C.flist(inputs)} {C.f2h(nm)} {mt} {it}", r_res,
                 {**base, "form": rform, "inputs": inputs, "tag": tag, "pform": pform},
                 f"residual/{ordtag}/{'accepted' if r_res[0] == 'ok' else 'rejected'}", nontriv and not czr, czr)
        self.oracle_validation("residual", czr, r_res, {**base, "form": rform, "n": len(inputs)})
        if len(inputs) <= 200:
            self.data_mean_requests(phi, inputs, nm, rform, m, ini, r_res, {**base, "form": rform, "inputs": inputs, "tag": tag})
        if r_res[0] != "ok" or czr:
            return
        res = r_res[1]
        case = {**base, "form": rform, "inputs": inputs}
        if len(res) != len(inputs):
            ctx.finding("residual/length", "output length differs from the input series", {**base, "n": len(inputs), "got": len(res)})
            return
        if len(inputs) >= 2:
            cut = ctx.rng.randint(1, len(inputs) - 1)
            self.add(f"rescut {C.flist(phi)} {C.f2h(qm)} {C.f2h(qi)} {C.flist(inputs)} {cut}", r_res,
                     {**base, "inputs": inputs, "cut": cut, "tag": tag}, f"residual_resumed_from_resBuf/{ordtag}", nontriv)
        if self.rounded_ok(c, inputs, (qm, qi)) and all(math.isfinite(v) for v in res) and ctx.rng.random() < 0.5:
            self.rreqs.append(("resr " + C.slist(C.rat(x) for x in phi) + f" {C.rat(qm)} {C.rat(qi)} " + self.ratlist(inputs), res, case))
        if rform != "mi":
            r_exp = self.call(self.am.armodel_residual, phi, inputs, ((qm, qi), {}))
            if not (r_exp[0] == "ok" and C.flist(r_exp[1]) == C.flist(res)):
                ctx.finding(f"residual/defaults/form={rform}", "default sim_mean=nanmean(inputs) / sim_ini=sim_mean differs from passing those values explicitly", case)
        # fill: the series the residuals stand for (missing input = AR prediction), float recursion for magnitudes
        fill = []
        buf = [qi - qm] * p
        for x in inputs:
            with np.errstate(all="ignore"):
                v = (x - qm) if x == x else safe_fsum(a * b for a, b in zip(phi, buf))
            buf = [v] + buf[:-1]
            fill.append(v)
        fa = np.asarray(fill) if fill else np.zeros(0)
        sphi = sum(abs(x) for x in phi)
        nn = len(inputs)
        with np.errstate(all="ignore"):
            Lc = np.abs(self.lagged(fa, 0.0, qi - qm, p)) @ np.abs(np.asarray(phi)) if nn else np.zeros(0)
        # zero residual at missing inputs
        miss = np.array([x != x for x in inputs], dtype=bool)
        if miss.any():
            with np.errstate(all="ignore"):
                tol0 = 4 * (p + 2) * U * Lc + FLOOR
            self.check_close(f"residual/missing_input_not_zero/order={'1' if p == 1 else '>=2'}",
                             "the residual at a missing input is not zero", case, res, np.zeros(nn), tol0, mask=miss & (Lc < 1e290))
            if p == 1:
                # order 1: (0 + phi*b) - phi*b is exactly zero in any arithmetic where 0 + x = x and x - x = 0 for finite x
                # (theorem residual_zero_at_missing_order1_any_arithmetic): no tolerance
                bad = [t for t in range(nn) if miss[t] and math.isfinite(res[t]) and res[t] != 0.0]
                self.stat("oracle_order1_missing_exact_zero_steps", int(miss.sum()))
                if bad:
                    ctx.finding("residual/missing_input_not_zero/order=1", "order 1: the residual at a missing input is not exactly zero",
                                {**case, "t": bad[0], "got": res[bad[0]], "required": 0.0})
        # simulate the residuals again
        r_fwd = self.call(self.am.armodel_sim, phi, res, ((qm, qi), {}))
        if all(v == v for v in res):
            self.add(f"pysim {C.flist(phi)} {C.flist(res)} {C.f2h(qm)} {C.f2h(qi)}", r_fwd, {**base, "innov": res, "tag": tag},
                     f"sim_of_residual/{ordtag}", nontriv)
        if r_fwd[0] != "ok":
            ctx.finding("sim/rejects_valid", "a valid call was rejected", {**base, "innov": res, "reply": r_fwd[1]})
            return
        if nn:
            A = amplification(phi, nn)
            with np.errstate(all="ignore"):
                S = (1 + sphi) * (float(np.max(np.abs(fa))) + abs(qm) + abs(qi) + float(np.max(np.abs(np.asarray(inputs)[~miss]))) if (~miss).any()
                                  else (1 + sphi) * (float(np.max(np.abs(fa))) + abs(qm) + abs(qi)))
                tol = (A * 4 * (p + 3) + 8) * (U * S + FLOOR)
                informative = (A * 4 * (p + 3) * U < 1e-7) & np.isfinite(tol) & (S < 1e290)
            self.stat("sim_residual_ill_conditioned_steps", int((~informative).sum()))
            want = np.where(miss, fa + qm, np.asarray(inputs))
            if rform[0] == "d" and not miss.any():
                # sim_mean left at its default on both calls
                r_dd = self.call(self.am.armodel_sim, phi, res, self.pyargs(rform, m, ini))
                if all(v == v for v in res):
                    self.add(f"pysim {C.flist(phi)} {C.flist(res)} none {it}", r_dd, {**base, "form": rform, "innov": res, "tag": tag},
                             f"sim_of_residual_default_mean/{ordtag}", nontriv)
                if r_dd[0] == "ok":
                    self.check_close("sim_residual/sim_mean_default_on_both_calls",
                                     "armodel_sim(params, armodel_residual(params, y)) differs from y when sim_mean is left at its default on both "
                                     "calls: armodel_residual centres on nanmean(y), armodel_sim on 0.",
                                     {**case, "residuals": res}, r_dd[1], want, tol, mask=informative)
            if not miss.any():
                self.check_close(f"sim_residual/order={'1' if p == 1 else '>=2'}", "sim(residual(y)) differs from y",
                                 {**case, "residuals": res}, r_fwd[1], want, tol, mask=informative)
            else:
                self.check_close(f"sim_residual_with_missing/order={'1' if p == 1 else '>=2'}",
                                 "sim(residual(y)) differs from y at a position where y is present",
                                 {**case, "residuals": res}, r_fwd[1], want, tol, mask=informative & ~miss)

    def data_mean_requests(self, phi, inputs, nm, rform, m, ini, r_res, case):
        """the model's own data mean (sequential sum) against numpy.nanmean; when both have the same bits (or are
        both undefined) the wrapper model that computes the mean itself is compared with the call as made"""
        present = [x for x in inputs if x == x]
        if any(math.isinf(x) for x in present):
            return
        tol = 4 * (len(present) + 2) * U * (sum(abs(x) for x in present) / max(len(present), 1)) + (len(present) + 2) * FLOOR
        self.mreqs.append((f"nanmean {C.flist(inputs)}", nm, tol, case))
        seq = 0.0
        for x in present:
            seq = seq + x
        seq = seq / len(present) if present else NAN
        if C.f2h(seq) == C.f2h(nm) and not (present and not math.isfinite(seq)):
            mt, it = self.argtok(rform, m, ini)
            self.add(f"pyresd {C.flist(phi)} {C.flist(inputs)} {mt} {it}", r_res, case,
                     f"residual_model_data_mean/order={len(phi) if len(phi) <= 11 else '12+'}", r_res[0] == "ok" and len(inputs) > 0,
                     causes(phi, m if rform[0] == "m" else nm, (ini if (rform[-1] == "i" and rform != "m") else (m if rform[0] == "m" else nm))))
        if len(inputs) <= 12 and rform[0] == "d" and all(abs(x) < 1e200 for x in present):
            p = len(phi)
            mtq = "none"
            itq = C.rat(ini) if (rform[-1] == "i" and rform != "m") else "none"
            if r_res[0] == "ok":
                S = (1 + sum(abs(x) for x in phi)) * (max([abs(x) for x in present] + [abs(ini), abs(nm) if nm == nm else 0.0]) * 2)
                tolq = [(8 * (p + 4) + 4 * len(inputs)) * (U * S + FLOOR)] * len(inputs)
                self.qreqs.append(("pyresdq " + C.slist(C.rat(x) for x in phi) + " " +
                                   C.slist("nan" if x != x else C.rat(x) for x in inputs) + f" {mtq} {itq}", r_res[1], tolq, case))

    # ---- histories on one set of argument objects
    def hcall(self, kind, pa, arr, m, ini, label, hist, expect_e0=None, expect_y=None, reject=False):
        """one call of the real code on the argument OBJECTS as they are now; the request for the model and the
        oracle are built from their current contents"""
        np = self.np
        phi = [float(x) for x in np.atleast_1d(pa)]
        cur = [float(x) for x in arr]
        fn = self.am.armodel_sim if kind == "sim" else self.am.armodel_residual
        try:
            with warnings.catch_warnings():
                warnings.simplefilter("ignore")
                out = fn(pa, arr, m, ini)
            res = ("ok", [float(x) for x in np.asarray(out, dtype=np.float64).ravel()])
        except ValueError as e:
            mm = re.search(r"returns (\d+)", str(e))
            res = ("err", self.guards.get(int(mm.group(1)), "other") if mm else "other:ValueError")
            out = None
        except Exception as e:  # noqa
            res = ("err", "other:" + type(e).__name__)
            out = None
        case = {"params": phi, "mean": m, "ini": ini, ("innov" if kind == "sim" else "inputs"): cur,
                "history": hist, "step": label}
        op = "pysim" if kind == "sim" else "pyres"
        req = (f"pysim {C.flist(phi)} {C.flist(cur)} {C.f2h(m)} {C.f2h(ini)}" if kind == "sim"
               else f"pyres {C.flist(phi)} {C.flist(cur)} nan {C.f2h(m)} {C.f2h(ini)}")
        self.add(req, res, case, f"history/{hist}/{label}", res[0] == "ok" and len(cur) > 0, causes(phi, m, ini))
        del op
        if reject:
            # a fault path inside a history: the call must be rejected, and nothing else may happen
            if res[0] == "ok":
                self.ctx.finding(f"history/{hist}/accepts_invalid", "an unsupported order or a NaN parameter / mean / initial value was "
                                 "accepted in the course of a history of calls", case)
            return res, out
        if res[0] != "ok":
            self.ctx.finding(f"history/{hist}/rejects_valid", "a valid call was rejected in the course of a history of calls", {**case, "reply": res[1]})
            return res, out
        if len(res[1]) != len(cur):
            self.ctx.finding(f"history/{hist}/length", "output length differs from the series", case)
            return ("err", "length"), out
        if kind == "sim":
            e0 = [0.0 if x != x else x for x in cur]
            self.check_recursion_sig(f"history/{hist}/sim_recursion", case, phi, m, ini, e0, res[1])
        else:
            miss = np.array([x != x for x in cur], dtype=bool)
            if miss.any():
                big = (1 + sum(abs(x) for x in phi)) * (max([abs(x) for x in cur if x == x] + [abs(m), abs(ini)]) + abs(m))
                # generous magnitude bound (runs of missing values grow at most by sum|phi| per step)
                grow = max(1.0, sum(abs(x) for x in phi)) ** len(cur)
                self.check_close(f"history/{hist}/missing_input_not_zero", "the residual at a missing input is not zero (history of calls)",
                                 case, res[1], np.zeros(len(cur)), np.full(len(cur), 4 * (len(phi) + 2) * U * big * grow + FLOOR), mask=miss)
        if expect_y is not None and len(cur) and np.isfinite(np.asarray(cur)).all():
            A = amplification(phi, len(cur))
            S = (1 + sum(abs(x) for x in phi)) * (max(abs(x) for x in expect_y) + abs(m) + abs(ini) + max(abs(x) for x in cur))
            tol = (A * 4 * (len(phi) + 3) + 8) * (U * S + FLOOR)
            self.check_close(f"history/{hist}/sim_of_residual", "sim(residual(y)) differs from y in the course of a history of calls "
                             "(the residual series was returned by an earlier call)", {**case, "expected": list(expect_y)},
                             res[1], expect_y, tol, mask=(A * 4 * (len(phi) + 3) * U < 1e-7))
        if expect_e0 is not None:
            ya = np.asarray(cur)
            ok = np.isfinite(ya).all()
            if ok:
                pth = len(phi)
                with np.errstate(all="ignore"):
                    L = self.lagged(ya, m, ini, pth)
                    scale = np.abs(ya) + abs(m) + np.abs(np.asarray(expect_e0)) + (np.abs(L) + abs(m)) @ np.abs(np.asarray(phi))
                    tol = 8 * (pth + 4) * U * scale + FLOOR
                self.check_close(f"history/{hist}/residual_of_sim", "residual(sim(e)) differs from e in the course of a history of calls "
                                 "(the simulated series was returned by an earlier call)", {**case, "expected": list(expect_e0)},
                                 res[1], expect_e0, tol)
        return res, out

    def check_recursion_sig(self, sig, case, phi, m, ini, e0, y):
        np = self.np
        p, n = len(phi), len(y)
        if n == 0:
            return
        y, e0, ph = np.asarray(y), np.asarray(e0), np.asarray(phi)
        with np.errstate(all="ignore"):
            L = self.lagged(y, m, ini, p)
            pred = (L - m) @ ph + e0
            scale = np.abs(y) + abs(m) + np.abs(e0) + (np.abs(L) + abs(m)) @ np.abs(ph)
            tol = 8 * (p + 4) * U * scale + FLOOR
            ok = np.isfinite(scale) & np.isfinite(pred) & (scale < 1e290)
            bad = ok & (np.abs((y - m) - pred) > tol)
        self.stat("oracle_history_recursion_steps", int(ok.sum()))
        if bad.any():
            t = int(np.argmax(bad))
            self.ctx.finding(sig, "armodel_sim output does not satisfy the AR recursion on the CURRENT arguments (history of calls)",
                             {**case, "t": t, "got": float(y[t] - m), "required": float(pred[t])})

    def history(self, rng):
        """2-4 calls on the same argument objects with in-place edits, other calls, copies in between; every answer
        is compared with the model and the oracle on the state at the time of the call"""
        import copy
        import pickle
        np = self.np
        p = rng.randint(1, 10)
        n = rng.choice([1, 2, 3, 5, 8, 20, p, p + 1])
        kind = rng.choice(PARAM_KINDS[:-1])
        pa = np.array(gen_params(rng, p, kind, rng.choice([0.3, 0.6, 0.9])), dtype=np.float64)
        m, ini = gen_mean_ini(rng)
        if abs(m) > 1e5:
            m = 20.0
        vcl = rng.choice(["normal", "int", "small", "big"])
        e = np.array(put_nan(rng, gen_values(rng, n, vcl), p, rng.choice(["none", "none", "first", "random"])), dtype=np.float64)
        hist = rng.choice(["edit_input", "edit_params", "edit_returned", "interleave", "interleave_residual", "sim_edit_residual",
                           "residual_edit_input", "copies", "swap_roles", "fault_path", "fault_path"])
        if rng.random() < 0.25:
            # the same history at another magnitude (the recursion is scale free)
            k = rng.choice(SCALE_EXPONENTS)
            e = np.ldexp(e, k)
            m, ini = math.ldexp(m, k), math.ldexp(ini, k)

        def e0_of(a):
            return [0.0 if x != x else float(x) for x in a]

        if hist == "edit_input":
            r1, y1 = self.hcall("sim", pa, e, m, ini, "call1", hist)
            e[rng.randrange(n)] = rng.choice([NAN, 7.0, -3.5])
            if n > 1:
                e[-1] = e[-1] + 1.0 if e[-1] == e[-1] else 2.0
            r2, y2 = self.hcall("sim", pa, e, m, ini, "call2_after_inplace_edit_of_input", hist)
            e[:] = np.array(gen_values(rng, n, "int"))
            self.hcall("sim", pa, e, m, ini, "call3_after_full_overwrite_same_size", hist)
        elif hist == "edit_params":
            self.hcall("sim", pa, e, m, ini, "call1", hist)
            pa[:] = np.array(gen_params(rng, p, rng.choice(PARAM_KINDS[:-1]), 0.6))
            self.hcall("sim", pa, e, m, ini, "call2_after_inplace_edit_of_params", hist)
            x = np.array(gen_values(rng, n, "normal")) + m
            self.hcall("res", pa, x, m, ini, "call3_residual_same_params_object", hist)
            pa[rng.randrange(p)] = -0.25
            self.hcall("res", pa, x, m, ini, "call4_after_second_edit_of_params", hist)
        elif hist == "edit_returned":
            r1, y1 = self.hcall("sim", pa, e, m, ini, "call1", hist)
            if y1 is not None:
                y1 *= -3.0
                y1 += 11.0
            r2, y2 = self.hcall("sim", pa, e, m, ini, "call2_after_inplace_edit_of_returned_array", hist)
            x = np.array(gen_values(rng, n, "normal")) + m
            r3, o3 = self.hcall("res", pa, x, m, ini, "call3_residual", hist)
            if o3 is not None:
                o3[:] = 99.0
            self.hcall("res", pa, x, m, ini, "call4_after_inplace_edit_of_returned_residuals", hist)
        elif hist == "interleave":
            first_e0 = e0_of(e)
            r1, y1 = self.hcall("sim", pa, e, m, ini, "call1", hist)
            pb = np.array(gen_params(rng, p, rng.choice(PARAM_KINDS[:-1]), 0.9), dtype=np.float64)
            e2 = np.array(gen_values(rng, n, "big"), dtype=np.float64)
            self.hcall("sim", pb, e2, m + 1.0, ini - 2.0, "call2_other_arguments_same_sizes", hist)
            if y1 is not None and r1[0] == "ok":
                # y1 is the array object returned by the FIRST call
                self.hcall("res", pa, y1, m, ini, "call3_residual_of_first_result", hist, expect_e0=first_e0)
            self.hcall("sim", pa, e, m, ini, "call4_first_arguments_again", hist)
        elif hist == "interleave_residual":
            x1 = np.array([v + m for v in gen_values(rng, n, vcl)], dtype=np.float64)
            first_y = [float(v) for v in x1]
            r1, q1 = self.hcall("res", pa, x1, m, ini, "call1", hist)
            pb = np.array(gen_params(rng, p, rng.choice(PARAM_KINDS[:-1]), 0.9), dtype=np.float64)
            x2 = np.array(gen_values(rng, n, "big"), dtype=np.float64)
            self.hcall("res", pb, x2, m - 1.0, ini + 2.0, "call2_other_arguments_same_sizes", hist)
            if q1 is not None and r1[0] == "ok":
                # q1 is the array object returned by the FIRST call
                self.hcall("sim", pa, q1, m, ini, "call3_sim_of_first_result", hist, expect_y=first_y)
            self.hcall("res", pa, x1, m, ini, "call4_first_arguments_again", hist)
        elif hist == "sim_edit_residual":
            r1, y1 = self.hcall("sim", pa, e, m, ini, "call1", hist)
            if y1 is not None and r1[0] == "ok" and np.isfinite(y1).all():
                k = rng.randrange(n)
                y1[k] = NAN
                if n > 2:
                    y1[rng.randrange(n)] = NAN
                self.hcall("res", pa, y1, m, ini, "call2_residual_after_marking_values_missing", hist)
        elif hist == "residual_edit_input":
            x = np.array(put_nan(rng, [v + m for v in gen_values(rng, n, vcl)], p, rng.choice(["none", "first", "random"])), dtype=np.float64)
            form = rng.choice(["dd", "mi"])
            for step in range(3):
                cur = [float(v) for v in x]
                with warnings.catch_warnings():
                    warnings.simplefilter("ignore")
                    nm = float(np.nanmean(x)) if n else NAN
                if form == "dd":
                    res = self.call(self.am.armodel_residual, [float(v) for v in pa], cur, ((), {}))
                    # the call above rebuilds arrays; call on the very object as well
                    try:
                        with warnings.catch_warnings():
                            warnings.simplefilter("ignore")
                            out = self.am.armodel_residual(pa, x)
                        res = ("ok", [float(v) for v in out])
                    except ValueError as ex:
                        mm = re.search(r"returns (\d+)", str(ex))
                        res = ("err", self.guards.get(int(mm.group(1)), "other") if mm else "other:ValueError")
                    self.add(f"pyres {C.flist(pa)} {C.flist(cur)} {C.f2h(nm)} none none", res,
                             {"params": [float(v) for v in pa], "inputs": cur, "history": hist, "step": f"call{step + 1}_default_mean"},
                             f"history/{hist}/call{step + 1}_default_mean", res[0] == "ok", causes([float(v) for v in pa], nm, nm))
                    if (res[0] == "ok") != (nm == nm):
                        self.ctx.finding(f"history/{hist}/default_mean_validation", "default-mean call accepted/rejected against the current data",
                                         {"params": [float(v) for v in pa], "inputs": cur, "reply": res})
                else:
                    self.hcall("res", pa, x, m, ini, f"call{step + 1}", hist)
                # equal-size in-place edit that changes the data mean
                x += rng.choice([5.0, -2.5])
                x[rng.randrange(n)] = rng.choice([NAN, 1.0, 100.0])
        elif hist == "copies":
            r1, y1 = self.hcall("sim", pa, e, m, ini, "call1", hist)
            pa2 = pickle.loads(pickle.dumps(pa))
            e2 = copy.deepcopy(e)
            r2, y2 = self.hcall("sim", pa2, e2, m, ini, "call2_pickled_and_deepcopied_arguments", hist)
            if r1[0] == "ok" and r2[0] == "ok" and C.flist(r1[1]) != C.flist(r2[1]):
                self.ctx.finding(f"history/{hist}/copy_changes_answer", "copies of the arguments give another answer", {"params": [float(v) for v in pa]})
            e3 = e[::-1].copy()[::-1]   # same contents, negative-stride view
            self.hcall("sim", pa, e3, m, ini, "call3_reversed_view_of_reversed_copy", hist)
        elif hist == "fault_path":
            # rejected calls in the middle of a history: a valid call before, the same valid call after (same objects,
            # same answer bit for bit), the fault made by an in-place edit or by other arguments, on either function
            k1, k2 = rng.choice(["sim", "res"]), rng.choice(["sim", "res"])
            x = np.array([v + m for v in gen_values(rng, n, "normal")], dtype=np.float64) if k1 == "res" else e
            r1, y1 = self.hcall(k1, pa, x, m, ini, f"call1_{k1}", hist)
            first = None if y1 is None else [float(v) for v in y1]
            for step in range(rng.randint(1, 3)):
                fault = rng.choice(["nan_param_inplace", "order11", "order0", "nan_mean", "nan_ini", "default_mean_no_data"])
                if fault == "nan_param_inplace":
                    j = rng.randrange(p)
                    keep = pa[j]
                    pa[j] = NAN
                    self.hcall(k2, pa, x, m, ini, f"fault{step + 1}_{k2}_{fault}", hist, reject=True)
                    pa[j] = keep
                elif fault == "order11":
                    self.hcall(k2, np.array(gen_params(rng, rng.randint(11, 14), "random", 0.6)), x, m, ini, f"fault{step + 1}_{k2}_{fault}", hist, reject=True)
                elif fault == "order0":
                    self.hcall(k2, np.zeros(0), x, m, ini, f"fault{step + 1}_{k2}_{fault}", hist, reject=True)
                elif fault == "nan_mean":
                    self.hcall(k2, pa, x, NAN, ini, f"fault{step + 1}_{k2}_{fault}", hist, reject=True)
                elif fault == "nan_ini":
                    self.hcall(k2, pa, x, m, NAN, f"fault{step + 1}_{k2}_{fault}", hist, reject=True)
                else:
                    allnan = np.full(n, NAN)
                    res = self.call(self.am.armodel_residual, [float(v) for v in pa], [NAN] * n, ((), {}))
                    self.add(f"pyres {C.flist(pa)} {C.flist(allnan)} nan none none", res,
                             {"params": [float(v) for v in pa], "inputs": [NAN] * n, "history": hist, "step": f"fault{step + 1}_{fault}"},
                             f"history/{hist}/fault_{fault}", False, ["nanMean"])
                    if res[0] == "ok":
                        self.ctx.finding(f"history/{hist}/accepts_invalid", "armodel_residual with the default mean accepted a series without data",
                                         {"params": [float(v) for v in pa], "inputs": [NAN] * n})
                r2, y2 = self.hcall(k1, pa, x, m, ini, f"call{step + 2}_{k1}_same_valid_call_after_the_fault", hist)
                if first is not None and r2[0] == "ok" and C.flist(r2[1]) != C.flist(first):
                    self.ctx.finding(f"history/{hist}/answer_changed_by_rejected_call", "the same valid call gives another answer after a rejected call",
                                     {"params": [float(v) for v in pa], "mean": m, "ini": ini, "series": [float(v) for v in x], "fault": fault})
        else:  # swap_roles: the same array object used as innovations, then as inputs, then its result fed back
            first_e0 = e0_of(e)
            r1, y1 = self.hcall("sim", pa, e, m, ini, "call1_sim", hist)
            if not np.isnan(e).any():
                r2, q = self.hcall("res", pa, e, m, ini, "call2_same_array_as_inputs", hist)
                if q is not None and r2[0] == "ok":
                    r3, z = self.hcall("sim", pa, q, m, ini, "call3_sim_of_those_residuals", hist)
            if y1 is not None and r1[0] == "ok":
                self.hcall("res", pa, y1, m, ini, "call4_residual_of_first_result", hist, expect_e0=first_e0)

    def history_ops(self, rng):
        """a random LIST of operations on one set of argument objects — in-place edits of the coefficients / the series /
        the returned array (index possibly out of range), other objects, feeding the returned array back, calls of either
        function with any mix of default and explicit sim_mean / sim_ini, valid or not — executed on the real code and,
        as one `hist` request, by the model's `step` function (Model/C17Hist.lean); every reply is compared, and the
        oracle checks each call on the contents at the time of the call"""
        np = self.np
        p = rng.randint(1, 10)
        n = rng.choice([0, 1, 2, 3, 5, 8, p, p + 1])
        pa = np.array(gen_params(rng, p, rng.choice(PARAM_KINDS[:-1]), rng.choice([0.3, 0.6, 0.9])), dtype=np.float64)
        e = np.array(put_nan(rng, gen_values(rng, n, rng.choice(["normal", "int", "small", "big"])), p,
                             rng.choice(["none", "none", "first", "random"])), dtype=np.float64)
        m, ini = gen_mean_ini(rng)
        if abs(m) > 1e5:
            m = 20.0
        req = [f"hist {C.flist(pa)} {C.flist(e)}"]
        replies = []
        last = None
        steps = []

        def call(kind):
            nonlocal last
            form = rng.choice(["mi", "mi", "m", "dd", "di"])
            mm = rng.choice([m, m, m, NAN]) if rng.random() < 0.15 else m
            ii = rng.choice([ini, NAN]) if rng.random() < 0.1 else ini
            phi = [float(v) for v in pa]
            cur = [float(v) for v in e]
            fn = self.am.armodel_sim if kind == "sim" else self.am.armodel_residual
            with warnings.catch_warnings():
                warnings.simplefilter("ignore")
                nm = float(np.nanmean(e)) if kind == "res" else 0.0
            pos, kw = self.pyargs(form, mm, ii)
            try:
                with warnings.catch_warnings():
                    warnings.simplefilter("ignore")
                    out = fn(pa, e, *pos, **kw)
                res = ("ok", [float(v) for v in np.asarray(out, dtype=np.float64).ravel()])
            except ValueError as ex:
                g = re.search(r"returns (\d+)", str(ex))
                res = ("err", self.guards.get(int(g.group(1)), "other") if g else "other:ValueError")
                out = None
            except Exception as ex:  # noqa
                res = ("err", "other:" + type(ex).__name__)
                out = None
            mt, it = self.argtok(form, mm, ii)
            req.append(f"sim:{mt}:{it}" if kind == "sim" else f"res:{C.f2h(nm)}:{mt}:{it}")
            replies.append(("ok " + C.flist(res[1])) if res[0] == "ok" else ("err " + res[1]))
            steps.append(f"{kind}/{form}/{'accepted' if res[0] == 'ok' else 'rejected'}")
            # the mean / initial value the call stands for, on the contents at this moment
            rm = mm if form[0] == "m" else (0.0 if kind == "sim" else nm)
            ri = ii if (form[-1] == "i" and form != "m") else rm
            cz = causes(phi, rm, ri)
            case = {"params": phi, "mean": mm, "ini": ii, "form": form, ("innov" if kind == "sim" else "inputs"): cur,
                    "history": "ops", "ops_so_far": list(req[1:])}
            if cz and res[0] == "ok":
                self.ctx.finding(f"history/ops/accepts_invalid/{'+'.join(cz)}", "an unsupported order or a NaN parameter / mean / initial "
                                 "value was accepted in the course of a history of operations", case)
            if not cz and res[0] != "ok":
                self.ctx.finding("history/ops/rejects_valid", "a valid call was rejected in the course of a history of operations",
                                 {**case, "reply": res[1]})
            if res[0] == "ok" and not cz:
                if len(res[1]) != len(cur):
                    self.ctx.finding("history/ops/length", "output length differs from the series", case)
                elif kind == "sim":
                    self.check_recursion_sig("history/ops/sim_recursion", case, phi, rm, ri, [0.0 if x != x else x for x in cur], res[1])
                last = out
            elif res[0] == "ok":
                last = out

        for _ in range(rng.randint(3, 9)):
            k = rng.choice(["sp", "ss", "ss", "sl", "np", "ns", "fb", "fb", "sim", "sim", "res", "res"])
            if k == "sp":
                j = rng.randrange(len(pa) + 1)
                v = rng.choice([NAN, 0.25, -0.5, 0.0, pa[j % len(pa)] if len(pa) else 0.1])
                try:
                    pa[j] = v
                except IndexError:
                    pass
                req.append(f"sp:{j}:{C.f2h(v)}")
            elif k == "ss":
                j = rng.randrange(len(e) + 1)
                v = rng.choice([NAN, 7.0, -3.5, float(rng.randint(-5, 5))])
                try:
                    e[j] = v
                except IndexError:
                    pass
                req.append(f"ss:{j}:{C.f2h(v)}")
            elif k == "sl":
                j = rng.randrange(n + 2)
                v = rng.choice([NAN, 99.0, -1.5])
                if last is not None:
                    try:
                        last[j] = v
                    except IndexError:
                        pass
                req.append(f"sl:{j}:{C.f2h(v)}")
            elif k == "np":
                q = rng.choice([p, p, rng.randint(1, 10), 0, 11])
                pa = np.array(gen_params(rng, q, "random", 0.6), dtype=np.float64)
                if q and rng.random() < 0.15:
                    pa[rng.randrange(q)] = NAN
                req.append(f"np:{C.flist(pa)}")
            elif k == "ns":
                q = rng.choice([n, n, rng.choice([0, 1, 2, 6])])
                e = np.array(put_nan(rng, [v + m for v in gen_values(rng, q, "normal")], p, rng.choice(["none", "first", "random", "all"])),
                             dtype=np.float64)
                req.append(f"ns:{C.flist(e)}")
            elif k == "fb":
                if last is not None:
                    e = last           # the very array object returned by the last accepted call
                req.append("fb")
            else:
                call(k)
        call(rng.choice(["sim", "res"]))
        line = " ".join(req)
        self.kinds.append([])
        self.reqs.append(line)
        self.impls.append(";".join(replies) + f";end {C.flist(pa)} {C.flist(e)}")
        self.cases.append({"history": "ops", "request": trunc(line)})
        self.ctx.count(line, any("accepted" in t for t in steps), "history_ops/" + "+".join(sorted(set(t.split("/")[0] + "_" + t.split("/")[2] for t in steps))))

    def record_shapes(self):
        """what the wrappers do with a 0-d or a 2-D [n, p] series (the docstrings mention [n, p]; the Cython layer takes
        1-D only).  Outside the property's quantifier: recorded in the evidence, never compared, never a finding."""
        np = self.np
        out = {}
        for name, arr in (("0-d", np.array(1.5)), ("2-D [3,2]", np.arange(6.0).reshape(3, 2)), ("2-D [3,1]", np.arange(3.0).reshape(3, 1))):
            for fn in (self.am.armodel_sim, self.am.armodel_residual):
                try:
                    with warnings.catch_warnings():
                        warnings.simplefilter("ignore")
                        r = fn(np.array([0.5]), arr, 0.0, 0.0)
                    out[f"{fn.__name__} {name}"] = f"returns shape {np.shape(r)}"
                except Exception as e:  # noqa
                    out[f"{fn.__name__} {name}"] = f"raises {type(e).__name__}"
        self.ctx.extra["shapes_outside_quantifier"] = out

    def oracle_validation(self, fn, cz, res, case):
        if cz and res[0] == "ok":
            self.ctx.finding(f"{fn}/accepts_invalid/{'+'.join(cz)}", "an unsupported order or a NaN parameter / mean / initial value was accepted", case)
        if not cz and res[0] != "ok":
            self.ctx.finding(f"{fn}/rejects_valid", "a valid call was rejected", {**case, "reply": res[1]})

    # ---- ask the model, compare
    def flush(self):
        ctx = self.ctx
        replies = []
        chunk, size = [], 0
        for r in self.reqs:
            chunk.append(r)
            size += len(r)
            if size > 30_000_000 or len(chunk) >= 20000:
                replies += ctx.lean.ask(chunk)
                chunk, size = [], 0
        replies += ctx.lean.ask(chunk)
        for req, impl, rep, case, cz in zip(self.reqs, self.impls, replies, self.cases, self.kinds):
            if req.startswith("hist "):
                si, sr = impl.split(";"), rep.split(";")
                if len(si) != len(sr) or any(not (a == b or (a.startswith("err") and b.startswith("err"))) for a, b in zip(si, sr)):
                    k = next((i for i, (a, b) in enumerate(zip(si, sr)) if not (a == b or (a.startswith("err") and b.startswith("err")))), min(len(si), len(sr)))
                    ctx.disagree("C17: history of operations: implementation and model's step function differ",
                                 {"request": trunc(req), "call_index": k, "impl": trunc(si[k] if k < len(si) else "(missing)", 400),
                                  "model": trunc(sr[k] if k < len(sr) else "(missing)", 400)})
                continue
            if impl.startswith("err") and rep.startswith("err"):
                # the property constrains rejection, not which guard speaks first: compare the guard only when
                # there is a single cause and the current source line is one of the four recognised guards
                if len(cz) == 1 and not impl.startswith("err other") and impl != rep:
                    ctx.disagree("C17: rejected by a different guard", {"request": trunc(req), **trunc_case(case), "impl": impl, "model": rep})
                continue
            if impl != rep:
                ctx.disagree("C17: implementation and model differ",
                             {"request": trunc(req), **trunc_case(case), "impl": trunc(impl), "model": trunc(rep),
                              "first_difference": first_diff(impl, rep)})
        # exact instance of the same model text, short series
        qrep = ctx.lean.ask([q[0] for q in self.qreqs])
        for (req, y, tol, case), rep in zip(self.qreqs, qrep):
            ctx.count(req, True, "exact_model")
            if not rep.startswith("ok "):
                ctx.disagree("C17: exact model rejects a call the code accepts", {"request": req, "model": rep})
                continue
            ex = [Fraction(t) for t in C.parse_list(rep[3:])]
            if len(ex) != len(y) or any(math.isfinite(a) and math.isfinite(t) and abs(Fraction(a) - b) > Fraction(t)
                                        for a, b, t in zip(y, ex, tol)):
                ctx.disagree("C17: code differs from the exact (Rat) model beyond the rounding budget",
                             {"request": req, "impl": y, "model": [float(v) for v in ex]})
        rrep = ctx.lean.ask([q[0] for q in self.rreqs])
        for (req, y, case), rep in zip(self.rreqs, rrep):
            toks = rep.split(" ", 2)
            same_range = len(toks) == 3 and toks[0] == "ok" and toks[1] == "1"
            ctx.count(req, same_range, "rounded_arithmetic_rnd53/" + req.split(" ", 1)[0])
            if not rep.startswith("ok "):
                ctx.disagree("C17: the model in rounding arithmetic rejects a call the code accepts", {"request": trunc(req), "model": rep})
                continue
            if not same_range:
                self.stat("rounded_runs_entering_the_subnormal_range")
                continue
            ex = [Fraction(t) for t in C.parse_list(toks[2])]
            if len(ex) != len(y) or any(Fraction(a) != b for a, b in zip(y, ex)):
                ctx.disagree("C17: the code differs from the model run in 53-bit round-to-nearest-even arithmetic over the rationals (Fl rnd53)",
                             {"request": trunc(req), "impl": y[:16], "model": [float(v) for v in ex[:16]]})
        brep = ctx.lean.ask([q[0] for q in self.breqs])
        for (req, case), rep in zip(self.breqs, brep):
            ctx.count(req, True, "theorem_statement_evaluated/" + req.split(" ", 1)[0])
            if rep != "ok true true":
                ctx.disagree("C17: a theorem's statement evaluated by the driver on this input does not hold in the model", {"request": trunc(req), "model": rep})
        mrep = ctx.lean.ask([q[0] for q in self.mreqs])
        for (req, nm, tol, case), rep in zip(self.mreqs, mrep):
            ctx.count(req, nm == nm, "data_mean")
            mv = C.h2f(rep)
            if (mv != mv) != (nm != nm) or (mv == mv and abs(mv - nm) > tol):
                ctx.disagree("C17: numpy.nanmean and the model's data mean differ", {"request": trunc(req), "numpy": nm, "model": mv, "tol": tol})
        self.reqs, self.impls, self.cases, self.kinds, self.qreqs, self.mreqs, self.rreqs, self.breqs = [], [], [], [], [], [], [], []


def safe_fsum(it):
    try:
        return math.fsum(it)
    except (OverflowError, ValueError):
        return float("nan")


def trunc(s, n=1500):
    return s if len(s) <= n else s[:n] + f"...({len(s)} chars)"


def trunc_case(case):
    out = {}
    for k, v in case.items():
        out[k] = v if not isinstance(v, list) or len(v) <= 64 else v[:64] + [f"...({len(v)} values)"]
    return out


def first_diff(a, b):
    ta, tb = a.replace("[", " ").replace("]", "").replace(",", " ").split(), b.replace("[", " ").replace("]", "").replace(",", " ").split()
    for i, (x, y) in enumerate(zip(ta, tb)):
        if x != y:
            return {"token": i, "impl": x, "model": y}
    return {"token": min(len(ta), len(tb)), "impl": "(length)", "model": "(length)"}


# --------------------------------------------------------------------------------------
def body(ctx):
    rng = ctx.rng
    R = Runner(ctx)

    # replay of one explicit case / corpus
    if getattr(ctx, "replay", None) and isinstance(ctx.replay.get("case"), dict) and "params" in ctx.replay["case"]:
        rc = ctx.replay["case"]
        c = {"params": [float(x) for x in rc["params"]], "mean": float(rc.get("mean", 0.0)), "ini": float(rc.get("ini", rc.get("mean", 0.0))),
             "simform": rc.get("form", "mi") if "innov" in rc else "mi", "resform": rc.get("form", "mi") if "inputs" in rc else "mi",
             "innov": [float(x) for x in rc.get("innov", rc.get("inputs", []))],
             "inputs": [float(x) for x in rc.get("inputs", rc.get("innov", []))], "tag": "replay"}
        R.run(c)
    cdir = C.ROOT / "corpus" / PID
    if cdir.exists():
        for f in sorted(cdir.glob("*.json")):
            d = json.loads(f.read_text())
            for c in d.get("cases", [d] if "params" in d else []):
                c = dict(c)
                for k in ("params", "innov", "inputs"):
                    c[k] = [NAN if x is None else float(x) for x in c.get(k, [])]
                c.setdefault("inputs", c["innov"])
                c["mean"] = float(c.get("mean", 0.0))
                c["ini"] = float(c.get("ini", c["mean"]))
                c["tag"] = "corpus/" + f.stem
                R.run(c)

    # structured stream: every order x coefficient vectors x lengths
    nvec = ctx.scale(100, 1000)
    for p in range(0, 12):
        for v in range(nvec):
            kind = PARAM_KINDS[v % len(PARAM_KINDS)]
            s = SUMS[(v // len(PARAM_KINDS)) % len(SUMS)] if v < 90 else rng.choice(SUMS)
            lengths = [0, 1, 2, 3, 10, 200] + [n for n in (p, p + 1) if n > 3 and n != 10]
            if ctx.thorough:
                lengths += [n for n in (p - 1,) if n > 3]
                if v % 16 == 0:
                    lengths += [1000, 3000]
                elif v % 16 == 8:
                    lengths += [rng.randint(201, 2999)]
            if p in (0, 11):
                lengths = [0, 1, 3]
            for n in lengths:
                R.run(gen_case(rng, p, kind, s, n))
        R.flush()
    # history stream: short histories of calls on one set of argument objects
    for _ in range(ctx.scale(600, 6000)):
        R.history(rng)
    R.flush()
    # histories as arbitrary operation lists, run by the model's step function as well
    for _ in range(ctx.scale(800, 8000)):
        R.history_ops(rng)
    R.flush()
    # shapes outside the quantifier (recorded, never compared): 0-d and 2-D series
    R.record_shapes()
    # malformed stream
    for _ in range(ctx.scale(300, 3000)):
        R.run(gen_malformed(rng))
    R.flush()

    ctx.extra["rule"] = __doc__.split("Cases:")[1].strip()
    ctx.extra["oracle_counts"] = R.stats
    ctx.assumptions += [
        "numpy.nanmean (default sim_mean of armodel_residual): its value is handed to the wrapper model; the model's own data mean "
        "(sequential sum) is compared with it within n*u and, where the bits coincide, used in its place",
        "IEEE rounding: executed (Float instance, bit-equal to the kernels built with -ffp-contract=off) and, absent overflow / "
        "underflow, proved in the standard model (kernel_recursion_rounded, kernel_residual_sim_rounded, with rnd53 proved to "
        "meet it and run value for value against the real kernels); the other theorems are over a commutative ring where no "
        "computed value is NaN",
        "the oracle's tolerances are first-order rounding budgets scaled by the AR impulse response; steps whose budget "
        "exceeds 1e-7 relative (explosive coefficients, long series) are counted as ill-conditioned, not checked",
        "1-D float64 series (the wrappers reject 2-D input although their docstring mentions [n, p] arrays)",
    ]


def main(tier, replay=None):
    return C.run_check(PID, tier, body, needs_native=True, replay=replay,
                       level_partial=["float_recursion_statement", "float_residual_sim_statement", "float_sim_residual_statement"],
                       trusted=["numpy.nanmean / astype / atleast_1d (external, compared by result)",
                                "gcc -O1 -ffp-contract=off build of c_armodels.c from the working tree",
                                "IEEE-754 double: the kernels' arithmetic is compared value for value with Fl rnd53 (normal range); "
                                "overflow and the subnormal range are executed (Float instance) and budgeted by the oracle, not proved"])
