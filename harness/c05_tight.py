"""C05 — kernel-level cases for the tightness probes (pure Python).

A case = the complete argument list of one kernel call: `P` integer scalars, `D` doubles, `B` contents of every
pointer parameter (as long as the kernel may ever need: the extents actually allocated are decided by the model:
`need` request to the driver). Sizes are small (the footprint arithmetic does not depend on size, and every
probe is a `malloc` per buffer): lengths 0..8 first, then a few larger ones.

`NOSHRINK[callee]` lists pointer parameters excluded from the one-element-shorter test, with the reason.
"""
import math

FLOWCODE = [32, 64, 128, 16, 0, 1, 8, 4, 2]
NAN = float("nan")

NOSHRINK = {
    # the model reads the four limits unconditionally, the C `||` chain stops at the first true test
    "c_inside": {"polygon_xlim", "polygon_ylim"},
    # the model writes `date` whenever the month is valid; the kernel also requires a valid day
    "c_dateutils_getdate": {"date"},
}
# kernels whose model return code (0 / not 0) is compared with the kernel's
RETCODE = {"c_aggregate", "c_flathomogen", "c_islin", "c_eckhardt", "c_var2h", "c_armodel_sim",
           "c_armodel_residual", "c_ensrank", "c_ad_test", "c_paretofront", "c_olsleverage", "c_coord2cell",
           "c_cell2rowcol", "c_cell2coord", "c_neighbours", "c_upstream", "c_downstream", "c_accumulate", "c_slope",
           "c_slice", "c_intersect", "c_voronoi", "c_inside", "c_exclude_zero_area_boundary",
           "c_delineate_river", "c_delineate_flowpathlengths_in_catchment", "c_delineate_boundary", "c_delineate_area",
           "c_dateutils_add1month",
           "c_dateutils_add1day", "c_dateutils_comparedates"}


def rfloats(rng, n, nanp=0.15, lo=0.0, hi=10.0):
    return [NAN if rng.random() < nanp else rng.uniform(lo, hi) for _ in range(n)]


def lens(rng, nrand, nmax):
    return list(range(0, 9)) + [rng.randint(9, nmax) for _ in range(nrand)]


def flowdir(rng, nrows, ncols, bad=False):
    pool = FLOWCODE + ([3, -1, 999] if bad else [])
    return [rng.choice(pool) for _ in range(nrows * ncols)]


def cells(rng, ntot, n, valid=0.7):
    out = []
    for _ in range(n):
        if rng.random() < valid and ntot > 0:
            out.append(rng.randrange(ntot))
        else:
            out.append(rng.choice([-1, ntot, ntot + 3, -5, 2 ** 40]))
    return out


def gen_cases(rng, scale):
    cs = []

    def add(callee, P, D=None, B=None, tag=""):
        cs.append({"callee": callee, "P": P, "D": D or {}, "B": B or {}, "tag": tag})

    rep = scale(3, 12)
    # ---- data
    for n in lens(rng, scale(3, 10), 40):
        for _ in range(rep if n <= 8 else 1):
            kind = rng.choice(["runs", "runs", "const", "strict", "decr"])
            idx, cur = [], rng.randint(0, 50)
            for i in range(n):
                if kind == "strict" or (kind == "runs" and rng.random() < 0.4):
                    cur += 1
                elif kind == "decr" and rng.random() < 0.3:
                    cur -= 1
                idx.append(cur)
            x = rfloats(rng, n)
            add("c_aggregate", {"nval": n, "oper": rng.randint(0, 3), "maxnan": rng.choice([0, 1, -1, n])},
                B={"aggindex": idx, "inputs": x, "outputs": [0.0] * n, "iend": [0]}, tag=f"len{min(n, 9)}/{kind}")
            add("c_flathomogen", {"nval": n, "maxnan": rng.choice([0, 1, -1, n])},
                B={"aggindex": idx, "inputs": x, "outputs": [0.0] * n}, tag=f"len{min(n, 9)}/{kind}")
            a, b = rng.uniform(-1, 1), rng.uniform(1, 5)
            data = [a * i + b if rng.random() < 0.85 else rng.uniform(0, 9) for i in range(n)]
            if rng.random() < 0.3:
                data = [NAN if rng.random() < 0.2 else v for v in data]
            add("c_islin", {"nval": n, "npoints": rng.choice([1, 1, 2, 3, 100])},
                D={"thresh": rng.choice([0.0, -100.0, 3.0]), "tol": rng.choice([1e-6, 0.5, 1e-12])},
                B={"inputs": data, "islin": [7] * n}, tag=f"len{min(n, 9)}")
            add("c_eckhardt", {"nval": n, "timestep_type": rng.choice([0, 1, 1, 2])},
                D={"thresh": rng.choice([0.95, 1.5]), "tau": 20.0, "BFI_max": rng.choice([0.8, 0.8, -0.1])},
                B={"inputs": rfloats(rng, n, lo=-2), "outputs": [0.0] * n}, tag=f"len{min(n, 9)}")
    for nv in list(range(0, 9)) + [rng.randint(9, 30) for _ in range(scale(2, 8))]:
        for _ in range(rep):
            kind = rng.choice(["sorted", "sorted", "sorted", "dup", "unsorted", "sparse"])
            t0 = rng.choice([0, 100, 3599, 7200])
            sec, cur = [], t0
            for i in range(nv):
                sec.append(cur)
                cur += {"sorted": rng.randint(1, 3000), "dup": rng.choice([0, 900]),
                        "unsorted": rng.choice([-400, 1500, 2500]), "sparse": rng.randint(3000, 12000)}[kind]
            nbsec = rng.choice([3600, 1800])
            hstart = rng.choice([t0 - 10, t0, t0 + 1, t0 + nbsec, (sec[-1] if sec else 0) + 5, t0 + 2 * nbsec])
            span = (sec[-1] - t0) if sec else 0
            nvalh = rng.choice([0, 1, 2, max(span // nbsec, 0), max(span // nbsec, 0) + 2])
            add("c_var2h", {"nvalvar": nv, "nvalh": nvalh, "nbsec_per_period": rng.choice([nbsec, nbsec, 60]),
                            "rainfall": rng.choice([0, 1, 1, 2]), "display": 0, "maxgapsec": 5 * 86400,
                            "hstartsec": hstart},
                B={"varsec": sec, "varvalues": rfloats(rng, nv), "hvalues": [0.0] * nvalh},
                tag=f"len{min(nv, 9)}/{kind}")
    for _ in range(scale(40, 200)):
        kind = rng.choice(["valid", "monthend", "yearmax", "edges"])
        if kind == "valid":
            d = [rng.randint(1, 9999), rng.randint(1, 12), rng.randint(1, 28)]
        elif kind == "monthend":
            d = [rng.choice([1900, 2000, 2023, 2024]), rng.randint(1, 12), rng.choice([28, 29, 30, 31])]
        elif kind == "yearmax":
            d = [2147483647, rng.choice([12, 11]), rng.choice([31, 30, 1])]
        else:
            d = [rng.choice([0, -1, 2024]), rng.choice([0, 13, -1, 12]), rng.choice([0, 31, 32, -1])]
        add("c_dateutils_add1month", {}, B={"date": list(d)}, tag=kind)
        add("c_dateutils_add1day", {}, B={"date": list(d)}, tag=kind)
        d2 = list(d) if rng.random() < 0.3 else [d[0], rng.randint(1, 12), rng.randint(1, 28)]
        add("c_dateutils_comparedates", {}, B={"date1": list(d), "date2": d2}, tag=kind)
        day = rng.choice([20240131.0, 19000229.0, 0.0, -1.0, 99991231.0, 20241301.0, 20240132.0,
                          float(rng.randint(10000101, 99991231)), NAN, 1e300, 2147483648.0])
        add("c_dateutils_getdate", {}, D={"day": day}, B={"date": [0, 0, 0]}, tag="day")

    # ---- stat
    for order in range(0, 12):
        for n in [0, 1, 2, 5]:
            params = [NAN if rng.random() < 0.05 else rng.uniform(-1, 1) for _ in range(order)]
            mean = rng.choice([0.0, 2.0, 2.0, NAN])
            add("c_armodel_sim", {"nval": n, "nparams": order}, D={"sim_mean": mean, "sim_ini": 1.0},
                B={"params": params, "innov": rfloats(rng, n), "outputs": [0.0] * n}, tag=f"order{order}/len{n}")
            add("c_armodel_residual", {"nval": n, "nparams": order}, D={"sim_mean": mean, "sim_ini": 1.0},
                B={"params": params, "inputs": rfloats(rng, n), "residuals": [0.0] * n}, tag=f"order{order}/len{n}")
    for n in range(0, 6):
        for m in range(0, 5):
            for _ in range(scale(1, 4)):
                srt = rng.choice([0, 0, 1])
                sim = []
                for i in range(n):
                    row = [rng.uniform(0, 10) for _ in range(m)]
                    if srt == 1 and rng.random() < 0.7:
                        row.sort()
                    sim += row
                usew = rng.choice([0, 0, 1])
                # (`metrics.crps` never passes an ensemble without member: `ncol = 0` is outside every wrapper's
                # contract — what a kernel does there, and which layer refuses it, is not fixed by the property)
                if m >= 1:
                    add("c_crps", {"nval": n, "ncol": m, "use_weights": usew, "is_sorted": srt},
                        B={"obs": [rng.uniform(0, 10) for _ in range(n)], "sim": sim,
                           "weights_vector": [1.0 / max(n, 1)] * n, "reliability_table": [0.0] * ((m + 1) * 7),
                           "crps_decompos": [0.0] * 5}, tag=f"n{n}/m{m}")
                add("c_ensrank", {"nval": n, "ncol": m}, D={"eps": rng.choice([1e-6, 1e-6, 0.0])},
                    B={"sim": [float(rng.randint(0, 3)) for _ in range(n * m)], "fmat": [0.0] * (n * n),
                       "ranks": [0.0] * n}, tag=f"n{n}/m{m}")
                add("c_paretofront", {"nval": n, "ncol": m, "orientation": rng.choice([1, -1])},
                    B={"data": [NAN if rng.random() < 0.1 else float(rng.randint(0, 3)) for _ in range(n * m)],
                       "isdominated": [7] * n}, tag=f"n{n}/m{m}")
                add("c_olsleverage", {"nval": n, "npreds": m},
                    B={"predictors": rfloats(rng, n * m, 0), "tXXinv": rfloats(rng, m * m, 0), "leverages": [0.0] * n},
                    tag=f"n{n}/p{m}")
    for n in lens(rng, scale(2, 6), 30):
        for _ in range(rep if n <= 8 else 1):
            kind = rng.choice(["unif", "unif", "outside", "ties"])
            u = [rng.random() for _ in range(n)]
            if kind == "outside" and n:
                u[rng.randrange(n)] = rng.choice([1.5, -0.5])
            if kind == "ties":
                u = [rng.choice([0.25, 0.5]) for _ in range(n)]
            add("c_ad_test", {"nval": n}, B={"unifdata": u, "outputs": [0.0, 0.0]}, tag=f"len{min(n, 9)}/{kind}")

    # ---- gis
    for _ in range(scale(60, 300)):
        nrows, ncols = rng.randint(1, 4), rng.randint(1, 4)
        ntot = nrows * ncols
        csz = rng.choice([1.0, 0.5, 2.0])
        xll, yll = rng.choice([0.0, -3.0, 10.5]), rng.choice([0.0, 7.0])
        geo = {"xll": xll, "yll": yll, "csz": csz}
        n = rng.choice([0, 1, 2, 3, 5, 8])

        def pts(k, spread=1.6):
            out = []
            for _ in range(k):
                kind = rng.random()
                if kind < 0.1:
                    out += [NAN, rng.uniform(0, 3)]
                elif kind < 0.15:
                    out += [math.inf, -math.inf]
                else:
                    out += [xll + rng.uniform(-0.6, spread) * ncols * csz, yll + rng.uniform(-0.6, spread) * nrows * csz]
            return out
        add("c_coord2cell", {"nrows": nrows, "ncols": ncols, "nval": n}, D=geo,
            B={"xycoords": pts(n), "idxcell": [7] * n}, tag=f"len{n}")
        cl = cells(rng, ntot, n)
        add("c_cell2coord", {"nrows": nrows, "ncols": ncols, "nval": n}, D=geo,
            B={"idxcell": cl, "xycoords": [0.0] * (2 * n)}, tag=f"len{n}")
        add("c_cell2rowcol", {"nrows": nrows, "ncols": ncols, "nval": n},
            B={"idxcell": cl, "rowcols": [7] * (2 * n)}, tag=f"len{n}")
        add("c_neighbours", {"nrows": nrows, "ncols": ncols, "idxcell": cells(rng, ntot, 1)[0]},
            B={"neighbours": [7] * 9}, tag="one")
        fd = flowdir(rng, nrows, ncols, bad=rng.random() < 0.2)
        add("c_upstream", {"nrows": nrows, "ncols": ncols, "nval": n},
            B={"flowdircode": FLOWCODE, "flowdir": fd, "idxdown": cl, "idxup": [7] * (9 * n)}, tag=f"len{n}")
        add("c_downstream", {"nrows": nrows, "ncols": ncols, "nval": n},
            B={"flowdircode": FLOWCODE, "flowdir": fd, "idxup": cl, "idxdown": [7] * n}, tag=f"len{n}")
        add("c_accumulate", {"nrows": rng.choice([nrows, nrows, 0]), "ncols": ncols, "nprint": rng.choice([0, 1, 3, -1]),
                             "max_accumulated_cells": rng.choice([0, 1, 3, ntot, ntot])},
            D={"nodata_to_accumulate": -9.0},
            B={"flowdircode": FLOWCODE, "flowdir": fd, "to_accumulate": [1.0] * ntot, "accumulation": [0.0] * ntot},
            tag="grid")
        add("c_slope", {"nrows": rng.choice([nrows, nrows, 0]), "ncols": ncols, "nprint": rng.choice([0, 1, 3, -1])},
            D={"cellsize": csz},
            B={"flowdircode": FLOWCODE, "flowdir": fd, "altitude": rfloats(rng, ntot, 0), "slopeval": [0.0] * ntot},
            tag="grid")
        add("c_slice", {"nrows": nrows, "ncols": ncols, "nval": n}, D=geo,
            B={"data": rfloats(rng, ntot, 0), "xyslice": pts(n, 1.2), "zslice": [0.0] * n}, tag=f"len{n}")
        m = rng.choice([0, 1, 3, 6, 12])
        add("c_intersect", {"nrows": nrows, "ncols": ncols, "nval": m, "ncells": ntot},
            D={"xll": xll, "yll": yll, "csz": csz, "csz_area": csz / 2},
            B={"xy_area": pts(m, 1.2), "npoints": [0], "idxcells": [7] * ntot, "weights": [0.0] * ntot}, tag=f"pts{m}")
        k = rng.choice([0, 1, 2, 3])
        ncell = rng.choice([0, 1, 3, 6])
        add("c_voronoi", {"nrows": rng.choice([nrows, nrows, nrows, 0]), "ncols": rng.choice([ncols, ncols, ncols, 0]),
                          "ncells": ncell, "npoints": k}, D=geo,
            B={"idxcells_area": cells(rng, ntot, ncell, 0.85), "xypoints": [v if v == v and abs(v) != math.inf else 1.0
                                                                          for v in pts(k)], "weights": [7.0] * k},
            tag=f"cells{ncell}/pts{k}")
        nv = rng.choice([1, 2, 3, 5])         # (an empty polygon is refused by the wrapper's column reduction)
        poly = [v if v == v and abs(v) != math.inf else 1.0 for v in pts(nv, 1.0)]
        px, py = poly[0::2], poly[1::2]
        add("c_inside", {"nprint": rng.choice([0, 1, 2, -1]), "npoints": n, "nvertices": nv}, D={"atol": 1e-10},
            B={"points": pts(n, 1.2), "polygon": poly, "polygon_xlim": [min(px), max(px)] if px else [0.0, 0.0],
               "polygon_ylim": [min(py), max(py)] if py else [0.0, 0.0], "inside": [0] * n}, tag=f"n{n}/k{nv}")
        add("c_exclude_zero_area_boundary", {"nval": n}, D={"deteps": 1e-6},
            B={"xycoords": rfloats(rng, 2 * n, 0), "idxok": [7] * n}, tag=f"len{n}")
        start = cells(rng, ntot, 1, 0.85)[0]
        add("c_delineate_river", {"nrows": nrows, "ncols": ncols, "idxupstream": start, "nval": n}, D=geo,
            B={"flowdircode": FLOWCODE, "flowdir": fd, "npoints": [0], "idxcells": [7] * n, "data": [0.0] * (5 * n)},
            tag=f"len{n}")
        na = rng.choice([0, 1, 1, 2, 3, ntot, max(ntot - 1, 1)])
        ak = rng.choice(["valid", "valid", "valid", "dups", "outside"])
        if ak == "valid":
            area = rng.sample(range(ntot), min(na, ntot))
        elif ak == "dups":
            area = [rng.randrange(ntot) for _ in range(na)]
        else:
            area = [rng.choice([rng.randrange(ntot), -1, ntot, ntot + 2]) for _ in range(na)]
        msk = [0] * ntot
        for c in area:
            if 0 <= c < ntot and rng.random() < 0.93:
                msk[c] = 1
        if rng.random() < 0.2:
            msk = [rng.choice([0, 1, 1, 2]) for _ in range(ntot)]
        add("c_delineate_boundary", {"nrows": nrows, "ncols": ncols, "nval": len(area)},
            B={"idxcells_area": area, "buffer": [7] * len(area), "catchment_area_mask": msk,
               "idxcells_boundary": [7] * len(area)}, tag=f"cells{len(area)}/{ak}")
        ninl = rng.choice([0, 0, 1, 2])
        nv = rng.choice([0, 1, 2, 3, ntot, ntot + 1, ntot + 3])
        add("c_delineate_area", {"nrows": nrows, "ncols": ncols, "idxoutlet": cells(rng, ntot, 1, 0.85)[0],
                                 "ninlets": ninl, "nval": nv},
            B={"flowdircode": FLOWCODE, "flowdir": fd, "idxinlets": cells(rng, ntot, ninl, 0.9),
               "idxcells_area": [-1] * nv, "buffer1": [-1] * nv, "buffer2": [-1] * nv}, tag=f"nval{min(nv, 4)}")
        add("c_delineate_flowpathlengths_in_catchment",
            {"nrows": nrows, "ncols": ncols, "nval": n, "idxcell_outlet": cells(rng, ntot, 1, 0.85)[0]},
            B={"flowdircode": FLOWCODE, "flowdir": fd, "idxcells_area": cells(rng, ntot, n, 0.85),
               "flowpathlengths": [0.0] * (3 * n)}, tag=f"len{n}")
    return cs
