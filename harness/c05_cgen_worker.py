"""C05 — worker of the ctypes correspondence of the GENERATED kernel models (`harness/c05_cgen.py`).

    python c05_cgen_worker.py <libhykern.so> <cases.json> <results.jsonl> <start>

Calls the compiled kernels of the working tree on the cases `start..` (only inputs on which the generated model
runs without fault are sent here). Every buffer is a ctypes array of exactly the stated extent between two guard
zones filled with a canary; after the call the worker writes one JSON line per case: return value, contents of
every buffer, whether a guard zone was touched. A `B <i>` line before each call attributes a crash to its case.
No hydrodiy import, no numpy.
"""
import ctypes
import json
import sys

CT = {"int": ctypes.c_int, "long long": ctypes.c_longlong}
GUARD = 16
CANARY = {"int": 0x5A5A5A5A, "long long": 0x5A5A5A5A5A5A5A5A}


def main():
    libpath, cases_file, out_file, start = sys.argv[1:5]
    lib = ctypes.CDLL(libpath)
    cases = json.load(open(cases_file))
    out = open(out_file, "a")
    for i in range(int(start), len(cases)):
        c = cases[i]
        out.write(f"B {i}\n")
        out.flush()
        fn = getattr(lib, c["fn"])
        fn.restype = CT[c["ret"]]
        cargs, ctys, bufs = [], [], []
        for a in c["args"]:
            ct = CT[a["t"]]
            if "buf" in a:
                n = len(a["buf"])
                arr = (ct * (n + 2 * GUARD))()
                can = CANARY[a["t"]]
                for k in range(n + 2 * GUARD):
                    arr[k] = can
                for k, v in enumerate(a["buf"]):
                    arr[GUARD + k] = v
                bufs.append((arr, n, can))
                cargs.append(ctypes.cast(ctypes.byref(arr, GUARD * ctypes.sizeof(ct)), ctypes.POINTER(ct)))
                ctys.append(ctypes.POINTER(ct))
            else:
                cargs.append(ct(a["v"]))
                ctys.append(ct)
        fn.argtypes = ctys
        ret = int(fn(*cargs))
        res = {"ret": ret, "bufs": [], "guard": False}
        for arr, n, can in bufs:
            res["bufs"].append([int(arr[GUARD + k]) for k in range(n)])
            if any(int(arr[k]) != can for k in range(GUARD)) or any(int(arr[GUARD + n + k]) != can for k in range(GUARD)):
                res["guard"] = True
        out.write(f"E {i} " + json.dumps(res) + "\n")
        out.flush()
    out.write("Q\n")
    out.close()


if __name__ == "__main__":
    main()
