"""C07 — grid cell numbers, rows/columns and coordinates are mutually consistent.

Model: lean/HydroVerif/Model/C07.lean; lemmas: Lemmas/C07Grid.lean, Lemmas/C07Coord.lean;
theorems: lean/HydroVerif/Props/C07.lean.
Correspondence (bit-exact, Float instance of the model vs the real code through the Python API on the
freshly built extension): `Grid.cell2rowcol`, `Grid.neighbours`, `Grid.cell2coord`, `Grid.coord2cell`,
`Grid.xvalues / yvalues / xlim / ylim`, and the raw helper `getnxy` (ctypes, any sign of its arguments: the
integer core shared with the C06/C11/C16 models). The exact (`Rat`) instance of the model — the one the theorems are
about — is compared with the code on every point / cell inside the property's conditioning region.
Oracle (failing-input search, on the real code only, exact rationals, independent of the model):
floor-based geometry of the footprints, brute-force (row, col) neighbour table, symmetry / mirror,
round trip, flags for invalid cells, axes.
Cases: geometries = branch shapes first (1x1, 1xn, nx1, 2x2, 2x3, 3x2, square, long), then random
nrows, ncols in 1..40; cell size 1e-4..1e4 (powers of two and ten, 0.05, 1/3, random mantissas); origins 0,
integer and fractional multiples of the cell size up to 1e4 cell sizes either side of zero. Per geometry:
every cell (a corner/edge-rich sample of 400 when there are more), invalid cell numbers (-1, n, n+1, -n,
huge), interior points 1e-9..0.5 cell sizes off the cell edges, points exactly on cell / extent edges,
outside points on the 4 sides and 4 diagonals from 1e-9 to 1e6 cells away (one third within one cell of
the extent, where truncation and floor differ and where an off-by-one range test shows), and a few
non-finite / 1e300 points. A case is non-trivial when it is a valid cell, or a point the property
constrains (safely inside a footprint or safely outside the extent).
"""
import json
import math
from fractions import Fraction as F

from . import common as C

PID = "C07"
MARGIN = F(1, 10 ** 9)       # the property's conditioning: 1e-9 relative to the cell size
MAXCELLS = 400


# ---------------------------------------------------------------------------------------------
# generators
def gen_shapes(rng, n):
    shapes = [(1, 1), (1, 2), (2, 1), (1, 7), (7, 1), (2, 2), (2, 3), (3, 2), (3, 3), (5, 7), (7, 5),
              (1, 40), (40, 1), (2, 37), (40, 40), (13, 2), (4, 9)]
    while len(shapes) < n:
        r = rng.random()
        if r < 0.15:
            shapes.append((1, rng.randint(1, 40)) if rng.random() < 0.5 else (rng.randint(1, 40), 1))
        elif r < 0.35:
            shapes.append((rng.randint(1, 6), rng.randint(1, 6)))
        else:
            shapes.append((rng.randint(1, 40), rng.randint(1, 40)))
    return shapes[:n]


def gen_csz(rng):
    r = rng.random()
    if r < 0.15:
        return float(2.0 ** rng.randint(-13, 13))
    if r < 0.30:
        return float(10.0 ** rng.randint(-4, 4))
    if r < 0.40:
        return rng.choice([0.05, 1.0 / 3.0, 0.025, 0.1, 0.01, 250.0, 30.0, 1.0])
    return 10.0 ** rng.uniform(-4.0, 4.0)


def gen_origin(rng, csz):
    r = rng.random()
    if r < 0.15:
        return 0.0
    if r < 0.45:
        return float(rng.randint(-10000, 10000)) * csz
    if r < 0.55:
        return rng.choice([-1.0, 1.0]) * 1e4 * csz
    return rng.uniform(-1e4, 1e4) * csz


def gen_cells(rng, nrows, ncols):
    n = nrows * ncols
    if n <= MAXCELLS:
        cells = list(range(n))
    else:
        s = {0, ncols - 1, n - ncols, n - 1, ncols, ncols + 1, n - ncols - 1, 2 * ncols - 1}
        for _ in range(60):
            s.add(rng.randrange(ncols))                      # top row
            s.add(n - 1 - rng.randrange(ncols))              # bottom row
            s.add(rng.randrange(nrows) * ncols)              # left column
            s.add(rng.randrange(nrows) * ncols + ncols - 1)  # right column
        while len(s) < MAXCELLS:
            s.add(rng.randrange(n))
        cells = sorted(s)
    invalid = [-1, -2, n, n + 1, -n, 2 * n, n + ncols, -ncols, 10 ** 12, -(10 ** 12), 2 ** 62,
               rng.randint(n, 10 * n + 5), -rng.randint(1, 10 * n + 5)]
    return cells, invalid


OFFS_IN = [1e-9, 2e-9, 1e-6, 0.25, 0.5, 0.75, 1 - 1e-6, 1 - 2e-9, 1 - 1e-9]
DIST_NEAR = [1e-9, 2e-9, 1e-6, 1e-3, 0.3, 0.5, 0.9, 0.999999, 1 - 1e-9]
DIST_FAR = [1.0, 1 + 1e-9, 1.5, 2.0, 3.7, 10.0, 1e3, 1e6]


def gen_points(rng, nrows, ncols, xll, yll, csz, cells, npts_in, npts_out):
    """-> list of (x, y, tag)"""
    pts = []
    n = nrows * ncols
    corner_cells = [0, ncols - 1, n - ncols, n - 1]
    # inside
    for i in range(npts_in):
        c = corner_cells[i] if i < 4 else rng.choice(cells)
        row, col = divmod(c, ncols)
        u = rng.choice(OFFS_IN) if rng.random() < 0.6 else rng.uniform(1e-9, 1 - 1e-9)
        v = rng.choice(OFFS_IN) if rng.random() < 0.6 else rng.uniform(1e-9, 1 - 1e-9)
        pts.append((xll + csz * (col + u), yll + csz * (nrows - 1 - row + v), "inside"))
    # exactly on edges (no oracle verdict within the margin; correspondence only)
    for _ in range(6):
        c = rng.choice(cells)
        row, col = divmod(c, ncols)
        ex = rng.choice([0, 1])
        ey = rng.choice([0, 1, 0.5])
        pts.append((xll + csz * (col + ex), yll + csz * (nrows - 1 - row + ey), "edge"))
    pts.append((xll, yll, "edge"))
    pts.append((xll + ncols * csz, yll + nrows * csz, "edge"))
    pts.append((xll + ncols * csz, yll + 0.5 * csz, "edge"))
    pts.append((xll + 0.5 * csz, yll + nrows * csz, "edge"))
    # outside: side codes sx, sy in {-1, 0, 1}, not both 0
    sides = [(-1, 0), (1, 0), (0, -1), (0, 1), (-1, -1), (-1, 1), (1, -1), (1, 1)]
    for i in range(npts_out):
        sx, sy = sides[i % 8]

        def dist():
            r = rng.random()
            if r < 0.40:
                return rng.choice(DIST_NEAR)
            if r < 0.55:
                return rng.uniform(0.0, 1.0)
            if r < 0.75:
                return rng.choice(DIST_FAR)
            return 10.0 ** rng.uniform(-9.0, 6.0)

        def coord(s, lo, ncell):
            if s == 0:
                return lo + csz * rng.uniform(0.0, ncell)      # anywhere along the extent
            if s < 0:
                return lo - csz * dist()
            return lo + csz * (ncell + dist())
        pts.append((coord(sx, xll, ncols), coord(sy, yll, nrows), f"outside{sx:+d}{sy:+d}"))
    # non-finite and huge (x86-64 conversion of out-of-range doubles; outside by any reading)
    if rng.random() < 0.3:
        big = rng.choice([float("inf"), float("-inf"), 1e300, -1e300, float("nan")])
        mid = (xll + 0.5 * csz, yll + 0.5 * csz)
        pts.append((big, mid[1], "nonfinite"))
        pts.append((mid[0], big, "nonfinite"))
    return pts


# ---------------------------------------------------------------------------------------------
# exact geometry (oracle side)
class Exact:
    def __init__(self, nrows, ncols, xll, yll, csz):
        self.nrows, self.ncols = nrows, ncols
        self.xll, self.yll, self.csz = F(xll), F(yll), F(csz)

    def classify(self, x, y):
        """-> (kind, expected, strip) with kind in inside / outside / edgezone / nonfinite"""
        if not (math.isfinite(x) and math.isfinite(y)):
            return "nonfinite", None, False
        qx = (F(x) - self.xll) / self.csz
        qy = (F(y) - self.yll) / self.csz
        nc, nr = self.ncols, self.nrows
        if qx <= -MARGIN or qx >= nc + MARGIN or qy <= -MARGIN or qy >= nr + MARGIN:
            strip = (qx < 0 or qy < 0) and -1 < qx < nc and -1 < qy < nr
            return "outside", -1, strip
        fx, fy = math.floor(qx), math.floor(qy)
        if min(qx - fx, fx + 1 - qx, qy - fy, fy + 1 - qy) >= MARGIN and 0 <= fx < nc and 0 <= fy < nr:
            return "inside", (nr - 1 - fy) * nc + fx, False
        return "edgezone", None, False

    def centre(self, c):
        row, col = divmod(c, self.ncols)
        return (self.xll + self.csz * F(2 * col + 1, 2),
                self.yll + self.csz * F(2 * (self.nrows - 1 - row) + 1, 2))

    def tol(self, c):
        """rounding budget of xll + csz*(k+0.5): three roundings, each half an ulp of a term bounded below"""
        row, col = divmod(c, self.ncols)
        tx = abs(self.xll) + abs(self.csz) * (col + 1)
        ty = abs(self.yll) + abs(self.csz) * (self.nrows - row)
        return 4 * tx * F(1, 2 ** 52), 4 * ty * F(1, 2 ** 52)


def expected_neighbours(nrows, ncols, c):
    row, col = divmod(c, ncols)
    out = []
    for k in range(9):
        r, cc = row + k // 3 - 1, col + k % 3 - 1
        out.append(-1 if (k == 4 or r < 0 or r >= nrows or cc < 0 or cc >= ncols) else r * ncols + cc)
    return out


def geom_tok(nrows, ncols, xll, yll, csz):
    return f"{nrows} {ncols} {C.f2h(xll)} {C.f2h(yll)} {C.f2h(csz)}"


def geom_tok_q(nrows, ncols, xll, yll, csz):
    return f"{nrows} {ncols} {C.rat(xll)} {C.rat(yll)} {C.rat(csz)}"


def pairs_tok(rows, fmt):
    return "[" + ";".join(f"{fmt(a)},{fmt(b)}" for a, b in rows) + "]"


# ---------------------------------------------------------------------------------------------
def run_geometry(ctx, st, nrows, ncols, xll, yll, csz, cells, invalid, pts, origin="gen"):
    """calls the real code, queues the model requests, runs the oracle"""
    import numpy as np
    from hydrodiy.gis.grid import Grid
    gd = {"nrows": nrows, "ncols": ncols, "xll": xll, "yll": yll, "csz": csz}
    g = Grid("c07", ncols=ncols, nrows=nrows, cellsize=csz, xllcorner=xll, yllcorner=yll)
    ex = Exact(nrows, ncols, xll, yll, csz)
    gt = geom_tok(nrows, ncols, xll, yll, csz)
    gq = geom_tok_q(nrows, ncols, xll, yll, csz)
    n = nrows * ncols
    allcells = list(cells) + list(invalid)

    # ---- cell2rowcol
    rc = g.cell2rowcol(allcells)
    st.add(f"rowcol {nrows} {ncols} {C.ilist(allcells)}", pairs_tok(rc.tolist(), str), {"geom": gd, "fn": "cell2rowcol"})
    for c, (r, k) in zip(allcells, rc.tolist()):
        valid = 0 <= c < n
        ctx.count(("rc", gt, c), valid, "rowcol/valid" if valid else "rowcol/invalid")
        if valid and (r, k) != divmod(c, ncols):
            ctx.finding("cell2rowcol/wrong_rowcol", "cell2rowcol does not return (cell div ncols, cell mod ncols)",
                        {"geom": gd, "cell": c, "got": [r, k], "expected": list(divmod(c, ncols))})
        if not valid and (r, k) != (-1, -1):
            ctx.finding("invalid_cell/not_flagged/cell2rowcol", "an invalid cell number is given a row/column",
                        {"geom": gd, "cell": c, "got": [r, k]})

    # ---- cell2coord
    xy = g.cell2coord(allcells)
    st.add(f"c2c {gt} {C.ilist(allcells)}", pairs_tok(xy.tolist(), C.f2h), {"geom": gd, "fn": "cell2coord"})
    st.addq(f"c2cQ {gq} {C.ilist(allcells)}", ("centres", ex, allcells, xy.tolist(), gd))
    for c, (x, y) in zip(allcells, xy.tolist()):
        valid = 0 <= c < n
        ctx.count(("c2c", gt, c), valid, "cell2coord/valid" if valid else "cell2coord/invalid")
        if valid:
            cx, cy = ex.centre(c)
            tx, ty = ex.tol(c)
            if not (math.isfinite(x) and math.isfinite(y)) or abs(F(x) - cx) > tx or abs(F(y) - cy) > ty:
                ctx.finding("cell2coord/not_centre", "cell2coord is not the centre of the cell footprint",
                            {"geom": gd, "cell": c, "got": [x, y], "expected": [float(cx), float(cy)]})
        elif not (x != x and y != y):
            ctx.finding("invalid_cell/not_flagged/cell2coord", "an invalid cell number is given coordinates",
                        {"geom": gd, "cell": c, "got": [x, y]})
    # round trip on the real code
    back = g.coord2cell(xy[:len(cells)]).tolist()
    for c, b in zip(cells, back):
        ctx.count(("rt", gt, c), True, "roundtrip")
        if b != c:
            ctx.finding("cell2coord/roundtrip", "coord2cell(cell2coord(c)) differs from c",
                        {"geom": gd, "cell": c, "got": b})

    # ---- neighbours
    nbs, reps = {}, []
    held = {}   # the arrays as returned, kept alive: an answer must not change when other cells are queried later

    def nb_of(c):
        if c not in nbs:
            try:
                held[c] = g.neighbours(c)
                nbs[c] = [int(v) for v in held[c]]
            except ValueError as e:
                nbs[c] = "err:badCell" if "c_hydrodiy_gis.neighbours returns" in str(e) else "err:other:" + str(e)
        return nbs[c]
    for c in allcells:
        r = nb_of(c)
        valid = 0 <= c < n
        reps.append(r if isinstance(r, str) else "ok:" + C.ilist(r))
        ctx.count(("nb", gt, c), valid, "neighbours/valid" if valid else "neighbours/invalid")
        if valid:
            want = expected_neighbours(nrows, ncols, c)
            if r != want:
                ctx.finding("neighbours/wrong_entry", "neighbour vector differs from the (row, col) neighbour table",
                            {"geom": gd, "cell": c, "got": r, "expected": want})
        elif not isinstance(r, str):
            ctx.finding("invalid_cell/not_flagged/neighbours", "an invalid cell number is given neighbours",
                        {"geom": gd, "cell": c, "got": r})
    st.add(f"nb {nrows} {ncols} {C.ilist(allcells)}", ";".join(reps), {"geom": gd, "fn": "neighbours"})
    for c, arr in held.items():
        if [int(v) for v in arr] != nbs[c]:
            ctx.finding("neighbours/answer_changed_by_later_call", "the array returned by neighbours(c) changed after querying other cells",
                        {"geom": gd, "cell": c, "first": nbs[c], "now": [int(v) for v in arr]})
            break
    for c in cells:
        r = nb_of(c)
        if isinstance(r, str):
            continue
        for k, d in enumerate(r):
            if d == -1:
                continue
            rd = nb_of(d) if 0 <= d < n else "invalid"
            if isinstance(rd, str) or rd[8 - k] != c:
                ctx.finding("neighbours/not_symmetric", "neighbour relation is not symmetric with mirrored position 8-k",
                            {"geom": gd, "cell": c, "k": k, "neighbour": d, "back": rd})

    # ---- coord2cell
    if pts:
        arr = np.array([[p[0], p[1]] for p in pts], dtype=np.float64)
        got = g.coord2cell(arr).tolist()
        st.add(f"xy2c {gt} {pairs_tok([(p[0], p[1]) for p in pts], C.f2h)}", C.ilist(got),
               {"geom": gd, "fn": "coord2cell", "points": [[p[0], p[1]] for p in pts]})
        exact_pts, exact_got = [], []
        for (x, y, tag), cell in zip(pts, got):
            kind, want, strip = ex.classify(x, y)
            ctx.count(("xy", gt, x, y), kind in ("inside", "outside"), f"coord2cell/{tag}/{kind}",
                      sample={"geom": gd, "point": [x, y], "cell": cell} if origin == "gen" else None)
            case = {"geom": gd, "point": [x, y], "got": cell, "expected": want, "kind": kind}
            if kind == "inside" and cell != want:
                ctx.finding("coord2cell/inside_wrong_cell", "a point inside the footprint of a cell is not mapped to it", case)
            elif kind == "outside" and cell != -1:
                if strip:
                    ctx.finding("coord2cell/left_or_bottom_strip",
                                "a point less than one cell left of / below the extent is mapped to a cell instead of -1", case)
                else:
                    ctx.finding("coord2cell/outside_not_flagged", "a point outside the extent is not mapped to -1", case)
            elif kind in ("edgezone", "nonfinite") and cell != -1 and not 0 <= cell < n:
                ctx.finding("coord2cell/invalid_result", "coord2cell returns a number that is neither -1 nor a cell", case)
            if kind in ("inside", "outside"):
                exact_pts.append((F(x), F(y)))
                exact_got.append(cell)
        if exact_pts:
            st.addq(f"xy2cQ {gq} {pairs_tok(exact_pts, C.rat)}", ("cells", exact_got, gd, exact_pts))

    # ---- axes
    xv, yv = g.xvalues.tolist(), g.yvalues.tolist()
    xl, yl = g.xlim, g.ylim
    st.add(f"axes {gt}", f"{C.flist(xv)} {C.flist(yv)} {C.flist([xl[0], xl[1], yl[0], yl[1]])}", {"geom": gd, "fn": "axes"})
    ctx.count(("axes", gt), True, "axes")
    okx = len(xv) == ncols and all(abs(F(v) - ex.centre(j)[0]) <= ex.tol(j)[0] for j, v in enumerate(xv))
    oky = len(yv) == nrows and all(abs(F(v) - ex.centre(i * ncols)[1]) <= ex.tol(i * ncols)[1] for i, v in enumerate(yv))
    if not okx or any(b <= a for a, b in zip(xv, xv[1:])):
        ctx.finding("axes/xvalues", "xvalues are not the increasing column centres", {"geom": gd, "got": xv[:5]})
    if not oky or any(b >= a for a, b in zip(yv, yv[1:])):
        ctx.finding("axes/yvalues", "yvalues are not the decreasing row centres", {"geom": gd, "got": yv[:5]})
    if okx and oky and n <= 4 * MAXCELLS:
        grid_pts = np.array([[x, y] for y in yv for x in xv])
        if g.coord2cell(grid_pts).tolist() != list(range(n)):
            ctx.finding("axes/address", "(xvalues[j], yvalues[i]) is not mapped to cell i*ncols+j", {"geom": gd})
    lims = [F(xl[0]), F(xl[1]), F(yl[0]), F(yl[1])]
    wl = [ex.xll, ex.xll + ncols * ex.csz, ex.yll, ex.yll + nrows * ex.csz]
    tl = [0, ex.tol(ncols - 1)[0], 0, ex.tol(0)[1]]
    if any(abs(a - b) > t for a, b, t in zip(lims, wl, tl)):
        ctx.finding("axes/lims", "xlim/ylim are not the extent of the grid", {"geom": gd, "got": [float(v) for v in lims]})


class Stream:
    def __init__(self):
        self.reqs, self.impls, self.cases = [], [], []
        self.qreqs, self.qinfo = [], []

    def add(self, req, impl, case):
        self.reqs.append(req)
        self.impls.append(impl)
        self.cases.append(case)

    def addq(self, req, info):
        self.qreqs.append(req)
        self.qinfo.append(info)


def parse_rat(tok):
    return None if tok == "none" else F(tok)


def body(ctx):
    rng = ctx.rng
    st = Stream()

    # ---- replay of a recorded case / corpus first
    prior = []
    if getattr(ctx, "replay", None) and isinstance(ctx.replay.get("case"), dict) and "geom" in ctx.replay["case"]:
        prior.append(ctx.replay["case"])
    cdir = C.ROOT / "corpus" / PID
    if cdir.is_dir():
        for f in sorted(cdir.glob("*.json")):
            prior.append(json.loads(f.read_text()))
    for case in prior:
        gd = case["geom"]
        pts = [(float(p[0]), float(p[1]), "corpus") for p in case.get("points", [])]
        if "point" in case:
            pts.append((float(case["point"][0]), float(case["point"][1]), "corpus"))
        cells = [int(c) for c in case.get("cells", [])] + ([int(case["cell"])] if "cell" in case else [])
        n = gd["nrows"] * gd["ncols"]
        run_geometry(ctx, st, gd["nrows"], gd["ncols"], float(gd["xll"]), float(gd["yll"]), float(gd["csz"]),
                     [c for c in cells if 0 <= c < n], [c for c in cells if not 0 <= c < n], pts, origin="corpus")

    # ---- the raw helper getnxy (shared integer core used by the C06/C11/C16 models): C truncated % and /,
    #      any sign of cell number and ncols (ncols = 0 is a SIGFPE in C and is not called)
    import ctypes
    kern = ctypes.CDLL(str(ctx.native / "libhykern.so"))
    kern.getnxy.restype = ctypes.c_longlong
    kern.getnxy.argtypes = [ctypes.c_longlong, ctypes.c_longlong, ctypes.POINTER(ctypes.c_longlong)]
    buf = (ctypes.c_longlong * 2)()
    for it in range(ctx.scale(120, 1200)):
        nc = rng.choice([1, 2, 3, 7, -1, -3]) if it < 12 else rng.choice([-1, 1]) * rng.randint(1, 40)
        cs = [0, 1, -1, nc, -nc, nc - 1, nc + 1] + [rng.randint(-2000, 2000) for _ in range(20)]
        out = []
        for c in cs:
            kern.getnxy(nc, c, buf)
            out.append((int(buf[0]), int(buf[1])))
            ctx.count(("getnxy", nc, c), c >= 0 and nc > 0, "getnxy/" + ("nonneg" if c >= 0 and nc > 0 else "signed"))
            if c >= 0 and nc > 0 and (out[-1][1], out[-1][0]) != divmod(c, nc):
                ctx.finding("getnxy/wrong_rowcol", "getnxy is not (cell mod ncols, cell div ncols)", {"ncols": nc, "cell": c, "got": list(out[-1])})
        st.add(f"getnxy {nc} {C.ilist(cs)}", pairs_tok(out, str), {"fn": "getnxy", "ncols": nc})

    # ---- generated geometries
    ngeom = ctx.scale(300, 3000)
    for (nrows, ncols) in gen_shapes(rng, ngeom):
        csz = gen_csz(rng)
        xll, yll = gen_origin(rng, csz), gen_origin(rng, csz)
        cells, invalid = gen_cells(rng, nrows, ncols)
        pts = gen_points(rng, nrows, ncols, xll, yll, csz, cells, 40, 40)
        run_geometry(ctx, st, nrows, ncols, xll, yll, csz, cells, invalid, pts)

    # ---- correspondence: Float instance, bit-exact
    replies = ctx.lean.ask(st.reqs)
    for req, impl, rep, case in zip(st.reqs, st.impls, replies, st.cases):
        if impl != rep and case.get("fn") == "coord2cell":
            # narrow the disagreement to the first differing point
            a, b = C.parse_list(impl), C.parse_list(rep)
            for p, u, v in zip(case["points"], a, b):
                if u != v:
                    case = {"geom": case["geom"], "fn": "coord2cell", "point": p}
                    impl, rep = u, v
                    req = req.split(" ")[0]
                    break
        ctx.compare("C07", {"request": req[:300], **{k: v for k, v in case.items() if k != "points"}}, impl[:2000], rep[:2000])

    # ---- exact instance (the one the theorems are about) vs the code, inside the conditioning region
    qreplies = ctx.lean.ask(st.qreqs)
    for req, info, rep in zip(st.qreqs, st.qinfo, qreplies):
        if info[0] == "cells":
            _, got, gd, pts = info
            model = [int(t) for t in C.parse_list(rep)]
            for p, a, b in zip(pts, got, model):
                if a != b:
                    ctx.disagree("C07: code differs from the exact (Rat) model on a point at least 1e-9 cell sizes off every edge",
                                 {"geom": gd, "point": [float(p[0]), float(p[1])], "impl": a, "model": b})
        else:
            _, ex, cells, xy, gd = info
            body_ = rep.strip()[1:-1]
            rows = [r.split(",") for r in body_.split(";")] if body_ else []
            for c, (x, y), (mx, my) in zip(cells, xy, rows):
                mx, my = parse_rat(mx), parse_rat(my)
                if mx is None:
                    ok = x != x and y != y
                else:
                    tx, ty = ex.tol(c)
                    ok = x == x and y == y and abs(F(x) - mx) <= tx and abs(F(y) - my) <= ty
                if not ok:
                    ctx.disagree("C07: cell2coord differs from the exact (Rat) model beyond the rounding budget",
                                 {"geom": gd, "cell": c, "impl": [x, y], "model": [str(mx), str(my)]})

    ctx.extra["rule"] = __doc__.split("Cases:")[1].strip()
    ctx.extra["geometries"] = ngeom
    ctx.assumptions += [
        "theorems are over an ordered field with floor (exact arithmetic); IEEE rounding is covered by the bit-exact "
        "Float correspondence and by comparing the code with the exact model on points >= 1e-9 cell sizes off every edge",
        "cell size > 0, nrows, ncols >= 1 (the property's quantifier); numpy argument conversion (atleast_1d/2d, astype) not modelled",
        "conversion of NaN / out-of-range doubles to long long is the x86-64 one (INT64_MIN); it only decides non-finite points",
    ]


def main(tier, replay=None):
    return C.run_check(PID, tier, body, needs_native=True, replay=replay,
                       trusted=["numpy array conversion in the Grid wrappers (external)",
                                "x86-64 double -> long long conversion for NaN/out-of-range values (modelled, compiler-specific)"])
