"""C07 — grid cell numbers, rows/columns and coordinates are mutually consistent.

Models: lean/HydroVerif/Model/C07.lean, Model/C07Kernel.lean (c_coord2cell as written now, request-level wrappers),
Model/C07Round.lean (both coordinate kernels with the rounding of every arithmetic result explicit; round53 = IEEE double
rounding on exact rationals), Model/C07State.lean (constructor, request shapes, the grid object as a state machine);
lemmas: Lemmas/C07Grid.lean, Lemmas/C07Coord.lean, Lemmas/C07Kernel.lean, Lemmas/C07Round.lean;
theorems: lean/HydroVerif/Props/C07.lean.
Round 7 additions to the correspondence: the Rat/round53 instance of the rounded kernels is compared with the code (cells
on every finite point, edges included; centres as rationals): on the unchanged tree they are equal on every one (evidence
keys round53_model/*); a centre within the coordinate budget / a cell for a point within 1e-9 cell sizes of an edge may
differ (another evaluation order: recorded), anything else is a disagreement. round53 itself is compared with correctly
rounded divisions, and the proved error bounds (quotientsR_error, cell2coordR_error, u = 2^-53) are evaluated on the
doubles (standard_model/* in the evidence); every call history is also sent whole to the model's state machine (`hist`: all answers + final attributes);
the constructor (`mk`) and the request shapes (`shape`) are compared. Requests OUTSIDE the property's quantifier
(zero / negative dimensions, cell size <= 0, request shapes the wrappers refuse) are compared with the model for the
evidence only (outside_quantifier/* counts), never an alarm; grids without cells are asked in a child process.
Correspondence (Float instance of the model vs the real code through the Python API on the freshly built
extension; cell numbers, rows/columns, neighbours and error kinds exactly, coordinates bit-equal or within the coordinate budget = max(1e-9 cell sizes, 16 ulp of the largest coordinate of
the extent) — the unchanged tree is bit-equal, the count of non-bit-equal replies is in the evidence): `Grid.cell2rowcol`, `Grid.neighbours`, `Grid.cell2coord`, `Grid.coord2cell`,
`Grid.xvalues / yvalues / xlim / ylim`, and the raw helper `getnxy` (ctypes, any sign of its arguments: the
integer core shared with the C06/C11/C16 models). The exact (`Rat`) instance of the model — the one the theorems are
about — is compared with the code on every point / cell inside the property's conditioning region.
Oracle (failing-input search, on the real code only, exact rationals, independent of the model):
floor-based geometry of the footprints, brute-force (row, col) neighbour table, symmetry / mirror,
round trip, flags for invalid cells, axes.
Cases: geometries = branch shapes first (1x1, 1xn, nx1, 2x2, 2x3, 3x2, square, long), then random
nrows, ncols in 1..40; cell size 1e-4..1e4 (powers of two and ten, 0.05, 1/3, random mantissas); origins 0,
integer and fractional multiples of the cell size up to 1e4 cell sizes either side of zero. Per geometry:
every cell (a corner/edge-rich sample of 400 when there are more), invalid cell numbers (-1, n, n+1, -n,
huge), interior points 1e-9..0.5 cell sizes off the cell edges, points exactly on cell / extent edges,
outside points on the 4 sides and 4 diagonals from 1e-9 to 1e6 cells away (one third within one cell of
the extent, where truncation and floor differ and where an off-by-one range test shows), and a few
non-finite / 1e300 points. Request shapes: besides the base request, every vectorised entry point (cell2rowcol,
cell2coord, coord2cell) is called with requests of length ncells, ncells-1, ncells+1, 1 and 2 with arbitrary
content (shuffled / reversed / repeated cells, invalid numbers mixed in, points drawn with repeats) and with bare
scalars, each element checked. State histories (40% of the geometries): the grid is constructed with another
geometry, optionally used and/or cloned, and 1..5 of the public attributes xllcorner, yllcorner, cellsize, nrows,
ncols are re-assigned (python or numpy scalars) to reach the geometry under test; model, oracle and a bit-for-bit
cross-check against freshly constructed grids (constructor and from_dict(to_dict)) all refer to the NEW geometry.
Call histories on ONE grid object (500 / 5000 per run,
grids 1x1 .. 6x6): 2..8 steps of call -> (fill the returned array in place | overwrite the numpy input array in place
with other content of the same length | re-assign attributes, equal-size re-assignments included: transpose, other
factorisation of ncells, origin shifted by whole cells | other arguments of the same length | clone / deepcopy /
pickle round trip) -> the same call again or another one, for every entry point (cell2rowcol, cell2coord,
coord2cell, neighbours, xvalues/yvalues/xlim/ylim); every answer is compared with the model and the oracle for
the geometry and argument content of that moment, and every array returned earlier must keep its value. Numbers
beyond int64 must be refused or flagged. The robustness theorems' hypothesis (double quotient within 1e-9 cell
sizes of the exact one) is measured on every constrained point.
Wide / tall / large shapes (700 / 4000 per run): column or row counts 41..65536 (every count 41..300 in turn, then
log-uniform, powers of two and ten and their neighbours; a few grids large on both axes), on the cells where the row /
column split is decided: first, second, last, middle cell of the first, second, last, middle and random rows and their
neighbours across the row ends, with inside / outside points at those cells. Shapes no array can be allocated for
(250 / 1500 per run, nrows, ncols up to 2^45, ncells <= 2^61) through the extension module's functions called
directly (the route Grid.* takes), same cells; points only where the double quotient still resolves 1e-9 cell sizes.
The raw getnxy: ncols up to 2^45 either sign, cells k*ncols-1, k*ncols, k*ncols+1 for small, random and huge k (to 2^61).
Call histories also contain runs of neighbours calls (sweeps over consecutive cells across row ends, restarts,
rejected numbers -1 / ncells / ... in between) and requests on a SECOND live grid that shares ncols / nrows / ncells
with the first, after which the first grid is asked again. Constructor: every combination of omitted optional
arguments (nrows=None -> square, cellsize 1, origin 0). Request shapes: scalar, 1-d, pair, [n,2] (answered, checked
element-wise) and 13 other shapes (evidence only).
A case is non-trivial when it is a valid cell, or a point the property
constrains (safely inside a footprint or safely outside the extent).
"""
import json
import math
import warnings
from fractions import Fraction as F

from . import common as C

PID = "C07"
MARGIN = F(1, 10 ** 9)       # the property's conditioning: 1e-9 relative to the cell size
MAXCELLS = 400
U53 = F(1, 2 ** 53)                          # unit roundoff of IEEE double, round to nearest
QUOT_BUDGET = 2 * U53 + U53 ** 2             # quotBudget u   of Lemmas/C07Round.lean
CENTRE_BUDGET = 3 * U53 + 3 * U53 ** 2 + U53 ** 3   # centreBudget u


# ---------------------------------------------------------------------------------------------
# generators
def gen_shapes(rng, n):
    shapes = [(1, 1), (1, 2), (2, 1), (1, 7), (7, 1), (2, 2), (2, 3), (3, 2), (3, 3), (5, 7), (7, 5),
              (1, 40), (40, 1), (2, 37), (40, 40), (13, 2), (4, 9)]
    while len(shapes) < n:
        r = rng.random()
        if r < 0.15:
            shapes.append((1, rng.randint(1, 40)) if rng.random() < 0.5 else (rng.randint(1, 40), 1))
        elif r < 0.35:
            shapes.append((rng.randint(1, 6), rng.randint(1, 6)))
        else:
            shapes.append((rng.randint(1, 40), rng.randint(1, 40)))
    return shapes[:n]


def gen_csz(rng):
    r = rng.random()
    if r < 0.15:
        return float(2.0 ** rng.randint(-13, 13))
    if r < 0.30:
        return float(10.0 ** rng.randint(-4, 4))
    if r < 0.40:
        return rng.choice([0.05, 1.0 / 3.0, 0.025, 0.1, 0.01, 250.0, 30.0, 1.0])
    return 10.0 ** rng.uniform(-4.0, 4.0)


def gen_origin(rng, csz):
    r = rng.random()
    if r < 0.15:
        return 0.0
    if r < 0.45:
        return float(rng.randint(-10000, 10000)) * csz
    if r < 0.55:
        return rng.choice([-1.0, 1.0]) * 1e4 * csz
    return rng.uniform(-1e4, 1e4) * csz


def gen_cells(rng, nrows, ncols):
    n = nrows * ncols
    if n <= MAXCELLS:
        cells = list(range(n))
    else:
        s = {0, ncols - 1, n - ncols, n - 1, ncols, ncols + 1, n - ncols - 1, 2 * ncols - 1}
        for _ in range(60):
            s.add(rng.randrange(ncols))                      # top row
            s.add(n - 1 - rng.randrange(ncols))              # bottom row
            s.add(rng.randrange(nrows) * ncols)              # left column
            s.add(rng.randrange(nrows) * ncols + ncols - 1)  # right column
        while len(s) < MAXCELLS:
            s.add(rng.randrange(n))
        cells = sorted(s)
    invalid = [-1, -2, n, n + 1, -n, 2 * n, n + ncols, -ncols, 10 ** 12, -(10 ** 12), 2 ** 62,
               rng.randint(n, 10 * n + 5), -rng.randint(1, 10 * n + 5)]
    return cells, invalid


def gen_sweep_shapes(rng, n):
    """wide, tall and large shapes: column / row counts far beyond the 1..40 of gen_shapes (every count 41..300 in
    turn, then log-uniform up to 65536, powers of two and ten and their neighbours), with few rows / columns on the
    other axis so that the grid stays small; a few grids large on both axes"""
    special = sorted({2 ** k + d for k in range(6, 17) for d in (-1, 0, 1)} | {10 ** k + d for k in (2, 3, 4) for d in (-1, 0, 1)}
                     | {49, 98, 103, 107, 161, 187, 196, 197, 255, 360, 720, 1440, 3600, 43200})
    out = []
    i = 0
    while len(out) < n:
        r = rng.random()
        if i < 260:
            big = 41 + i                                   # every count 41..300, in turn
        elif r < 0.15:
            big = rng.choice(special)
        elif r < 0.40:
            big = rng.randint(41, 1000)
        else:
            big = int(2.0 ** rng.uniform(math.log2(300.0), 16.0))
        small = rng.choice([1, 2, 2, 3, 4, 5, 6, rng.randint(2, 12)])
        r = rng.random()
        if r < 0.6:
            out.append((small, big))                       # wide
        elif r < 0.9:
            out.append((big, small))                       # tall
        else:
            out.append((rng.randint(41, 700), min(big, 700)))   # large on both axes
        i += 1
    return out[:n]


def gen_huge_shapes(rng, n):
    """shapes no data array can be allocated for (answered through the extension module's functions directly):
    nrows, ncols up to 2^45 with nrows*ncols <= 2^61 (every row and column number is an exact double)"""
    out = [(3, 2 ** 31), (2 ** 31, 3), (2 ** 31 - 1, 2 ** 30 + 1), (70000, 70000), (2, 2 ** 32 + 1), (2 ** 16 + 1, 2 ** 16 + 1),
           (5, 10 ** 9), (46341, 46341)]
    while len(out) < n:
        a = int(2.0 ** rng.uniform(1.0, 45.0))
        b = int(2.0 ** rng.uniform(0.0, min(45.0, 61.0 - math.log2(a))))
        a, b = max(1, a + rng.choice([-1, 0, 0, 1])), max(1, b + rng.choice([-1, 0, 0, 1]))
        if a * b > 2 ** 61:
            continue
        out.append((a, b) if rng.random() < 0.5 else (b, a))
    return out[:n]


def gen_boundary_cells(rng, nrows, ncols, nrand=6):
    """cells where the row / column split is decided: first, second, last and middle cell of the first, second, last,
    middle and a few random rows, and their neighbours across the row ends; invalid numbers around 0 and ncells"""
    n = nrows * ncols
    rows = {0, 1, 2, nrows - 1, nrows - 2, nrows // 2} | {rng.randrange(nrows) for _ in range(nrand)}
    s = {0, n - 1}
    for k in rows:
        for d in (-1, 0, 1, ncols - 2, ncols - 1, ncols // 2, rng.randrange(ncols)):
            s.add(k * ncols + d)
    cells = sorted(c for c in s if 0 <= c < n)
    invalid = [-1, -2, n, n + 1, -n, 2 * n, n + ncols, -ncols, rng.randint(n, 4 * n + 5), -rng.randint(1, 4 * n + 5)]
    return cells, invalid


OFFS_IN = [1e-9, 2e-9, 1e-6, 0.25, 0.5, 0.75, 1 - 1e-6, 1 - 2e-9, 1 - 1e-9]
DIST_NEAR = [1e-9, 2e-9, 1e-6, 1e-3, 0.3, 0.5, 0.9, 0.999999, 1 - 1e-9]
DIST_FAR = [1.0, 1 + 1e-9, 1.5, 2.0, 3.7, 10.0, 1e3, 1e6]


def gen_points(rng, nrows, ncols, xll, yll, csz, cells, npts_in, npts_out):
    """-> list of (x, y, tag)"""
    pts = []
    n = nrows * ncols
    corner_cells = [0, ncols - 1, n - ncols, n - 1]
    # inside
    for i in range(npts_in):
        c = corner_cells[i] if i < 4 else rng.choice(cells)
        row, col = divmod(c, ncols)
        u = rng.choice(OFFS_IN) if rng.random() < 0.6 else rng.uniform(1e-9, 1 - 1e-9)
        v = rng.choice(OFFS_IN) if rng.random() < 0.6 else rng.uniform(1e-9, 1 - 1e-9)
        pts.append((xll + csz * (col + u), yll + csz * (nrows - 1 - row + v), "inside"))
    # exactly on edges (no oracle verdict within the margin; correspondence only)
    for _ in range(6):
        c = rng.choice(cells)
        row, col = divmod(c, ncols)
        ex = rng.choice([0, 1])
        ey = rng.choice([0, 1, 0.5])
        pts.append((xll + csz * (col + ex), yll + csz * (nrows - 1 - row + ey), "edge"))
    pts.append((xll, yll, "edge"))
    pts.append((xll + ncols * csz, yll + nrows * csz, "edge"))
    pts.append((xll + ncols * csz, yll + 0.5 * csz, "edge"))
    pts.append((xll + 0.5 * csz, yll + nrows * csz, "edge"))
    # outside: side codes sx, sy in {-1, 0, 1}, not both 0
    sides = [(-1, 0), (1, 0), (0, -1), (0, 1), (-1, -1), (-1, 1), (1, -1), (1, 1)]
    for i in range(npts_out):
        sx, sy = sides[i % 8]

        def dist():
            r = rng.random()
            if r < 0.40:
                return rng.choice(DIST_NEAR)
            if r < 0.55:
                return rng.uniform(0.0, 1.0)
            if r < 0.75:
                return rng.choice(DIST_FAR)
            return 10.0 ** rng.uniform(-9.0, 6.0)

        def coord(s, lo, ncell):
            if s == 0:
                return lo + csz * rng.uniform(0.0, ncell)      # anywhere along the extent
            if s < 0:
                return lo - csz * dist()
            return lo + csz * (ncell + dist())
        pts.append((coord(sx, xll, ncols), coord(sy, yll, nrows), f"outside{sx:+d}{sy:+d}"))
    # non-finite and huge (x86-64 conversion of out-of-range doubles; outside by any reading)
    if rng.random() < 0.3:
        big = rng.choice([float("inf"), float("-inf"), 1e300, -1e300, float("nan")])
        mid = (xll + 0.5 * csz, yll + 0.5 * csz)
        pts.append((big, mid[1], "nonfinite"))
        pts.append((mid[0], big, "nonfinite"))
    return pts


# ---------------------------------------------------------------------------------------------
# exact geometry (oracle side)
class Exact:
    def __init__(self, nrows, ncols, xll, yll, csz):
        self.nrows, self.ncols = nrows, ncols
        self.xll, self.yll, self.csz = F(xll), F(yll), F(csz)

    def classify(self, x, y):
        """-> (kind, expected, strip) with kind in inside / outside / edgezone / nonfinite"""
        if not (math.isfinite(x) and math.isfinite(y)):
            return "nonfinite", None, False
        qx = (F(x) - self.xll) / self.csz
        qy = (F(y) - self.yll) / self.csz
        nc, nr = self.ncols, self.nrows
        if qx <= -MARGIN or qx >= nc + MARGIN or qy <= -MARGIN or qy >= nr + MARGIN:
            strip = (qx < 0 or qy < 0) and -1 < qx < nc and -1 < qy < nr
            return "outside", -1, strip
        fx, fy = math.floor(qx), math.floor(qy)
        if min(qx - fx, fx + 1 - qx, qy - fy, fy + 1 - qy) >= MARGIN and 0 <= fx < nc and 0 <= fy < nr:
            return "inside", (nr - 1 - fy) * nc + fx, False
        return "edgezone", None, False

    def centre(self, c):
        row, col = divmod(c, self.ncols)
        return (self.xll + self.csz * F(2 * col + 1, 2),
                self.yll + self.csz * F(2 * (self.nrows - 1 - row) + 1, 2))

    def budget(self):
        """accuracy the property asks of a coordinate: 1e-9 of a cell size, or 16 ulp of the largest coordinate of
        the extent (any evaluation order of xll + csz*(k+0.5) stays within a few ulp of its largest intermediate,
        not of the result), whichever is larger"""
        mag = max(abs(self.xll), abs(self.yll), abs(self.xll + self.ncols * self.csz), abs(self.yll + self.nrows * self.csz))
        return max(16 * mag * F(1, 2 ** 52), abs(self.csz) * MARGIN)

    def tol(self, c=None):
        b = self.budget()
        return b, b


def expected_neighbours(nrows, ncols, c):
    row, col = divmod(c, ncols)
    out = []
    for k in range(9):
        r, cc = row + k // 3 - 1, col + k % 3 - 1
        out.append(-1 if (k == 4 or r < 0 or r >= nrows or cc < 0 or cc >= ncols) else r * ncols + cc)
    return out


def geom_tok(nrows, ncols, xll, yll, csz):
    return f"{nrows} {ncols} {C.f2h(xll)} {C.f2h(yll)} {C.f2h(csz)}"


def geom_tok_q(nrows, ncols, xll, yll, csz):
    return f"{nrows} {ncols} {C.rat(xll)} {C.rat(yll)} {C.rat(csz)}"


def pairs_tok(rows, fmt):
    return "[" + ";".join(f"{fmt(a)},{fmt(b)}" for a, b in rows) + "]"


# ---------------------------------------------------------------------------------------------
# request shapes and state histories
def gen_cell_requests(rng, n, cells, invalid):
    """requests for the vectorised entry points whose LENGTH is n, n-1, n+1, 1, 2 with arbitrary content:
    permutations, reversals, repeats, invalid numbers mixed in -> list of (tag, [cell numbers])"""
    full = n <= MAXCELLS or rng.random() < 0.25
    allc = list(range(n)) if full else None
    bad = list(invalid[:8])
    out = []

    def mixed(L, pbad):
        return [rng.choice(bad) if rng.random() < pbad else (rng.randrange(n)) for _ in range(L)]
    if full:
        perm = allc[:]
        rng.shuffle(perm)
        out.append(("len=n/shuffled", perm))
        out.append(("len=n/reversed", allc[::-1]))
        out.append(("len=n/repeats", mixed(n, 0.0)))
        out.append(("len=n/mixed_invalid", mixed(n, 0.3)))
        if n >= 2:
            drop = perm[:]
            drop.pop(rng.randrange(n))
            out.append(("len=n-1/shuffled", drop))
            out.append(("len=n-1/mixed_invalid", mixed(n - 1, 0.3)))
        ins = allc[:]
        ins.insert(rng.randrange(n + 1), rng.choice(bad + [rng.randrange(n)]))
        out.append(("len=n+1/inserted", ins))
        out.append(("len=n+1/mixed_invalid", mixed(n + 1, 0.3)))
    out.append(("len=1/valid", [rng.randrange(n)]))
    out.append(("len=1/invalid", [rng.choice(bad)]))
    out.append(("len=2/mixed", mixed(2, 0.4)))
    out.append(("len=2/swapped", [n - 1, 0]))
    return out


def gen_point_requests(rng, n, pts):
    """coord2cell requests of n, n-1, n+1, 1, 2 points drawn (with repeats, any order) from the geometry's points"""
    out = []
    for L in sorted({n, n - 1, n + 1, 1, 2}):
        if L < 1 or (L > MAXCELLS + 1 and rng.random() > 0.25):
            continue
        out.append((f"len={'n' if L == n else 'n-1' if L == n - 1 else 'n+1' if L == n + 1 else L}",
                    [rng.choice(pts) for _ in range(L)]))
    return out


GEOM_ATTRS = ["xllcorner", "yllcorner", "cellsize", "nrows", "ncols"]


def gen_history(rng, nrows, ncols, xll, yll, csz):
    """a state history ending in the geometry (nrows, ncols, xll, yll, csz): construct with another geometry,
    optionally use the grid and/or clone it, then re-assign the public geometry attributes (plain attributes
    of Grid; the library's own test_compute_area re-assigns xllcorner / yllcorner on a clone)"""
    final = {"xllcorner": xll, "yllcorner": yll, "cellsize": csz, "nrows": nrows, "ncols": ncols}
    k = rng.choice([1, 1, 2, 2, 3, 5])
    changed = rng.sample(GEOM_ATTRS, k)
    init = dict(final)
    for a in changed:
        for _ in range(20):
            if a == "cellsize":
                v = gen_csz(rng)
            elif a in ("nrows", "ncols"):
                v = rng.randint(1, 40) if rng.random() < 0.7 else rng.randint(1, 3)
            else:
                v = rng.choice([gen_origin(rng, csz), final[a] + csz * rng.choice([-3.0, 0.5, 1.0, 100.0, -0.25])])
            if v != final[a]:
                init[a] = v
                break
    steps = [[a, final[a]] for a in changed if init[a] != final[a]]
    rng.shuffle(steps)
    return {"initial": init, "steps": steps, "clone": rng.choice(["no", "before", "after", "between"]),
            "use_before": rng.random() < 0.6, "use_between": rng.random() < 0.3,
            "numpy_scalars": rng.random() < 0.3}


def use_grid(g):
    """exercise every geometry function once (gives a cache, if there is one, the chance to be filled)"""
    import numpy as np
    g.cell2coord(0), g.cell2rowcol(0), g.neighbours(0), g.coord2cell(np.array([[g.xllcorner, g.yllcorner]]))
    g.xvalues, g.yvalues, g.xlim, g.ylim


def build_grid(gd):
    """the grid under test for the geometry `gd`: freshly constructed, or reached through gd['history']"""
    import numpy as np
    from hydrodiy.gis.grid import Grid
    h = gd.get("history")
    if not h:
        return Grid("c07", ncols=gd["ncols"], nrows=gd["nrows"], cellsize=gd["csz"], xllcorner=gd["xll"], yllcorner=gd["yll"])
    i = h["initial"]
    g = Grid("c07", ncols=i["ncols"], nrows=i["nrows"], cellsize=i["cellsize"], xllcorner=i["xllcorner"], yllcorner=i["yllcorner"])
    if h.get("use_before"):
        use_grid(g)
    if h.get("clone") == "before":
        g = g.clone()
    for j, (attr, val) in enumerate(h["steps"]):
        if h.get("numpy_scalars"):
            val = np.int64(val) if attr in ("nrows", "ncols") else np.float64(val)
        setattr(g, attr, val)
        if j == 0 and len(h["steps"]) > 1:
            if h.get("use_between"):
                use_grid(g)
            if h.get("clone") == "between":
                g = g.clone()
    if h.get("clone") in ("after", "between") and (h.get("clone") == "after" or len(h["steps"]) <= 1):
        g = g.clone()
    return g


class PyxGrid:
    """the geometry entry points answered by the functions of the extension module called directly
    (c_hydrodiy_gis.cell2rowcol / cell2coord / coord2cell / neighbours, the route Grid.* takes after _getsize()):
    no data array is allocated, so nrows and ncols can be anything a long long holds"""

    def __init__(self, nrows, ncols, xll, yll, csz):
        self.nrows, self.ncols, self.xllcorner, self.yllcorner, self.cellsize = nrows, ncols, xll, yll, csz

    def cell2rowcol(self, idxcells):
        import numpy as np
        import c_hydrodiy_gis
        idx = np.ascontiguousarray(np.atleast_1d(idxcells), dtype=np.int64)
        out = np.zeros((len(idx), 2), dtype=np.int64)
        if c_hydrodiy_gis.cell2rowcol(self.nrows, self.ncols, idx, out) > 0:
            raise ValueError("cell2rowcol")
        return out

    def cell2coord(self, idxcells):
        import numpy as np
        import c_hydrodiy_gis
        idx = np.ascontiguousarray(np.atleast_1d(idxcells), dtype=np.int64)
        out = np.zeros((len(idx), 2), dtype=np.float64)
        if c_hydrodiy_gis.cell2coord(self.nrows, self.ncols, self.xllcorner, self.yllcorner, self.cellsize, idx, out) > 0:
            raise ValueError("cell2coord")
        return out

    def coord2cell(self, xycoords):
        import numpy as np
        import c_hydrodiy_gis
        xy = np.ascontiguousarray(np.atleast_2d(xycoords), dtype=np.float64)
        out = np.zeros(len(xy), dtype=np.int64)
        if c_hydrodiy_gis.coord2cell(self.nrows, self.ncols, self.xllcorner, self.yllcorner, self.cellsize, xy, out) > 0:
            raise ValueError("coord2cell")
        return out

    def neighbours(self, idxcell):
        import numpy as np
        import c_hydrodiy_gis
        out = np.zeros(9, dtype=np.int64)
        if c_hydrodiy_gis.neighbours(self.nrows, self.ncols, np.int64(idxcell), out) > 0:
            raise ValueError("neighbours")
        return out


# ---------------------------------------------------------------------------------------------
class Checker:
    """every call into the real code goes through here: it issues the call on grid `g`, queues the same request
    for the model with the geometry `gd` the grid has NOW, and runs the exact oracle on every element"""

    def __init__(self, ctx, st, g, gd, prefix="", extra=None):
        self.ctx, self.st, self.g, self.gd = ctx, st, g, gd
        self.nrows, self.ncols = gd["nrows"], gd["ncols"]
        self.xll, self.yll, self.csz = gd["xll"], gd["yll"], gd["csz"]
        self.n = self.nrows * self.ncols
        self.ex = Exact(self.nrows, self.ncols, self.xll, self.yll, self.csz)
        self.gt = geom_tok(self.nrows, self.ncols, self.xll, self.yll, self.csz)
        self.gq = geom_tok_q(self.nrows, self.ncols, self.xll, self.yll, self.csz)
        self.hb = prefix
        self.extra = extra or {}
        self.centre_ok = {}   # cell -> (x, y) already verified against the exact centre
        self.point_ok = {}    # (x, y) -> exact classification, done once per point

    def case(self, fn, tag):
        return {"geom": self.gd, "fn": fn, "request": tag, **self.extra}

    # ---- cell2rowcol: `req` is the list of cell numbers; `arg` what is handed to the API (default: the list)
    def rowcol(self, req, tag="base", scalar=False, arg=None):
        ctx, n, ncols = self.ctx, self.n, self.ncols
        rc = self.g.cell2rowcol(req[0] if scalar else (req if arg is None else arg))
        case = self.case("cell2rowcol", tag)
        if rc.shape != (len(req), 2):
            ctx.finding("cell2rowcol/shape", "cell2rowcol does not return one (row, col) per requested cell", {**case, "shape": list(rc.shape)})
            return rc
        rows = rc.tolist()
        self.st.add(f"rowcol {self.nrows} {ncols} {C.ilist(req)}", pairs_tok(rows, str), case)
        for c, (r, k) in zip(req, rows):
            valid = 0 <= c < n
            ctx.count(("rc", self.gt, c, tag), valid, f"{self.hb}rowcol/{tag}/" + ("valid" if valid else "invalid"))
            if valid and (r, k) != divmod(c, ncols):
                ctx.finding("cell2rowcol/wrong_rowcol", "cell2rowcol does not return (cell div ncols, cell mod ncols)",
                            {**case, "cell": c, "cells": req[:400], "got": [r, k], "expected": list(divmod(c, ncols))})
            if not valid and (r, k) != (-1, -1):
                ctx.finding("invalid_cell/not_flagged/cell2rowcol", "an invalid cell number is given a row/column",
                            {**case, "cell": c, "cells": req[:400], "got": [r, k]})
        return rc

    # ---- cell2coord
    def c2c(self, req, tag="base", scalar=False, arg=None, exact_model=False):
        ctx, n, ex = self.ctx, self.n, self.ex
        xy = self.g.cell2coord(req[0] if scalar else (req if arg is None else arg))
        case = self.case("cell2coord", tag)
        if xy.shape != (len(req), 2):
            ctx.finding("cell2coord/shape", "cell2coord does not return one (x, y) per requested cell", {**case, "shape": list(xy.shape)})
            return xy
        rows = xy.tolist()
        self.st.add(f"c2c {self.gt} {C.ilist(req)}", pairs_tok(rows, C.f2h), case)
        if exact_model:
            self.st.addq(f"c2cQ {self.gq} {C.ilist(req)}", ("centres", ex, req, rows, self.gd))
            # the same kernel on exact rationals with every arithmetic result rounded to 53 bits: must be the doubles
            self.st.addq(f"c2cR {self.gq} {C.ilist(req)}", ("centresR", req, rows, self.gd))
        for c, (x, y) in zip(req, rows):
            valid = 0 <= c < n
            ctx.count(("c2c", self.gt, c, tag), valid, f"{self.hb}cell2coord/{tag}/" + ("valid" if valid else "invalid"))
            if valid:
                if self.centre_ok.get(c) == (x, y):
                    continue
                cx, cy = ex.centre(c)
                tx, ty = ex.tol(c)
                if not (math.isfinite(x) and math.isfinite(y)) or abs(F(x) - cx) > tx or abs(F(y) - cy) > ty:
                    ctx.finding("cell2coord/not_centre", "cell2coord is not the centre of the cell footprint",
                                {**case, "cell": c, "cells": req[:400], "got": [x, y], "expected": [float(cx), float(cy)]})
                else:
                    self.centre_ok[c] = (x, y)
                    row, col = divmod(c, self.ncols)
                    bx = CENTRE_BUDGET * (abs(ex.xll) + abs(ex.csz) * F(2 * col + 1, 2))
                    by = CENTRE_BUDGET * (abs(ex.yll) + abs(ex.csz) * F(2 * (self.nrows - 1 - row) + 1, 2))
                    # theorem cell2coordR_error evaluated on the code's doubles (u = 2^-53): evidence only — the bound belongs to
                    # the operation order of the model; another (equally good) order may exceed it within the property's budget
                    k = "standard_model/centre_bound_" + ("holds" if abs(F(x) - cx) <= bx and abs(F(y) - cy) <= by else "exceeded_within_property_budget")
                    ctx.hist[k] = ctx.hist.get(k, 0) + 1
            elif not (x != x and y != y):
                ctx.finding("invalid_cell/not_flagged/cell2coord", "an invalid cell number is given coordinates",
                            {**case, "cell": c, "cells": req[:400], "got": [x, y]})
        return xy

    # ---- coord2cell: `req` is a list of (x, y, tag)
    def points(self, req, tag="base", scalar=False, arg=None, exact_model=False, sample=False):
        import numpy as np
        ctx, n, ex = self.ctx, self.n, self.ex
        if scalar:
            arg = [req[0][0], req[0][1]]
        elif arg is None:
            arg = np.array([[p[0], p[1]] for p in req], dtype=np.float64).reshape(len(req), 2)
        res = self.g.coord2cell(arg)
        case0 = self.case("coord2cell", tag)
        if res.shape != (len(req),):
            ctx.finding("coord2cell/shape", "coord2cell does not return one cell per requested point", {**case0, "shape": list(res.shape)})
            return res
        got = res.tolist()
        ptok = pairs_tok([(p[0], p[1]) for p in req], C.f2h)
        plist = [[p[0], p[1]] for p in req]
        self.st.add(f"xy2c {self.gt} {ptok}", C.ilist(got), {**case0, "points": plist})
        if exact_model:
            # the cast-first form imported by C05/C13/C16 must give the same cells as the kernel as written
            self.st.add(f"xy2c_cast {self.gt} {ptok}", C.ilist(got), {**case0, "points": plist, "form": "cast-first"})
        if exact_model:
            self.st.add(f"xy2cRid {self.gt} {ptok}", C.ilist(got), {**case0, "points": plist, "form": "rounded text, rnd = id"})
            fin = [(p[0], p[1], c) for p, c in zip(req, got) if math.isfinite(p[0]) and math.isfinite(p[1])]
            if fin and self.csz != 0:
                self.st.addq(f"xy2cR {self.gq} {pairs_tok([(F(p[0]), F(p[1])) for p in fin], C.rat)}",
                             ("cellsR", [p[2] for p in fin], self.gd, [(p[0], p[1]) for p in fin], ex))
        exact_pts, exact_got, quots, strips = [], [], [], []
        for (x, y, ptag), cell in zip(req, got):
            key = (C.f2h(x), C.f2h(y))
            if key not in self.point_ok:
                self.point_ok[key] = ex.classify(x, y)
            kind, want, strip = self.point_ok[key]
            ctx.count(("xy", self.gt, key, tag), kind in ("inside", "outside"), f"{self.hb}coord2cell/{tag}/{ptag}/{kind}",
                      sample={"geom": self.gd, "point": [x, y], "cell": cell} if sample else None)
            case = {**case0, "point": [x, y], "got": cell, "expected": want, "kind": kind}
            if kind == "inside" and cell != want:
                ctx.finding("coord2cell/inside_wrong_cell", "a point inside the footprint of a cell is not mapped to it", case)
            elif kind == "outside" and cell != -1:
                if strip:
                    ctx.finding("coord2cell/left_or_bottom_strip",
                                "a point less than one cell left of / below the extent is mapped to a cell instead of -1", case)
                else:
                    ctx.finding("coord2cell/outside_not_flagged", "a point outside the extent is not mapped to -1", case)
            elif kind in ("edgezone", "nonfinite") and cell != -1 and not 0 <= cell < n:
                ctx.finding("coord2cell/invalid_result", "coord2cell returns a number that is neither -1 nor a cell", case)
            if exact_model and kind in ("inside", "outside"):
                exact_pts.append((F(x), F(y)))
                exact_got.append(cell)
                quots.append((x, y))
                if strip:
                    strips.append((x, y, cell))
        if strips:
            # the pinned (truncating) kernel model on the left/bottom strip: theorems coord2cellTrunc_*_strip say it
            # returns a cell there; the code (fixed) must not follow it. Counted, never an alarm by itself.
            self.st.addq(f"xy2c_trunc {self.gt} {pairs_tok([(p[0], p[1]) for p in strips], C.f2h)}", ("trunc", [p[2] for p in strips]))
        if exact_pts:
            self.st.addq(f"xy2cQ {self.gq} {pairs_tok(exact_pts, C.rat)}", ("cells", exact_got, self.gd, exact_pts))
            # hypothesis of cellOfQuot_{inside,outside}_of_approx: the double evaluation of the two quotients is
            # within the margin (in cell sizes) of the exact quotients; the model's quotients are the ones checked
            qf = [((x - self.xll) / self.csz, (y - self.yll) / self.csz) for x, y in quots]
            self.st.add(f"quot {self.gt} {pairs_tok(quots, C.f2h)}", pairs_tok(qf, C.f2h), {**case0, "what": "quotients"})
            for (x, y), (qx, qy) in zip(quots, qf):
                worst = F(0)
                for v, q0, lo in ((x, qx, ex.xll), (y, qy, ex.yll)):
                    qe = (F(v) - lo) / ex.csz
                    if abs(qe) > 2 * 10 ** 6 or not math.isfinite(q0):
                        ctx.hist["approx/far_point_not_measured"] = ctx.hist.get("approx/far_point_not_measured", 0) + 1
                        continue
                    worst = max(worst, abs(F(q0) - qe))
                    # theorem quotientsR_error on the doubles themselves: |q' - q| <= (2u + u^2)|q|, u = 2^-53
                    if abs(F(q0) - qe) > QUOT_BUDGET * abs(qe):
                        ctx.disagree("C07: the double quotient is further from the exact one than the standard model of floating "
                                     "point arithmetic allows ((2u+u^2)|q|, u = 2^-53): hypothesis RelErr of the rounded theorems not met",
                                     {**case0, "point": [x, y], "quotient": q0, "exact": float(qe)})
                    ctx.hist["standard_model/quotient_bound_checked"] = ctx.hist.get("standard_model/quotient_bound_checked", 0) + 1
                ctx.extra["max_quotient_error_in_cell_sizes"] = max(ctx.extra.get("max_quotient_error_in_cell_sizes", 0.0), float(worst))
                if worst > MARGIN:
                    ctx.disagree("C07: the double evaluation of (x-xll)/csz is further than 1e-9 cell sizes from the exact quotient "
                                 "(hypothesis of the robustness theorems not met inside the conditioning region)",
                                 {**case0, "point": [x, y], "error": float(worst)})
        return res

    # ---- neighbours of one cell -> canonical reply ("err:badCell" or list) and the array as returned
    def nb(self, c, count=True):
        ctx, n = self.ctx, self.n
        arr = None
        try:
            arr = self.g.neighbours(c)
            r = [int(v) for v in arr]
            if arr.shape != (9,):
                ctx.finding("neighbours/shape", "neighbours does not return 9 entries", {**self.case("neighbours", "base"), "cell": c})
        except ValueError:
            r = "err:badCell"      # the error kind (ValueError) is the observable, not the text of the message
        valid = 0 <= c < n
        if count:
            ctx.count(("nb", self.gt, c), valid, self.hb + ("neighbours/valid" if valid else "neighbours/invalid"))
        case = {**self.case("neighbours", "base"), "cell": c}
        if valid:
            want = expected_neighbours(self.nrows, self.ncols, c)
            if r != want:
                ctx.finding("neighbours/wrong_entry", "neighbour vector differs from the (row, col) neighbour table",
                            {**case, "got": r, "expected": want})
        elif not isinstance(r, str):
            ctx.finding("invalid_cell/not_flagged/neighbours", "an invalid cell number is given neighbours", {**case, "got": r})
        return r, arr

    def nb_model(self, cells, reps):
        self.st.add(f"nb {self.nrows} {self.ncols} {C.ilist(cells)}",
                    ";".join(r if isinstance(r, str) else "ok:" + C.ilist(r) for r in reps), self.case("neighbours", "base"))

    # ---- axes -> the arrays as returned
    def axes(self, address=True):
        import numpy as np
        ctx, ex, n, nrows, ncols, g, gd = self.ctx, self.ex, self.n, self.nrows, self.ncols, self.g, self.gd
        xva, yva = g.xvalues, g.yvalues
        xv, yv = xva.tolist(), yva.tolist()
        xl, yl = g.xlim, g.ylim
        lims = [float(xl[0]), float(xl[1]), float(yl[0]), float(yl[1])]
        self.st.add(f"axes {self.gt}", f"{C.flist(xv)} {C.flist(yv)} {C.flist(lims)}", self.case("axes", "base"))
        ctx.count(("axes", self.gt), True, self.hb + "axes")
        okx = len(xv) == ncols and all(math.isfinite(v) and abs(F(v) - ex.centre(j)[0]) <= ex.tol(j)[0] for j, v in enumerate(xv))
        oky = len(yv) == nrows and all(math.isfinite(v) and abs(F(v) - ex.centre(i * ncols)[1]) <= ex.tol(i * ncols)[1] for i, v in enumerate(yv))
        if not okx or any(b <= a for a, b in zip(xv, xv[1:])):
            ctx.finding("axes/xvalues", "xvalues are not the increasing column centres", {**self.case("axes", "base"), "got": xv[:5]})
        if not oky or any(b >= a for a, b in zip(yv, yv[1:])):
            ctx.finding("axes/yvalues", "yvalues are not the decreasing row centres", {**self.case("axes", "base"), "got": yv[:5]})
        if address and okx and oky and n <= 4 * MAXCELLS:
            grid_pts = np.array([[x, y] for y in yv for x in xv])
            if g.coord2cell(grid_pts).tolist() != list(range(n)):
                ctx.finding("axes/address", "(xvalues[j], yvalues[i]) is not mapped to cell i*ncols+j", self.case("axes", "base"))
        wl = [ex.xll, ex.xll + ncols * ex.csz, ex.yll, ex.yll + nrows * ex.csz]
        tl = [0, ex.tol(ncols - 1)[0], 0, ex.tol(0)[1]]
        if any(not math.isfinite(a) or abs(F(a) - b) > t for a, b, t in zip(lims, wl, tl)):
            ctx.finding("axes/lims", "xlim/ylim are not the extent of the grid", {**self.case("axes", "base"), "got": lims})
        return xva, yva


def run_geometry(ctx, st, nrows, ncols, xll, yll, csz, cells, invalid, pts, origin="gen", history=None, rng=None,
                 requests=(), route=None):
    """one geometry: base requests for every entry point, other request shapes, axes, cross-check.
    route: None = Grid object (constructed, or reached through `history`); "sweep" = Grid object, light (no request
    shapes; axes only for moderate sizes); "pyx" = the extension module's functions called directly (huge shapes)"""
    import numpy as np
    from hydrodiy.gis.grid import Grid
    gd = {"nrows": nrows, "ncols": ncols, "xll": xll, "yll": yll, "csz": csz}
    if history:
        gd["history"] = history
    if route == "pyx":
        gd["route"] = "c_hydrodiy_gis functions called directly"
    g = PyxGrid(nrows, ncols, xll, yll, csz) if route == "pyx" else build_grid(gd)
    hb = "history/" if history else (route + "/") if route else ""
    ck = Checker(ctx, st, g, gd, hb)
    n = nrows * ncols
    allcells = list(cells) + list(invalid)

    ck.rowcol(allcells)
    xy = ck.c2c(allcells, exact_model=True)
    # round trip on the real code
    if xy.shape == (len(allcells), 2) and cells:
        back = g.coord2cell(xy[:len(cells)]).tolist()
        for c, b in zip(cells, back):
            ctx.count(("rt", ck.gt, c), True, hb + "roundtrip")
            if b != c:
                ctx.finding("cell2coord/roundtrip", "coord2cell(cell2coord(c)) differs from c",
                            {"geom": gd, "cell": c, "got": b})

    # ---- neighbours
    nbs, held = {}, {}   # held: the arrays as returned, kept alive: an answer must not change when other cells are queried

    def nb_of(c, count=False):
        if c not in nbs:
            nbs[c], arr = ck.nb(c, count=count)
            if arr is not None:
                held[c] = arr
        return nbs[c]
    ck.nb_model(allcells, [nb_of(c, count=True) for c in allcells])
    for c, arr in held.items():
        if [int(v) for v in arr] != nbs[c]:
            ctx.finding("neighbours/answer_changed_by_later_call", "the array returned by neighbours(c) changed after querying other cells",
                        {"geom": gd, "cell": c, "first": nbs[c], "now": [int(v) for v in arr]})
            break
    for c in cells:
        r = nb_of(c)
        if isinstance(r, str):
            continue
        for k, d in enumerate(r):
            if d == -1:
                continue
            rd = nb_of(d) if 0 <= d < n else "invalid"
            if isinstance(rd, str) or rd[8 - k] != c:
                ctx.finding("neighbours/not_symmetric", "neighbour relation is not symmetric with mirrored position 8-k",
                            {"geom": gd, "cell": c, "k": k, "neighbour": d, "back": rd})

    # ---- coord2cell
    if pts:
        ck.points(pts, exact_model=True, sample=(origin == "gen"))

    # ---- recorded requests (corpus / replay), as they were: order, repeats and length matter
    for tag, req in requests:
        ck.rowcol(req, tag, scalar=(tag == "scalar"))
        ck.c2c(req, tag, scalar=(tag == "scalar"))

    # ---- other request shapes: length n, n-1, n+1, 1, 2 with arbitrary content; bare scalars
    if rng is not None and n >= 1:
        for tag, req in gen_cell_requests(rng, n, cells, invalid):
            ck.rowcol(req, tag)
            ck.c2c(req, tag)
        for c in [0, n - 1, -1, n, rng.randrange(n), rng.choice(invalid)]:
            ck.rowcol([c], "scalar", scalar=True)
            ck.c2c([c], "scalar", scalar=True)
        if pts:
            for tag, req in gen_point_requests(rng, n, pts):
                ck.points(req, tag)
            for _ in range(4):
                ck.points([rng.choice(pts)], "scalar", scalar=True)
        # cell numbers no int64 can hold: numpy either refuses them or wraps them to a negative number; in no case
        # may such a number be given a cell (the property's "flagged (-1, NaN or an error)")
        for big in ([2 ** 63], [-(2 ** 63) - 1], [2 ** 64 + rng.randrange(n)], [2 ** 70], [0, 2 ** 64 + 1], [2 ** 63 + rng.randrange(n), 0]):
            for fn in ("cell2rowcol", "cell2coord", "neighbours"):
                ctx.count(("big", ck.gt, fn, str(big)), False, hb + "beyond_int64/" + fn)
                try:
                    with warnings.catch_warnings():
                        warnings.simplefilter("ignore")
                        out = getattr(g, fn)(max(big, key=abs) if fn == "neighbours" else big)
                except (OverflowError, ValueError, TypeError):
                    continue
                rows = np.asarray(out, dtype=np.float64).reshape(-1, 2) if fn != "neighbours" else None
                row = rows[[i for i, b in enumerate(big) if abs(b) >= 2 ** 63][0]] if rows is not None and len(rows) == len(big) else [0.0]
                if fn == "neighbours" or not (all(v == -1 for v in row) or all(v != v for v in row)):
                    ctx.finding("invalid_cell/not_flagged/" + fn, "a number beyond int64 is not flagged as an invalid cell number",
                                {"geom": gd, "fn": fn, "cells": [str(b) for b in big], "got": np.asarray(out).tolist()})

    # ---- axes
    if route is None or (route == "sweep" and nrows + ncols <= 3000):
        ck.axes()

    # ---- a grid reached through a history must answer like a freshly constructed grid of the same geometry
    if history:
        fresh = [Grid("fresh", ncols=ncols, nrows=nrows, cellsize=csz, xllcorner=xll, yllcorner=yll)]
        try:
            fresh.append(Grid.from_dict(g.to_dict()))
        except Exception as e:  # noqa
            ctx.finding("history/to_dict_from_dict", "a grid with re-assigned geometry cannot be rebuilt from its dictionary",
                        {"geom": gd, "error": repr(e)})
        arr = np.array([[p[0], p[1]] for p in pts], dtype=np.float64) if pts else np.zeros((0, 2))

        def same(call):
            """both grids give the same answer (an exception is an answer too)"""
            res = []
            for gr in (g, f):
                try:
                    res.append(np.asarray(call(gr), dtype=np.float64))
                except Exception as e:  # noqa
                    res.append(type(e).__name__)
            a, b = res
            if isinstance(a, str) or isinstance(b, str):
                return isinstance(a, str) and isinstance(b, str) and a == b
            return a.shape == b.shape and np.array_equal(a, b, equal_nan=True)
        for f in fresh:
            ctx.count(("fresh", ck.gt, f.name), True, "history/fresh_grid_cross_check")
            diffs = []
            if not same(lambda gr: gr.same_geometry(f) and f.same_geometry(gr)) or not bool(g.same_geometry(f)):
                diffs.append("same_geometry")
            if not same(lambda gr: gr.cell2rowcol(allcells)):
                diffs.append("cell2rowcol")
            if not same(lambda gr: gr.cell2coord(allcells)):
                diffs.append("cell2coord")
            if len(arr) and not same(lambda gr: gr.coord2cell(arr)):
                diffs.append("coord2cell")
            if not all(same(lambda gr: gr.neighbours(c)) for c in (cells[:6] + cells[-3:] + list(invalid[:2]))):
                diffs.append("neighbours")
            if not all(same(fn) for fn in (lambda gr: gr.xvalues, lambda gr: gr.yvalues, lambda gr: gr.xlim, lambda gr: gr.ylim)):
                diffs.append("axes")
            if diffs:
                ctx.finding("history/differs_from_fresh_grid",
                            "after re-assigning geometry attributes a grid answers differently from a freshly constructed grid "
                            "with the same geometry (bit-identical inputs)", {"geom": gd, "functions": diffs})


# ---------------------------------------------------------------------------------------------
# call histories on ONE grid object: call -> (edit the returned array | edit the input array | re-assign an
# attribute | other arguments | clone / deepcopy / pickle) -> call again; every answer is checked against the
# geometry and the argument content of that moment
ATTR = {"nrows": "nrows", "ncols": "ncols", "xll": "xllcorner", "yll": "yllcorner", "csz": "cellsize"}


def gen_call(rng, geo, fn=None, length=None):
    """one call op for the geometry `geo` (dict nrows ncols xll yll csz)"""
    n = geo["nrows"] * geo["ncols"]
    fn = fn or rng.choice(["rowcol", "c2c", "xy", "xy", "nb", "axes"])
    if fn in ("rowcol", "c2c"):
        L = length or rng.choice([1, 2, n, n, max(1, n - 1), n + 1, rng.randint(1, 12)])
        bad = [-1, n, n + 1, -n - 1, 2 * n + 3]
        cells = [rng.choice(bad) if rng.random() < 0.25 else rng.randrange(n) for _ in range(L)]
        return {"op": fn, "cells": cells, "as": rng.choice(["array", "array", "list", "scalar"] if L == 1 else ["array", "array", "list"])}
    if fn == "xy":
        L = length or rng.choice([1, 2, n, max(1, n - 1), n + 1, rng.randint(1, 12)])
        pool = gen_points(rng, geo["nrows"], geo["ncols"], geo["xll"], geo["yll"], geo["csz"], list(range(n)), 6, 8)
        pts = [list(rng.choice(pool)[:2]) for _ in range(L)]
        return {"op": "xy", "pts": pts, "as": rng.choice(["array", "array", "list", "scalar"] if L == 1 else ["array", "array", "list"])}
    if fn == "nb":
        return {"op": "nb", "cell": rng.choice([rng.randrange(n), rng.randrange(n), -1, n])}
    return {"op": "axes"}


def gen_set(rng, geo):
    """re-assignments, equal-size ones included (same number of cells, same lengths of every request)"""
    r = rng.random()
    nr, nc, csz = geo["nrows"], geo["ncols"], geo["csz"]
    if r < 0.2 and nr != nc:
        return [["nrows", nc], ["ncols", nr]]                     # transpose: ncells unchanged
    if r < 0.3:
        divs = [d for d in range(1, nr * nc + 1) if (nr * nc) % d == 0 and d != nc]
        if divs:
            d = rng.choice(divs)
            return [["ncols", d], ["nrows", nr * nc // d]]         # another factorisation of ncells
    if r < 0.5:
        return [[rng.choice(["xll", "yll"]), geo[rng.choice(["xll", "yll"])] + csz * rng.choice([-2.0, 1.0, 0.5, -0.25, 37.0])]]
    if r < 0.65:
        return [["csz", csz * rng.choice([2.0, 0.5, 3.0, 0.1])]]
    if r < 0.8:
        return [[rng.choice(["nrows", "ncols"]), rng.randint(1, 6)]]
    return [["xll", gen_origin(rng, csz)], ["yll", gen_origin(rng, csz)]]


def gen_nbseq(rng, geo, aux):
    """a run of scalar calls (neighbours keeps nothing between calls — each answer must be that of a first call):
    sweeps over consecutive cells across row ends, restarts, rejected numbers (-1, ncells, ...) in between, and
    calls on a second grid that shares the number of columns / rows / cells with the first"""
    n = geo["nrows"] * geo["ncols"]
    na = aux["nrows"] * aux["ncols"]
    seq = []
    c = rng.choice([0, rng.randrange(n), max(0, geo["ncols"] - 2), max(0, n - 3)])
    for _ in range(rng.randint(3, 12)):
        r = rng.random()
        if r < 0.45:
            seq.append(["main", c])
            c += 1
        elif r < 0.65:
            bad = rng.choice([-1, -1, n, n + 1, -2, -n])
            seq.append(["main", bad])
            c = rng.choice([c, bad + 1, 0, rng.randrange(n)])
        elif r < 0.85:
            ca = rng.choice([c, c + 1, c - 1, rng.randrange(na), -1, na])
            seq.append(["aux", ca])
            c = rng.choice([c, ca + 1, c + 1])
        else:
            c = rng.randrange(n)
    return {"op": "nbseq", "calls": seq}


def gen_ops(rng):
    nrows, ncols = rng.choice([(1, 1), (1, 2), (2, 1), (2, 2), (2, 3), (3, 2), (1, 5), (4, 1), (3, 4), (rng.randint(1, 6), rng.randint(1, 6))])
    csz = gen_csz(rng)
    geo = {"nrows": nrows, "ncols": ncols, "xll": gen_origin(rng, csz), "yll": gen_origin(rng, csz), "csz": csz}
    init = dict(geo)
    # a second grid, alive during the whole history: same ncols / same nrows / transposed / same ncells / unrelated
    r = rng.random()
    aux = dict(geo)
    if r < 0.35:
        aux["nrows"] = rng.choice([nrows + 1, max(1, nrows - 1), rng.randint(1, 6)])
    elif r < 0.5:
        aux["ncols"] = rng.choice([ncols + 1, max(1, ncols - 1), rng.randint(1, 6)])
    elif r < 0.65:
        aux["nrows"], aux["ncols"] = ncols, nrows
    else:
        aux.update(nrows=rng.randint(1, 6), ncols=rng.randint(1, 6), xll=gen_origin(rng, csz))
    first = gen_call(rng, geo)
    ops = [first]
    last = first
    for _ in range(rng.randint(1, 3)):
        kind = rng.choice(["edit_output", "edit_input", "set", "set", "clone", "other_args", "nbseq", "aux_call"])
        if kind == "nbseq":
            ops.append(gen_nbseq(rng, geo, aux))
            ops.append({"op": "recall"} if rng.random() < 0.5 else gen_call(rng, geo))
        elif kind == "aux_call":
            # the same kind of request, same length, on the second grid, then the first grid again
            L = len(last.get("cells", last.get("pts", [0])))
            ops.append({"op": "aux_call", "call": gen_call(rng, aux, fn=last["op"], length=L if last["op"] in ("rowcol", "c2c", "xy") else None)})
            ops.append({"op": "recall"} if rng.random() < 0.7 else gen_call(rng, geo))
        elif kind == "edit_output":
            ops.append({"op": "edit_output", "fill": rng.choice([-7, 0, 12345])})
            ops.append({"op": "recall"} if rng.random() < 0.7 else gen_call(rng, geo))
        elif kind == "edit_input" and last["op"] in ("rowcol", "c2c", "xy") and last["as"] == "array":
            new = gen_call(rng, geo, fn=last["op"], length=len(last.get("cells", last.get("pts"))))
            ops.append({"op": "edit_input", **{k: new[k] for k in ("cells", "pts") if k in new}})
            ops.append({"op": "recall"})
        elif kind == "set":
            for attr, val in gen_set(rng, geo):
                ops.append({"op": "set", "attr": attr, "value": val, "numpy": rng.random() < 0.3})
                geo[attr] = val
            ops.append({"op": "recall"} if rng.random() < 0.5 else gen_call(rng, geo))
        elif kind == "clone":
            ops.append({"op": "clone", "how": rng.choice(["clone", "deepcopy", "pickle"])})
            ops.append({"op": "recall"} if rng.random() < 0.5 else gen_call(rng, geo))
        else:
            L = len(last.get("cells", last.get("pts", [0])))
            ops.append(gen_call(rng, geo, fn=last["op"], length=L if last["op"] in ("rowcol", "c2c", "xy") else None))
        calls = [o for o in ops if o["op"] in ("rowcol", "c2c", "xy", "nb", "axes")]
        last = calls[-1]
    return {"initial": init, "aux": aux, "ops": ops}


def run_history(ctx, st, hist):
    import copy
    import pickle
    import numpy as np
    from hydrodiy.gis.grid import Grid
    geo = dict(hist["initial"])
    g = Grid("c07h", ncols=geo["ncols"], nrows=geo["nrows"], cellsize=geo["csz"], xllcorner=geo["xll"], yllcorner=geo["yll"])
    held = []      # [array as returned, snapshot, step] : earlier answers must not change later
    last = None    # (op name, argument object, "as")
    ageo = hist.get("aux")
    ga = Grid("c07aux", ncols=ageo["ncols"], nrows=ageo["nrows"], cellsize=ageo["csz"], xllcorner=ageo["xll"], yllcorner=ageo["yll"]) if ageo else None

    def checker(step, aux=False):
        if aux:
            return Checker(ctx, st, ga, dict(ageo), "calls/aux/", extra={"history_ops": hist, "step": step, "grid": "aux"})
        return Checker(ctx, st, g, dict(geo), "calls/", extra={"history_ops": hist, "step": step})

    def make_arg(o):
        if o["op"] in ("rowcol", "c2c"):
            return np.array(o["cells"], dtype=np.int64) if o["as"] == "array" else list(o["cells"])
        if o["op"] == "xy":
            return np.array(o["pts"], dtype=np.float64).reshape(-1, 2) if o["as"] == "array" else [list(p) for p in o["pts"]]
        return o["cell"] if o["op"] == "nb" else None

    # the same history for the model's state machine (`run` of Model/C07State.lean): one token per operation on the
    # main object, with the argument content of the moment; the answers of the code in the same order
    MODEL_OP = {"rowcol": "rc", "c2c": "cc", "xy2c": "xy", "nb": "nb", "axes": "ax"}
    toks, answers, complete = [], [], [True]
    budget = [float(Exact(geo["nrows"], geo["ncols"], geo["xll"], geo["yll"], geo["csz"]).budget())]

    def record(n0):
        """the model request the Checker queued for this call -> operation token and the code's answer"""
        for i in range(n0, len(st.reqs)):
            parts = st.reqs[i].split(" ")
            if parts[0] in MODEL_OP:
                toks.append(MODEL_OP[parts[0]] + ("" if parts[0] == "axes" else ":" + (parts[-1][1:-1] if parts[0] == "nb" else parts[-1])))
                answers.append(st.impls[i])
                return
        complete[0] = False    # no answer of the expected shape (already reported as a finding)

    def call(ck, op, arg, how):
        n0 = len(st.reqs)
        outs = call_(ck, op, arg, how)
        if ck.g is not ga:
            record(n0)
        return outs

    def call_(ck, op, arg, how):
        outs = []
        if op in ("rowcol", "c2c"):
            req = [int(v) for v in (arg.tolist() if isinstance(arg, np.ndarray) else arg)]
            fn = ck.rowcol if op == "rowcol" else ck.c2c
            outs.append(fn(req, "hist", scalar=(how == "scalar"), arg=arg))
        elif op == "xy":
            rows = arg.tolist() if isinstance(arg, np.ndarray) else arg
            req = [(float(p[0]), float(p[1]), "hist") for p in rows]
            outs.append(ck.points(req, "hist", scalar=(how == "scalar"), arg=None if how == "scalar" else arg))
        elif op == "nb":
            r, arr = ck.nb(arg)
            ck.nb_model([arg], [r])
            if arr is not None:
                outs.append(arr)
        else:
            outs += list(ck.axes(address=False))
        return outs

    for step, o in enumerate(hist["ops"]):
        op = o["op"]
        ctx.count(("hist", id(hist), step), False, "calls/op/" + op)
        if op in ("rowcol", "c2c", "xy", "nb", "axes"):
            arg = make_arg(o)
            last = (op, arg, o.get("as", "list"))
            for arr in call(checker(step), op, arg, last[2]):
                held.append([arr, np.array(arr, copy=True), step])
        elif op == "recall" and last is not None:
            for arr in call(checker(step), last[0], last[1], last[2]):
                held.append([arr, np.array(arr, copy=True), step])
        elif op == "nbseq":
            for which, c in o["calls"]:
                if which == "aux" and ga is None:
                    continue
                for arr in call(checker(step, aux=(which == "aux")), "nb", c, "list"):
                    held.append([arr, np.array(arr, copy=True), step])
        elif op == "aux_call" and ga is not None:
            oc = o["call"]
            for arr in call(checker(step, aux=True), oc["op"], make_arg(oc), oc.get("as", "list")):
                held.append([arr, np.array(arr, copy=True), step])
        elif op == "edit_output" and held:
            arr = held.pop()[0]
            if arr.flags.writeable:
                arr[...] = o["fill"]      # the caller owns what was returned; no later answer may depend on it
        elif op == "edit_input" and last is not None and isinstance(last[1], np.ndarray):
            new = o.get("cells", o.get("pts"))
            last[1][...] = np.array(new, dtype=last[1].dtype).reshape(last[1].shape)
        elif op == "set":
            val = o["value"]
            if o.get("numpy"):
                val = np.int64(val) if o["attr"] in ("nrows", "ncols") else np.float64(val)
            setattr(g, ATTR[o["attr"]], val)
            geo[o["attr"]] = o["value"]
            budget.append(float(Exact(geo["nrows"], geo["ncols"], geo["xll"], geo["yll"], geo["csz"]).budget()))
            toks.append({"nrows": "sr", "ncols": "sc", "xll": "sx", "yll": "sy", "csz": "sz"}[o["attr"]] + ":"
                        + (str(int(o["value"])) if o["attr"] in ("nrows", "ncols") else C.f2h(float(o["value"]))))
            answers.append("-")
        elif op == "clone":
            g = g.clone() if o["how"] == "clone" else copy.deepcopy(g) if o["how"] == "deepcopy" else pickle.loads(pickle.dumps(g))
            toks.append("cl")
            answers.append("-")
        for arr, snap, at in held:
            if not np.array_equal(arr, snap, equal_nan=True):
                ctx.finding("history/answer_changed_later", "an array returned by an earlier call changed during later calls",
                            {"history_ops": hist, "returned_at_step": at, "changed_by_step": step,
                             "first": snap.tolist()[:20], "now": arr.tolist()[:20]})
                held[:] = [h for h in held if h[0] is not arr]
                break
    if complete[0] and toks:
        i0 = hist["initial"]
        ctx.count(("histmodel", id(hist)), True, "calls/whole_history_vs_state_machine")
        st.add("hist " + geom_tok(i0["nrows"], i0["ncols"], i0["xll"], i0["yll"], i0["csz"]) + " " + " ".join(toks),
               "|".join(answers + [f"G {int(g.nrows)} {int(g.ncols)} {C.f2h(float(g.xllcorner))} {C.f2h(float(g.yllcorner))} {C.f2h(float(g.cellsize))}"]),
               {"fn": "history", "history_ops": hist, "budget": max(budget)})


def run_round53(ctx, st):
    """round53 of the model (nearest, ties to even, 53 bits, on exact rationals) against correctly rounded doubles:
    float(Fraction) is a correctly rounded int / int division; exponents -900..900 (no underflow / overflow)"""
    rng = ctx.rng
    for _ in range(ctx.scale(40, 400)):
        xs = []
        for _ in range(25):
            r = rng.random()
            if r < 0.3:       # exact ties and their neighbours: (2m+1) * 2^k / 2 with m of 53 bits
                m = rng.randrange(2 ** 52, 2 ** 53)
                q = F(2 * m + 1 + rng.choice([0, 0, 0, -1, 1]) * F(1, rng.choice([1, 2 ** 10, 2 ** 60, 3])), 2)
            elif r < 0.6:
                q = F(rng.randrange(1, 2 ** rng.randint(1, 120)), rng.randrange(1, 2 ** rng.randint(1, 120)))
            elif r < 0.8:
                q = F(rng.uniform(-1e3, 1e3)) * F(rng.uniform(-1e3, 1e3))      # exact product of two doubles
            else:
                q = F(rng.uniform(-1e3, 1e3)) / F(rng.choice([0.05, 1.0 / 3.0, 0.1, 250.0, 1e-4, rng.uniform(1e-4, 1e4)]))
            q *= F(2) ** rng.randint(-900, 900) * rng.choice([-1, 1])
            if q != 0:
                xs.append((q, float(q)))
        xs.append((F(0), 0.0))
        st.addq("round53 " + "[" + ",".join(C.rat(q) for q, _ in xs) + "]", ("round53", xs))


def run_constructor(ctx, st):
    """Grid.__init__: the defaults (nrows=None -> ncols, cellsize=1., xllcorner=0, yllcorner=0) and its guard (a negative
    dimension is refused by np.zeros with ValueError), against mkGrid of the model; an accepted grid is then used"""
    from hydrodiy.gis.grid import Grid
    rng = ctx.rng
    for it in range(ctx.scale(150, 1500)):
        ncols = [3, 0, -1, 1, 7][it] if it < 5 else rng.choice([rng.randint(1, 12), rng.randint(1, 12), 0, -rng.randint(1, 5)])
        nrows = None if it < 3 or rng.random() < 0.4 else rng.choice([rng.randint(1, 12), rng.randint(1, 12), 0, -rng.randint(1, 5)])
        csz = None if it < 3 or rng.random() < 0.4 else gen_csz(rng)
        xll = None if it < 3 or rng.random() < 0.4 else gen_origin(rng, csz or 1.0)
        yll = None if it < 3 or rng.random() < 0.4 else gen_origin(rng, csz or 1.0)
        kw = {k: v for k, v in (("nrows", nrows), ("cellsize", csz), ("xllcorner", xll), ("yllcorner", yll)) if v is not None}
        case = {"fn": "Grid.__init__", "ncols": ncols, "kwargs": kw}
        try:
            g = Grid("c07k", ncols, **kw)
            impl = f"ok {int(g.nrows)} {int(g.ncols)} {C.f2h(float(g.xllcorner))} {C.f2h(float(g.yllcorner))} {C.f2h(float(g.cellsize))}"
        except ValueError:
            g, impl = None, "err:ValueError"
        enr, enc = (ncols if nrows is None else nrows), ncols
        ok = enr >= 0 and enc >= 0
        ctx.count(("mk", it), ok and enr * enc > 0, "constructor/" + ("accepted" if ok else "negative_dimension")
                  + "/defaults=" + "".join(k[0] for k in ("nrows", "cellsize", "xllcorner", "yllcorner") if k not in kw))
        req = "mk " + " ".join([str(ncols), "-" if nrows is None else str(nrows)] + ["-" if v is None else C.f2h(v) for v in (csz, xll, yll)])
        if not (enr >= 1 and enc >= 1):
            # zero / negative dimensions are outside the property's quantifier (nrows, ncols >= 1)
            st.addi(req, impl, "constructor/" + ("negative_dimension" if not ok else "zero_dimension"), case)
            continue
        st.add(req, impl, case)
        if g is None:
            ctx.finding("constructor/refused", "the constructor refuses a grid with nrows, ncols >= 1", case)
            continue
        # oracle: what the signature says (independent of the model), then the grid answers like its geometry
        want = (enr, enc, 0.0 if xll is None else xll, 0.0 if yll is None else yll, 1.0 if csz is None else csz)
        if (int(g.nrows), int(g.ncols), float(g.xllcorner), float(g.yllcorner), float(g.cellsize)) != want:
            ctx.finding("constructor/geometry", "the grid does not have the geometry it was constructed with (defaults: square, unit cells, origin 0)",
                        {**case, "got": impl, "expected": list(want)})
            continue
        gd = {"nrows": enr, "ncols": enc, "xll": want[2], "yll": want[3], "csz": want[4], "constructed_with": {"ncols": ncols, **kw}}
        ck = Checker(ctx, st, g, gd, "constructor/")
        n = enr * enc
        cells = sorted({0, n - 1, rng.randrange(n), enc - 1, n - enc})
        ck.rowcol(cells + [-1, n])
        ck.c2c(cells + [-1, n], exact_model=True)
        ck.points(gen_points(rng, enr, enc, want[2], want[3], want[4], cells, 4, 8), exact_model=True)
        r, _ = ck.nb(cells[0])
        ck.nb_model([cells[0]], [r])


def run_shapes(ctx, st):
    """request shapes: what the wrappers accept (scalar or 1-d for cells; a pair or [n, 2] for points) and refuse,
    against cellsRequestLen / pointsRequestLen of the model. A request of an accepted shape is inside the property's
    quantifier: it must be answered, element-wise (model + oracle through the Checker, and the shape-level model
    request strictly). What happens to a request of any other shape is not the property's business: compared with the
    model (ValueError) for the evidence only"""
    import numpy as np
    from hydrodiy.gis.grid import Grid
    rng = ctx.rng
    for it in range(ctx.scale(60, 600)):
        nrows, ncols = rng.randint(1, 6), rng.randint(1, 6)
        csz = gen_csz(rng)
        xll, yll = gen_origin(rng, csz), gen_origin(rng, csz)
        g = Grid("c07s", ncols=ncols, nrows=nrows, cellsize=csz, xllcorner=xll, yllcorner=yll)
        gt = geom_tok(nrows, ncols, xll, yll, csz)
        gd = {"nrows": nrows, "ncols": ncols, "xll": xll, "yll": yll, "csz": csz}
        ck = Checker(ctx, st, g, gd, "shapes/")
        n = nrows * ncols
        pool = gen_points(rng, nrows, ncols, xll, yll, csz, list(range(n)), 6, 6)
        for shape in [(), (1,), (2,), (3,), (0,), (1, 2), (2, 2), (n, 2), (0, 2), (2, 1), (2, 3), (1, 1), (2, 0), (1, 2, 2), (2, 2, 2), (1, 1, 2),
                      (rng.randint(1, 5), rng.randint(0, 4))]:
            size = int(np.prod(shape)) if shape else 1
            # ---- points
            chosen = [rng.choice(pool) for _ in range(size)]
            flat = [v for p_ in chosen for v in p_[:2]][:size]
            arg = np.array(flat, dtype=np.float64).reshape(shape)
            good = (len(shape) in (1, 2)) and shape[-1] == 2
            case = {"fn": "coord2cell", "geom": gd, "shape": list(shape), "flat": flat}
            req = f"shape xy {gt} {C.ilist(list(shape))} {C.flist(flat)}"
            if good:
                if size:
                    res = ck.points([(flat[2 * i], flat[2 * i + 1], "shape") for i in range(size // 2)], "shape=" + str(list(shape)), arg=arg)
                else:
                    res = g.coord2cell(arg)
                st.add(req, C.ilist(res.tolist()), case)
            else:
                try:
                    impl, kind = C.ilist(np.asarray(g.coord2cell(arg)).ravel().tolist()), "answered"
                except Exception as e:  # noqa
                    impl, kind = "err:ValueError", type(e).__name__
                ctx.count(("shape", it, "xy", shape), False, "shapes/coord2cell/other_shape/" + kind)
                st.addi(req, impl, "request_shape/coord2cell", case)
            # ---- cells
            cells = [rng.choice([rng.randrange(n), rng.randrange(n), -1, n]) for _ in range(size)]
            carg = np.array(cells, dtype=np.int64).reshape(shape)
            good = len(shape) <= 1
            for name, fmt in (("rc", str), ("cc", C.f2h)):
                fn = g.cell2rowcol if name == "rc" else g.cell2coord
                case = {"fn": "cell2rowcol" if name == "rc" else "cell2coord", "geom": gd, "shape": list(shape), "cells": cells}
                req = f"shape {name} {gt} {C.ilist(list(shape))} {C.ilist(cells)}"
                if good:
                    res = (ck.rowcol if name == "rc" else ck.c2c)(cells, "shape=" + str(list(shape)), arg=carg) if size else fn(carg)
                    st.add(req, pairs_tok(res.tolist(), fmt), case)
                else:
                    try:
                        impl, kind = pairs_tok(np.asarray(fn(carg)).reshape(-1, 2).tolist(), fmt), "answered"
                    except Exception as e:  # noqa
                        impl, kind = "err:ValueError", type(e).__name__
                    ctx.count(("shape", it, name, shape), False, f"shapes/{name}/other_shape/" + kind)
                    st.addi(req, impl, "request_shape/" + name, case)


def excluded_answers(spec):
    """the four calls on a grid with the excluded geometry `spec` -> [(model request, answer of the code)]"""
    from hydrodiy.gis.grid import Grid
    nrows, ncols, xll, yll, csz = spec["nrows"], spec["ncols"], spec["xll"], spec["yll"], spec["csz"]
    if spec["route"] == "attributes":
        g = Grid("c07x", ncols=2, nrows=2)
        g.nrows, g.ncols, g.cellsize, g.xllcorner, g.yllcorner = nrows, ncols, csz, xll, yll
    else:
        g = PyxGrid(nrows, ncols, xll, yll, csz)
    gt = geom_tok(nrows, ncols, xll, yll, csz)
    cells = spec["cells"]

    def ans(f):
        try:
            return f()
        except Exception as e:  # noqa   (outside the quantifier: refusing is as good an answer as any)
            return "exception:" + type(e).__name__
    import numpy as np
    out = [(f"rowcol {nrows} {ncols} {C.ilist(cells)}", ans(lambda: pairs_tok(g.cell2rowcol(cells).tolist(), str)))]
    try:
        xy = g.cell2coord(cells)
    except Exception:  # noqa
        xy = np.zeros((0, 2))
    out.append((f"c2c {gt} {C.ilist(cells)}", ans(lambda: pairs_tok(g.cell2coord(cells).tolist(), C.f2h))))
    reps = []
    for c in cells:
        try:
            reps.append("ok:" + C.ilist([int(v) for v in g.neighbours(c)]))
        except ValueError:
            reps.append("err:badCell")
        except Exception as e:  # noqa
            reps.append("exception:" + type(e).__name__)
    out.append((f"nb {nrows} {ncols} {C.ilist(cells)}", ";".join(reps)))
    pts = spec["pts"] + [[float(v[0]), float(v[1])] for v in xy.tolist() if v[0] == v[0]][:4]   # + centres the code itself returned
    out.append((f"xy2c {gt} {pairs_tok(pts, C.f2h)}", ans(lambda: C.ilist(g.coord2cell(pts).tolist()))))
    return out


def excluded_child():
    """child process of run_excluded: grids WITHOUT cells (a zero dimension), where a change of the guards can make the
    kernel divide by ncols = 0 (SIGFPE): one JSON line per geometry, flushed, so that a crash loses only the rest"""
    import sys
    for line in sys.stdin:
        print(json.dumps(excluded_answers(json.loads(line))), flush=True)


def run_excluded(ctx, st):
    """the points the theorems' hypotheses exclude (cell size <= 0, a zero or negative number of rows / columns —
    reachable by re-assigning attributes or through the extension module, not through the constructor): outside the
    property's quantifier, so no oracle and no alarm: what the code does there is compared with the model's text
    (C truncated / and %, IEEE division by zero) for the evidence (counts of agreements / differences)"""
    import os
    import subprocess
    import sys
    rng = ctx.rng
    zero = []
    for it in range(ctx.scale(80, 800)):
        kind = ["csz<0", "csz=0", "neg_rows_and_cols", "neg_cols", "zero_cols", "neg_rows", "zero_rows"][it % 7]
        nrows, ncols = rng.randint(1, 6), rng.randint(1, 6)
        csz = gen_csz(rng)
        if kind == "csz<0":
            csz = -csz
        elif kind == "csz=0":
            csz = 0.0
        elif kind == "neg_rows_and_cols":
            nrows, ncols = -nrows, -ncols
        elif kind == "neg_cols":
            ncols = -ncols
        elif kind == "zero_cols":
            ncols = 0
        elif kind == "zero_rows":
            nrows = 0
        else:
            nrows = -nrows
        w = abs(csz) or 1.0
        xll, yll = gen_origin(rng, w), gen_origin(rng, w)
        n = abs(nrows * ncols)
        spec = {"nrows": nrows, "ncols": ncols, "xll": xll, "yll": yll, "csz": csz, "excluded": kind,
                "route": rng.choice(["attributes", "pyx"]),
                "cells": sorted({0, 1, n - 1, n, -1, -n, rng.randint(-n - 2, n + 2), rng.randint(0, max(0, n - 1))}),
                "pts": [[xll + w * rng.uniform(-2.0, abs(ncols) + 2.0) * rng.choice([-1, 1]), yll + w * rng.uniform(-2.0, abs(nrows) + 2.0) * rng.choice([-1, 1])]
                        for _ in range(8)]}
        ctx.count(("excl", it), False, "excluded/" + kind + "/" + spec["route"])
        if nrows == 0 or ncols == 0:
            zero.append(spec)
            continue
        for req, impl in excluded_answers(spec):
            st.addi(req, impl, "excluded/" + kind, {"geom": spec})
    # grids without cells: in a child process
    env = dict(os.environ, PYTHONPATH=os.pathsep.join([str(C.ROOT)] + [p_ for p_ in sys.path if p_]))
    child = subprocess.run([sys.executable, "-c", "from harness import c07; c07.excluded_child()"], input="".join(json.dumps(z) + "\n" for z in zero),
                           stdout=subprocess.PIPE, stderr=subprocess.PIPE, text=True, env=env, cwd=str(C.ROOT), timeout=600)
    lines = [l for l in child.stdout.splitlines() if l.startswith("[")]
    for spec, line in zip(zero, lines):
        for req, impl in json.loads(line):
            st.addi(req, impl, "excluded/" + spec["excluded"], {"geom": spec})
    if child.returncode != 0 or len(lines) != len(zero):
        k = f"outside_quantifier/excluded/zero_dimension/child_process_ended_with_{child.returncode}_after_{len(lines)}_of_{len(zero)}"
        ctx.hist[k] = ctx.hist.get(k, 0) + 1
        ctx.extra["excluded_child_stderr"] = child.stderr[-500:]


class Stream:
    def __init__(self):
        self.reqs, self.impls, self.cases = [], [], []
        self.qreqs, self.qinfo = [], []
        self.ireqs, self.iinfo = [], []

    def add(self, req, impl, case):
        self.reqs.append(req)
        self.impls.append(impl)
        self.cases.append(case)

    def addq(self, req, info):
        self.qreqs.append(req)
        self.qinfo.append(info)

    def addi(self, req, impl, tag, case):
        """informational comparison (requests OUTSIDE the property's quantifier: the property says nothing there, so a
        difference between code and model is recorded in the evidence and never an alarm)"""
        self.ireqs.append(req)
        self.iinfo.append((impl, tag, case))


def parse_rat(tok):
    return None if tok == "none" else F(tok)


def body(ctx):
    rng = ctx.rng
    st = Stream()

    # ---- replay of a recorded case / corpus first
    prior = []
    if getattr(ctx, "replay", None) and isinstance(ctx.replay.get("case"), dict) and ("geom" in ctx.replay["case"] or "history_ops" in ctx.replay["case"]):
        prior.append(ctx.replay["case"])
    cdir = C.ROOT / "corpus" / PID
    if cdir.is_dir():
        for f in sorted(cdir.glob("*.json")):
            prior.append(json.loads(f.read_text()))
    for case in prior:
        if "history_ops" in case:
            run_history(ctx, st, case["history_ops"])
            continue
        gd = case["geom"]
        pts = [(float(p[0]), float(p[1]), "corpus") for p in case.get("points", [])]
        if "point" in case:
            pts.append((float(case["point"][0]), float(case["point"][1]), "corpus"))
        cells = [int(c) for c in case.get("cells", [])] + ([int(case["cell"])] if "cell" in case else [])
        n = gd["nrows"] * gd["ncols"]
        run_geometry(ctx, st, gd["nrows"], gd["ncols"], float(gd["xll"]), float(gd["yll"]), float(gd["csz"]),
                     [c for c in cells if 0 <= c < n], [c for c in cells if not 0 <= c < n], pts, origin="corpus",
                     history=gd.get("history"), route="pyx" if gd.get("route") else None,
                     requests=[(str(r.get("tag", "recorded")), [int(c) for c in r["cells"]]) for r in case.get("requests", [])]
                     + ([(str(case["request"]), [int(c) for c in case["cells"]])]
                        if case.get("request", "base") != "base" and "cells" in case and "cell" in case else []))

    # ---- the raw helper getnxy (shared integer core used by the C06/C11/C16 models): C truncated % and /,
    #      any sign of cell number and ncols (ncols = 0 is a SIGFPE in C and is not called)
    import ctypes
    kern = ctypes.CDLL(str(ctx.native / "libhykern.so"))
    kern.getnxy.restype = ctypes.c_longlong
    kern.getnxy.argtypes = [ctypes.c_longlong, ctypes.c_longlong, ctypes.POINTER(ctypes.c_longlong)]
    buf = (ctypes.c_longlong * 2)()
    for it in range(ctx.scale(1500, 9000)):
        r = rng.random()
        if it < 12:
            nc = [1, 2, 3, 7, -1, -3, 49, 107, 2 ** 31, 2 ** 32 + 1, 10 ** 12, -49][it]
        elif r < 0.3:
            nc = rng.choice([-1, 1]) * rng.randint(1, 40)
        elif r < 0.7:
            nc = rng.choice([-1, 1, 1, 1]) * rng.randint(41, 5000)
        else:
            nc = rng.choice([-1, 1, 1, 1]) * int(2.0 ** rng.uniform(5.0, 45.0))
        # cells around the row ends k*ncols for small, random and huge k (up to 2^61), and a few anywhere
        kmax = 2 ** 61 // abs(nc)
        ks = [1, 2, 3, rng.randint(1, 50), rng.randint(1, 50), rng.randint(0, min(kmax, 10 ** 6)), rng.randint(0, kmax), kmax]
        cs = [0, 1, -1, nc, -nc, nc - 1, nc + 1] + [s_ * k * abs(nc) + d for k in ks for d in (-1, 0, 1) for s_ in ((1,) if d else (1, -1))] \
            + [rng.randint(-2000, 2000) for _ in range(6)] + [rng.randint(0, 2 ** 61)]
        out = []
        for c in cs:
            kern.getnxy(nc, c, buf)
            out.append((int(buf[0]), int(buf[1])))
            ctx.count(("getnxy", nc, c), c >= 0 and nc > 0, "getnxy/" + ("nonneg" if c >= 0 and nc > 0 else "signed"))
            if c >= 0 and nc > 0 and (out[-1][1], out[-1][0]) != divmod(c, nc):
                ctx.finding("getnxy/wrong_rowcol", "getnxy is not (cell mod ncols, cell div ncols)", {"ncols": nc, "cell": c, "got": list(out[-1])})
        st.add(f"getnxy {nc} {C.ilist(cs)}", pairs_tok(out, str), {"fn": "getnxy", "ncols": nc})

    # ---- generated geometries
    ngeom = ctx.scale(300, 3000)
    for (nrows, ncols) in gen_shapes(rng, ngeom):
        csz = gen_csz(rng)
        xll, yll = gen_origin(rng, csz), gen_origin(rng, csz)
        cells, invalid = gen_cells(rng, nrows, ncols)
        pts = gen_points(rng, nrows, ncols, xll, yll, csz, cells, 40, 40)
        history = gen_history(rng, nrows, ncols, xll, yll, csz) if rng.random() < 0.4 else None
        try:
            run_geometry(ctx, st, nrows, ncols, xll, yll, csz, cells, invalid, pts, history=history, rng=rng)
        except (ValueError, TypeError, AssertionError, IndexError, OverflowError) as e:
            # every call made there is inside the property's domain (neighbours of invalid cells is caught locally)
            ctx.finding("api/exception", "a geometry function raised on a request inside the property's domain",
                        {"geom": {"nrows": nrows, "ncols": ncols, "xll": xll, "yll": yll, "csz": csz, "history": history},
                         "error": repr(e)[:300]})

    # ---- wide / tall / large shapes: the cells where the row / column split is decided (row ends), light
    def guarded(nrows, ncols, xll, yll, csz, *a, **kw):
        try:
            run_geometry(ctx, st, nrows, ncols, xll, yll, csz, *a, **kw)
        except (ValueError, TypeError, AssertionError, IndexError, OverflowError) as e:
            ctx.finding("api/exception", "a geometry function raised on a request inside the property's domain",
                        {"geom": {"nrows": nrows, "ncols": ncols, "xll": xll, "yll": yll, "csz": csz, **({"route": kw["route"]} if kw.get("route") == "pyx" else {})},
                         "error": repr(e)[:300]})
    for (nrows, ncols) in gen_sweep_shapes(rng, ctx.scale(700, 4000)):
        csz = gen_csz(rng)
        xll, yll = gen_origin(rng, csz), gen_origin(rng, csz)
        cells, invalid = gen_boundary_cells(rng, nrows, ncols)
        pts = gen_points(rng, nrows, ncols, xll, yll, csz, cells, 10, 8)
        guarded(nrows, ncols, xll, yll, csz, cells, invalid, pts, origin="sweep", route="sweep")
    # ---- shapes beyond what can be allocated, through the extension module's functions (the route Grid.* takes);
    #      points only where the double quotient still resolves 1e-9 cell sizes (|quotient| < 2^20)
    for (nrows, ncols) in gen_huge_shapes(rng, ctx.scale(250, 1500)):
        csz = gen_csz(rng)
        xll, yll = gen_origin(rng, csz), gen_origin(rng, csz)
        cells, invalid = gen_boundary_cells(rng, nrows, ncols, nrand=3)
        pts = gen_points(rng, nrows, ncols, xll, yll, csz, cells, 10, 8) if max(nrows, ncols) < 2 ** 20 - 10 ** 4 else []
        guarded(nrows, ncols, xll, yll, csz, cells, invalid, pts, origin="huge", route="pyx")

    run_round53(ctx, st)
    run_constructor(ctx, st)
    run_shapes(ctx, st)
    run_excluded(ctx, st)

    # ---- call histories on one grid object
    for _ in range(ctx.scale(500, 5000)):
        hist = gen_ops(rng)
        try:
            run_history(ctx, st, hist)
        except (ValueError, TypeError, AssertionError, IndexError, OverflowError) as e:
            ctx.finding("api/exception", "a geometry function raised on a request inside the property's domain",
                        {"history_ops": hist, "error": repr(e)[:300]})

    # ---- correspondence: Float instance; integers exact, coordinates bit-equal or within the coordinate budget
    import re

    def close_floats(a, b, geom, bud=None):
        """same text up to the float tokens, and every float within the coordinate budget of the geometry"""
        ta, tb = re.findall(r"[0-9a-f]{16}|nan", a), re.findall(r"[0-9a-f]{16}|nan", b)
        if len(ta) != len(tb) or re.sub(r"[0-9a-f]{16}|nan", "#", a) != re.sub(r"[0-9a-f]{16}|nan", "#", b):
            return False
        if bud is None:
            bud = float(Exact(geom["nrows"], geom["ncols"], geom["xll"], geom["yll"], geom["csz"]).budget())
        for u, v in zip(ta, tb):
            if u == v:
                continue
            if u == "nan" or v == "nan":
                return False
            fu, fv = C.h2f(u), C.h2f(v)
            if not (math.isfinite(fu) and math.isfinite(fv) and abs(fu - fv) <= bud):
                return False
        return True
    replies = ctx.lean.ask(st.reqs)
    for req, impl, rep, case in zip(st.reqs, st.impls, replies, st.cases):
        if impl != rep and ((case.get("fn") in ("cell2coord", "axes") and close_floats(impl, rep, case["geom"]))
                            or (case.get("fn") == "history" and close_floats(impl, rep, None, case["budget"]))):
            ctx.hist["correspondence/within_budget_not_bit_equal"] = ctx.hist.get("correspondence/within_budget_not_bit_equal", 0) + 1
            rep = impl
        if impl != rep and case.get("fn") == "coord2cell":
            # narrow the disagreement to the first differing point
            a, b = C.parse_list(impl), C.parse_list(rep)
            for p, u, v in zip(case["points"], a, b):
                if u != v:
                    case = {"geom": case["geom"], "fn": "coord2cell", "point": p}
                    impl, rep = u, v
                    req = req.split(" ")[0]
                    break
        ctx.compare("C07", {"request": req[:300], **{k: v for k, v in case.items() if k != "points"}}, impl[:2000], rep[:2000])

    # ---- exact instance (the one the theorems are about) vs the code, inside the conditioning region
    qreplies = ctx.lean.ask(st.qreqs)
    for req, info, rep in zip(st.qreqs, st.qinfo, qreplies):
        if info[0] == "trunc":
            for a, b in zip(info[1], [int(t) for t in C.parse_list(rep)]):
                k = "pinned_trunc_model/strip_point/" + ("model_gives_cell_code_gives_-1" if (b != -1 and a == -1) else "other")
                ctx.hist[k] = ctx.hist.get(k, 0) + 1
            continue
        if info[0] == "cellsR":
            _, got, gd, pts, ex = info
            model = [int(t) for t in C.parse_list(rep)]
            for p, a, b in zip(pts, got, model):
                k = "round53_model/points/" + ("same_cell" if a == b else "edge_zone_point_differs")
                ctx.hist[k] = ctx.hist.get(k, 0) + 1
                # within 1e-9 cell sizes of an edge another evaluation order may legitimately fall on the other side
                if a != b and ex.classify(p[0], p[1])[0] != "edgezone":
                    ctx.disagree("C07: code differs from the kernel text evaluated on exact rationals with every arithmetic result "
                                 "rounded to 53 bits (round53): the doubles do not do what the rounded model says",
                                 {"geom": gd, "fn": "coord2cell", "point": [p[0], p[1]], "impl": a, "model": b})
            continue
        if info[0] == "centresR":
            _, cells, xy, gd = info
            body_ = rep.strip()[1:-1]
            rows = [r.split(",") for r in body_.split(";")] if body_ else []
            bud = Exact(gd["nrows"], gd["ncols"], gd["xll"], gd["yll"], gd["csz"]).budget()
            for c, (x, y), (mx, my) in zip(cells, xy, rows):
                mx, my = parse_rat(mx), parse_rat(my)
                if mx is None:
                    ok = same = x != x and y != y
                else:
                    fin = math.isfinite(x) and math.isfinite(y)
                    same = fin and F(x) == mx and F(y) == my
                    ok = fin and abs(F(x) - mx) <= bud and abs(F(y) - my) <= bud
                k = "round53_model/centres/" + ("equal" if same else "within_budget_not_equal")
                ctx.hist[k] = ctx.hist.get(k, 0) + 1
                if not ok:
                    ctx.disagree("C07: cell2coord differs from the kernel text evaluated on exact rationals with round53",
                                 {"geom": gd, "fn": "cell2coord", "cell": c, "impl": [x, y], "model": [str(mx), str(my)]})
            continue
        if info[0] == "round53":
            want = info[1]
            got = [F(t) for t in C.parse_list(rep)]
            for w, g_ in zip(want, got):
                ctx.count(("round53", str(w[0])), True, "round53/vs_correctly_rounded_division")
                if F(w[1]) != g_:
                    ctx.disagree("C07: round53 is not the correctly rounded (nearest, ties to even) double", {"exact": str(w[0]), "double": w[1], "model": str(g_)})
            continue
        if info[0] == "cells":
            _, got, gd, pts = info
            model = [int(t) for t in C.parse_list(rep)]
            for p, a, b in zip(pts, got, model):
                if a != b:
                    ctx.disagree("C07: code differs from the exact (Rat) model on a point at least 1e-9 cell sizes off every edge",
                                 {"geom": gd, "point": [float(p[0]), float(p[1])], "impl": a, "model": b})
        else:
            _, ex, cells, xy, gd = info
            body_ = rep.strip()[1:-1]
            rows = [r.split(",") for r in body_.split(";")] if body_ else []
            for c, (x, y), (mx, my) in zip(cells, xy, rows):
                mx, my = parse_rat(mx), parse_rat(my)
                if mx is None:
                    ok = x != x and y != y
                else:
                    tx, ty = ex.tol(c)
                    ok = math.isfinite(x) and math.isfinite(y) and abs(F(x) - mx) <= tx and abs(F(y) - my) <= ty
                if not ok:
                    ctx.disagree("C07: cell2coord differs from the exact (Rat) model beyond the rounding budget",
                                 {"geom": gd, "cell": c, "impl": [x, y], "model": [str(mx), str(my)]})

    # ---- outside the quantifier: informational comparison with the model (evidence only)
    ireplies = ctx.lean.ask(st.ireqs)
    diffs = []
    for req, (impl, tag, case), rep in zip(st.ireqs, st.iinfo, ireplies):
        k = f"outside_quantifier/{tag}/" + ("agrees_with_model" if impl == rep else "differs_from_model")
        ctx.hist[k] = ctx.hist.get(k, 0) + 1
        if impl != rep and len(diffs) < 5:
            diffs.append({"request": req[:300], "impl": impl[:300], "model": rep[:300], **case})
    ctx.extra["outside_quantifier_differences"] = diffs

    ctx.extra["rule"] = __doc__.split("Cases:")[1].strip()
    ctx.extra["geometries"] = ngeom
    ctx.assumptions += [
        "exact-arithmetic theorems are over an ordered field with floor; the rounded-arithmetic theorems assume the standard model "
        "(relative error <= u per operation; proved for round53 with u = 2^-53). That the C doubles are the round53 instance is "
        "IEEE-754 (no underflow / overflow in the generated cases) and is checked exactly on every finite point and every cell",
        "cell size > 0, nrows, ncols >= 1 (the property's quantifier); numpy dtype conversion (astype int64 / float64) not modelled; "
        "atleast_1d / atleast_2d and the [n, 2] test are modelled (request shapes)",
        "the model converts NaN / out-of-range doubles to long long the x86-64 way (INT64_MIN) and then tests the integers; the kernel (since c8d188e) tests the floored doubles before casting: same cell for every input, compared bit for bit incl. non-finite points",
        "geometry attributes of Grid are plain attributes; re-assigning them (python or numpy scalars) is treated as public API, as the library's own tests do",
    ]


def main(tier, replay=None):
    return C.run_check(PID, tier, body, needs_native=True, replay=replay,
                       trusted=["numpy array conversion in the Grid wrappers (external)",
                                "x86-64 double -> long long conversion for NaN/out-of-range values (modelled, compiler-specific)"])
