"""C05 — from the arguments of a kernel call to the request understood by the model driver (`Drivers/C05.lean`).

`build(callee, P, B, D)`:
  P  kernel parameter -> int (integer scalars; for pointer parameters the EXTENT of the buffer handed over)
  B  pointer parameter -> flat content (list / numpy array) where it steers the control flow or an oracle
  D  `double` kernel parameter -> float
returns `(model, [(Buf, pointer parameter), ...], [argument tokens])`, or None for a kernel without model.

The Boolean oracles of the models (outcome of a floating point test that steers an access) are computed here
from the same doubles with the same IEEE operations as the C text (numpy float64 scalars); `exact=False`
replaces the oracles that are expensive or depend on `qsort` with NaNs by zeros — the safety theorems hold for
every oracle, exact oracles matter only for the predicted footprint (tightness probes).
"""
import math

import numpy as np

FLOWCODE_DEFAULT = [32, 64, 128, 16, 0, 1, 8, 4, 2]


def il(xs):
    return "[" + ",".join(str(int(x)) for x in xs) + "]"


def bl(xs):
    return "[" + ",".join("1" if x else "0" for x in xs) + "]"


def bm(rows):
    return "[" + ";".join(",".join("1" if x else "0" for x in r) for r in rows) + "]"


def xl(xs):
    return "[" + ",".join("x" if x is None else str(int(x)) for x in xs) + "]"


def f64(x):
    return np.float64(x)


def fl(a):
    return np.asarray(a, dtype=np.float64).ravel()


def xfloor(v):
    """integer part of a double about to be converted (None = NaN or infinite)"""
    v = float(v)
    if v != v or v in (math.inf, -math.inf):
        return None
    return int(math.floor(v))


def xtrunc(v):
    v = float(v)
    if v != v or v in (math.inf, -math.inf):
        return None
    return int(math.trunc(v))


def floors(xs, ys, xll, yll, csz):
    """floor((x-xll)/csz), floor((y-yll)/csz) as the kernel computes them"""
    with np.errstate(all="ignore"):
        fx = [xfloor((f64(x) - f64(xll)) / f64(csz)) for x in xs]
        fy = [xfloor((f64(y) - f64(yll)) / f64(csz)) for y in ys]
    return fx, fy


def cell_of(nrows, ncols, fx, fy):
    if fx is None or fy is None or not (0 <= fx < ncols and 0 <= fy < nrows):
        return -1
    return (nrows - 1 - fy) * ncols + fx


# ---------------------------------------------------------------------------------------------
def build(callee, P, B, D, exact=True):
    f = BUILDERS.get(callee)
    return None if f is None else f(P, B, D, exact)


def _agg(P, B, D, exact):
    return "aggregate", [("aggindex", "aggindex"), ("inputs", "inputs"), ("outputs", "outputs"), ("iend", "iend")], \
        [P["nval"], il(B["aggindex"])]


def _hom(P, B, D, exact):
    return "flathomogen", [("aggindex", "aggindex"), ("inputs", "inputs"), ("outputs", "outputs")], \
        [P["nval"], il(B["aggindex"])]


def islin_oracle(data, nval, thresh, tol):
    data = fl(data)
    lin = [0] * max(nval, 0)
    if nval < 2 or len(data) < 2:
        return lin
    with np.errstate(all="ignore"):
        thresh, tol = f64(thresh), f64(tol)
        vprec = data[0] if data[0] == data[0] else thresh - 1
        vcur = data[1] if data[1] == data[1] else thresh - 1
        for i in range(2, min(nval, len(data))):
            vnext = data[i]
            dist = abs(vcur - (vprec + vnext) / 2)
            lin[i] = 1 if (dist < tol and vcur > thresh) else 0       # `~isnan(dist)` is never 0
            vprec, vcur = vcur, vnext
    return lin


def _islin(P, B, D, exact):
    lin = islin_oracle(B["inputs"], P["nval"], D["thresh"], D["tol"])
    return "islin", [("data", "inputs"), ("islin", "islin")], [P["nval"], P["npoints"], bl(lin)]


def _eck(P, B, D, exact):
    th, bfi = D["thresh"], D["BFI_max"]
    bad = P["timestep_type"] not in (0, 1) or th < 0 or th > 1 or bfi < 0 or bfi > 1
    return "eckhardt", [("inputs", "inputs"), ("outputs", "outputs")], [P["nval"], int(bad)]


def _var2h(P, B, D, exact):
    return "var2h", [("varsec", "varsec"), ("varvalues", "varvalues"), ("hvalues", "hvalues")], \
        [P["nvalvar"], P["nvalh"], P["nbsec_per_period"], P["rainfall"], P["hstartsec"], il(B["varsec"])]


def _add1month(P, B, D, exact):
    return "add1month", [("date", "date")], [il(B["date"])]


def _add1day(P, B, D, exact):
    return "add1day", [("date", "date")], [il(B["date"])]


def _getdate(P, B, D, exact):
    day = float(D["day"])
    inr = day > -2147483648.0 and day < 2147483648.0
    with np.errstate(all="ignore"):
        d4, d2, d0 = xtrunc(f64(day) * f64(1e-4)), xtrunc(f64(day) * f64(1e-2)), xtrunc(day)
    return "getdate", [("date", "date")], [int(inr)] + ["x" if d is None else str(d) for d in (d4, d2, d0)]


def _cmpdates(P, B, D, exact):
    return "comparedates", [("date1", "date1"), ("date2", "date2")], [il(B["date1"]), il(B["date2"])]


def _armodel_sim(P, B, D, exact):
    pn = [x != x for x in fl(B["params"])]
    bad = D["sim_mean"] != D["sim_mean"] or D["sim_ini"] != D["sim_ini"]
    return "armodelsim", [("params", "params"), ("innov", "innov"), ("outputs", "outputs")], \
        [P["nval"], P["nparams"], bl(pn), int(bad)]


def _armodel_res(P, B, D, exact):
    pn = [x != x for x in fl(B["params"])]
    bad = D["sim_mean"] != D["sim_mean"] or D["sim_ini"] != D["sim_ini"]
    with np.errstate(all="ignore"):
        xn = [(x - f64(D["sim_mean"])) != (x - f64(D["sim_mean"])) for x in fl(B["inputs"])]
    return "armodelres", [("params", "params"), ("inputs", "inputs"), ("residuals", "residuals")], \
        [P["nval"], P["nparams"], bl(pn), int(bad), bl(xn)]


def _crps(P, B, D, exact):
    nval, ncol = P["nval"], P["ncol"]
    uns = [[0] * max(ncol - 1, 0) for _ in range(max(nval, 0))]
    if exact and P["is_sorted"] != 0 and ncol >= 2:
        sim = fl(B["sim"])
        for i in range(nval):
            row = sim[i * ncol:(i + 1) * ncol]
            uns[i] = [1 if row[j + 1] < row[j] else 0 for j in range(ncol - 1)]
    return "crps", [("obs", "obs"), ("sim", "sim"), ("weights", "weights_vector"), ("table", "reliability_table"),
                    ("decompos", "crps_decompos")], [nval, ncol, P["use_weights"], bm(uns)]


def _ensrank(P, B, D, exact):
    return "ensrank", [("sim", "sim"), ("fmat", "fmat"), ("ranks", "ranks")], \
        [P["nval"], P["ncol"], int(D["eps"] < 1e-20)]


def _adtest(P, B, D, exact):
    n = P["nval"]
    x = fl(B["unifdata"])[:max(n, 0)]
    bad = [0] * max(n, 0)
    if exact and not np.isnan(x).any():
        xs = np.sort(x)
        prev = -1e-300
        for i in range(n):
            if xs[i] < 0 or xs[i] > 1 or xs[i] < prev:
                bad[i] = 1
                break
            prev = xs[i]
    return "adtest", [("unifdata", "unifdata"), ("outputs", "outputs")], [n, bl(bad)]


def pareto_dom(data, nval, ncol, orientation):
    d = fl(data).reshape((nval, ncol)) if nval * ncol > 0 else np.zeros((max(nval, 0), max(ncol, 0)))
    o = f64(orientation)
    dom = [[0] * nval for _ in range(nval)]
    with np.errstate(all="ignore"):
        for i in range(nval):
            for j in range(nval):
                if i == j:
                    continue
                ok = 1
                for k in range(ncol):
                    diff = d[j, k] - d[i, k]
                    if diff != diff:
                        continue
                    ok *= int(o * diff > 0)
                dom[i][j] = ok
    return dom


def _pareto(P, B, D, exact):
    nval, ncol = P["nval"], P["ncol"]
    if exact and nval <= 64:
        dom = pareto_dom(B["data"], nval, ncol, P["orientation"])
    else:
        dom = [[0] * max(nval, 0) for _ in range(max(nval, 0))]
    return "pareto", [("data", "data"), ("isdominated", "isdominated")], [nval, ncol, bm(dom)]


def _ols(P, B, D, exact):
    return "ols", [("predictors", "predictors"), ("tXXinv", "tXXinv"), ("leverages", "leverages")], \
        [P["nval"], P["npreds"]]


def _coord2cell(P, B, D, exact):
    xy = fl(B["xycoords"])
    n = max(P["nval"], 0)
    xs = [xy[2 * i] if 2 * i < len(xy) else 0.0 for i in range(n)]
    ys = [xy[2 * i + 1] if 2 * i + 1 < len(xy) else 0.0 for i in range(n)]
    fx, fy = floors(xs, ys, D["xll"], D["yll"], D["csz"])
    return "coord2cell", [("xycoords", "xycoords"), ("idxcell", "idxcell")], \
        [P["nrows"], P["ncols"], P["nval"], xl(fx), xl(fy)]


def _cell2rowcol(P, B, D, exact):
    return "cell2rowcol", [("idxcell", "idxcell"), ("rowcols", "rowcols")], \
        [P["nrows"], P["ncols"], P["nval"], il(B["idxcell"])]


def _cell2coord(P, B, D, exact):
    return "cell2coord", [("idxcell", "idxcell"), ("xycoords", "xycoords")], \
        [P["nrows"], P["ncols"], P["nval"], il(B["idxcell"])]


def _neighbours(P, B, D, exact):
    return "neighbours", [("neighbours", "neighbours")], [P["nrows"], P["ncols"], P["idxcell"]]


def _upstream(P, B, D, exact):
    return "upstream", [("flowdircode", "flowdircode"), ("flowdir", "flowdir"), ("idxdown", "idxdown"),
                        ("idxup", "idxup")], \
        [P["nrows"], P["ncols"], P["nval"], il(B["flowdircode"]), il(B["flowdir"]), il(B["idxdown"])]


def _downstream(P, B, D, exact):
    return "downstream", [("flowdircode", "flowdircode"), ("flowdir", "flowdir"), ("idxup", "idxup"),
                          ("idxdown", "idxdown")], \
        [P["nrows"], P["ncols"], P["nval"], il(B["flowdircode"]), il(B["flowdir"]), il(B["idxup"])]


def _accumulate(P, B, D, exact):
    return "accumulate", [("flowdircode", "flowdircode"), ("flowdir", "flowdir"), ("toacc", "to_accumulate"),
                          ("accumulation", "accumulation")], \
        [P["nrows"], P["ncols"], P["nprint"], P["max_accumulated_cells"], il(B["flowdircode"]), il(B["flowdir"])]


def _slope(P, B, D, exact):
    return "slope", [("flowdircode", "flowdircode"), ("flowdir", "flowdir"), ("altitude", "altitude"),
                     ("slopeval", "slopeval")], \
        [P["nrows"], P["ncols"], P["nprint"], il(B["flowdircode"]), il(B["flowdir"])]


def slice_floors(xy, nval, nrows, ncols, xll, yll, csz):
    """the three conversions of `c_slice` per point: the point, its x-neighbour and its y-neighbour"""
    f1x, f1y, f2x, f2y, f3x, f3y = [], [], [], [], [], []
    xll, yll, csz = f64(xll), f64(yll), f64(csz)
    tol = f64(1e-10)
    with np.errstate(all="ignore"):
        for i in range(max(nval, 0)):
            xs = f64(xy[2 * i]) if 2 * i < len(xy) else f64(0)
            ys = f64(xy[2 * i + 1]) if 2 * i + 1 < len(xy) else f64(0)
            a, b = xfloor((xs - xll) / csz), xfloor((ys - yll) / csz)
            f1x.append(a)
            f1y.append(b)
            c1 = cell_of(nrows, ncols, a, b)
            if c1 < 0:
                for l in (f2x, f2y, f3x, f3y):
                    l.append(None)
                continue
            col = c1 % ncols
            row = (c1 - col) // ncols
            x1 = xll + csz * (f64(col) + f64(0.5))
            y1 = yll + csz * (f64(nrows - 1 - row) + f64(0.5))
            dx, dy = xs - x1, ys - y1
            x2 = x1 + dx / abs(dx) * csz if abs(dx) > tol else x1
            y3 = y1 + dy / abs(dy) * csz if abs(dy) > 0 else y1
            f2x.append(xfloor((x2 - xll) / csz))
            f2y.append(xfloor((y1 - yll) / csz))
            f3x.append(xfloor((x1 - xll) / csz))
            f3y.append(xfloor((y3 - yll) / csz))
    return f1x, f1y, f2x, f2y, f3x, f3y


def _slice(P, B, D, exact):
    fs = slice_floors(fl(B["xyslice"]), P["nval"], P["nrows"], P["ncols"], D["xll"], D["yll"], D["csz"])
    return "slice", [("data", "data"), ("xyslice", "xyslice"), ("zslice", "zslice")], \
        [P["nrows"], P["ncols"], P["nval"]] + [xl(f) for f in fs]


def _intersect(P, B, D, exact):
    xy = fl(B["xy_area"])
    n = max(P["nval"], 0)
    xs = [xy[2 * i] if 2 * i < len(xy) else 0.0 for i in range(n)]
    ys = [xy[2 * i + 1] if 2 * i + 1 < len(xy) else 0.0 for i in range(n)]
    fx, fy = floors(xs, ys, D["xll"], D["yll"], D["csz"])
    return "intersect", [("xyarea", "xy_area"), ("npoints", "npoints"), ("idxcells", "idxcells"),
                         ("weights", "weights")], [P["nrows"], P["ncols"], P["nval"], xl(fx), xl(fy)]


def voronoi_closer(cells, ncells, xyp, npoints, nrows, ncols, xll, yll, csz):
    out = []
    xll, yll, csz = f64(xll), f64(yll), f64(csz)
    with np.errstate(all="ignore"):
        for i in range(max(ncells, 0)):
            c = int(cells[i]) if i < len(cells) else 0
            if ncols == 0:
                out.append([0] * max(npoints, 0))
                continue
            col = int(math.fmod(c, ncols))            # C remainder (sign of the dividend)
            row = (c - col) // ncols                   # exact: c - col is a multiple of ncols
            x = xll + csz * (f64(col) + f64(0.5))
            y = yll + csz * (f64(nrows - 1 - row) + f64(0.5))
            dmin, row_c = f64(np.inf), []
            for j in range(max(npoints, 0)):
                dx, dy = x - f64(xyp[2 * j]), y - f64(xyp[2 * j + 1])
                dist = np.sqrt(dx * dx + dy * dy)
                if dist < dmin:
                    dmin = dist
                    row_c.append(1)
                else:
                    row_c.append(0)
            out.append(row_c)
    return out


def _voronoi(P, B, D, exact):
    nc, npnt = P["ncells"], P["npoints"]
    xyp = fl(B["xypoints"])
    if exact and npnt >= 1 and len(xyp) >= 2 * npnt and nc * npnt <= 20000:
        closer = voronoi_closer(B["idxcells_area"], nc, xyp, npnt, P["nrows"], P["ncols"], D["xll"], D["yll"], D["csz"])
    else:
        closer = [[0] * max(npnt, 0) for _ in range(max(nc, 0))]
    return "voronoi", [("idxcellsArea", "idxcells_area"), ("xypoints", "xypoints"), ("weights", "weights")], \
        [P["nrows"], P["ncols"], nc, npnt, il(B["idxcells_area"]), bm(closer)]


def _inside(P, B, D, exact):
    pts = fl(B["points"])
    n = max(P["npoints"], 0)
    xlim, ylim = B.get("polygon_xlim"), B.get("polygon_ylim")
    if xlim is None:
        poly = fl(B["polygon"])
        px, py = poly[0::2], poly[1::2]
        xlim = [px.min(), px.max()] if len(px) else [0.0, 0.0]
        ylim = [py.min(), py.max()] if len(py) else [0.0, 0.0]
    out = []
    for i in range(n):
        x = pts[2 * i] if 2 * i < len(pts) else 0.0
        y = pts[2 * i + 1] if 2 * i + 1 < len(pts) else 0.0
        out.append(bool(x < xlim[0] or x > xlim[1] or y < ylim[0] or y > ylim[1]))
    return "inside", [("points", "points"), ("polygon", "polygon"), ("xlim", "polygon_xlim"),
                      ("ylim", "polygon_ylim"), ("inside", "inside")], \
        [P["nprint"], P["npoints"], P["nvertices"], bl(out)]


def _exclzero(P, B, D, exact):
    return "exclzero", [("xycoords", "xycoords"), ("idxok", "idxok")], [P["nval"]]


def _river(P, B, D, exact):
    return "river", [("flowdircode", "flowdircode"), ("flowdir", "flowdir"), ("npoints", "npoints"),
                     ("idxcells", "idxcells"), ("rivdata", "data")], \
        [P["nrows"], P["ncols"], P["nval"], P["idxupstream"], il(B["flowdircode"]), il(B["flowdir"])]


def _flowpath(P, B, D, exact):
    return "flowpath", [("flowdircode", "flowdircode"), ("flowdir", "flowdir"), ("idxcellsArea", "idxcells_area"),
                        ("flowpaths", "flowpathlengths")], \
        [P["nrows"], P["ncols"], P["nval"], P["idxcell_outlet"], il(B["flowdircode"]), il(B["flowdir"]),
         il(B["idxcells_area"])]


def _boundary(P, B, D, exact):
    n = max(P["nval"], 0)
    cells = sorted(int(x) for x in list(B["idxcells_area"])[:n])        # `qsort` comes first in the kernel
    return "boundary", [("idxcellsArea", "idxcells_area"), ("buffer", "buffer"), ("mask", "catchment_area_mask"),
                        ("idxboundary", "idxcells_boundary")], \
        [P["nrows"], P["ncols"], P["nval"], il(cells), il(B["catchment_area_mask"])]


def _area(P, B, D, exact):
    return "area", [("flowdircode", "flowdircode"), ("flowdir", "flowdir"), ("idxinlets", "idxinlets"),
                    ("idxcellsArea", "idxcells_area"), ("buffer1", "buffer1"), ("buffer2", "buffer2")], \
        [P["nrows"], P["ncols"], P["nval"], P["ninlets"], P["idxoutlet"], il(B["flowdircode"]), il(B["flowdir"]),
         il(B["idxinlets"])]


BUILDERS = {
    "c_aggregate": _agg, "c_flathomogen": _hom, "c_islin": _islin, "c_eckhardt": _eck, "c_var2h": _var2h,
    "c_dateutils_add1month": _add1month, "c_dateutils_add1day": _add1day, "c_dateutils_getdate": _getdate,
    "c_dateutils_comparedates": _cmpdates,
    "c_dateutils_daysinmonth": lambda P, B, D, e: ("daysinmonth", [], [P["month"]]),
    "c_dateutils_dayofyear": lambda P, B, D, e: ("dayofyear", [], [P["month"], P["day"]]),
    "c_combi": lambda P, B, D, e: ("combi", [], [P["n"], P["k"]]),
    "c_dateutils_isleapyear": lambda P, B, D, e: ("isleapyear", [], [P["year"]]),
    "c_armodel_sim": _armodel_sim, "c_armodel_residual": _armodel_res, "c_crps": _crps, "c_ensrank": _ensrank,
    "c_ad_test": _adtest, "c_paretofront": _pareto, "c_olsleverage": _ols,
    "c_coord2cell": _coord2cell, "c_cell2rowcol": _cell2rowcol, "c_cell2coord": _cell2coord,
    "c_neighbours": _neighbours, "c_upstream": _upstream, "c_downstream": _downstream,
    "c_accumulate": _accumulate, "c_slope": _slope, "c_slice": _slice, "c_intersect": _intersect,
    "c_voronoi": _voronoi, "c_inside": _inside, "c_exclude_zero_area_boundary": _exclzero,
    "c_delineate_river": _river, "c_delineate_boundary": _boundary, "c_delineate_area": _area, "c_delineate_flowpathlengths_in_catchment": _flowpath,
}

# kernels reachable from the API without footprint model (covered by the sanitizer oracle only)
NO_MODEL = []


# ---------------------------------------------------------------------------------------------
# PyAlloc as observed: what the PYTHON wrappers establish about the arrays THEY allocate / validate, evaluated
# on the shapes `S` (field `name_k`) and integer scalars `V` recorded at the Cython boundary. Mirrors the
# hand-written `PyAlloc_*` of `Lemmas/C05Wrap.lean` plus the allocations the Cython asserts re-check.
PYALLOC = {
    "aggregate": lambda S, V: S["aggindex_0"] == S["inputs_0"] == S["outputs_0"] and S["iend_0"] == 1,
    "flathomogen": lambda S, V: S["aggindex_0"] == S["inputs_0"] == S["outputs_0"],
    "islin": lambda S, V: S["islin_0"] == S["data_0"],
    "var2h": lambda S, V: S["varvalues_0"] == S["varsec_0"] and abs(V["hstartsec"]) <= 2 ** 62,
    "eckhardt": lambda S, V: S["bflow_0"] == S["flow_0"],
    "armodel_sim": lambda S, V: S["outputs_0"] == S["inputs_0"],
    "armodel_residual": lambda S, V: S["residuals_0"] == S["inputs_0"],
    "crps": lambda S, V: (S["obs_0"] == S["sim_0"] == S["weight_vector_0"] and S["sim_1"] >= 1 and
                          V["use_weights"] == 0 and S["crps_decompos_0"] == 5 and
                          (S["reliability_table_0"], S["reliability_table_1"]) == (S["sim_1"] + 1, 7)),
    "ensrank": lambda S, V: S["fmat_0"] == S["fmat_1"] == S["ranks_0"] == S["sim_0"],
    "ad_test": lambda S, V: S["outputs_0"] == 2,
    "pareto_front": lambda S, V: S["isdominated_0"] == S["data_0"],
    "coord2cell": lambda S, V: S["xycoords_1"] == 2 and S["idxcell_0"] == S["xycoords_0"] and V["nrows"] >= 0 <= V["ncols"],
    "cell2coord": lambda S, V: (S["coords_0"], S["coords_1"]) == (S["idxcell_0"], 2),
    "cell2rowcol": lambda S, V: (S["rowcols_0"], S["rowcols_1"]) == (S["idxcell_0"], 2),
    "slice": lambda S, V: S["zslice_0"] == S["xyslice_0"],
    "neighbours": lambda S, V: S["neighbours_0"] == 9,
    "upstream": lambda S, V: (S["idxup_0"], S["idxup_1"]) == (S["idxdown_0"], 9) and
    (S["flowdircode_0"], S["flowdircode_1"]) == (3, 3),
    "downstream": lambda S, V: S["idxdown_0"] == S["idxup_0"] and (S["flowdircode_0"], S["flowdircode_1"]) == (3, 3),
    "delineate_area": lambda S, V: S["idxcells_area_0"] == S["buffer1_0"] == S["buffer2_0"],
    "delineate_boundary": lambda S, V: S["idxcells_area_0"] == S["buffer_0"] == S["idxcells_boundary_0"],
    "exclude_zero_area_boundary": lambda S, V: S["xycoords_1"] == 2 and S["idxok_0"] == S["xycoords_0"],
    "delineate_river": lambda S, V: (S["data_0"], S["data_1"]) == (S["idxcells_0"], 5) and S["npoints_0"] == 1,
    "accumulate": lambda S, V: (S["accumulation_0"], S["accumulation_1"]) == (S["to_accumulate_0"], S["to_accumulate_1"]),
    "intersect": lambda S, V: (S["npoints_0"] == 1 and S["xy_area_1"] == 2 and
                               S["idxcells_0"] == S["weights_0"] == V["nrows"] * V["ncols"]),
    "voronoi": lambda S, V: S["weights_0"] == S["xypoints_0"],
    "slope": lambda S, V: (S["slopeval_0"], S["slopeval_1"]) == (S["altitude_0"], S["altitude_1"]),
    "points_inside_polygon": lambda S, V: S["inside_0"] == S["points_0"],
    "delineate_flowpathlengths_in_catchment":
        lambda S, V: (S["flowpathlengths_0"], S["flowpathlengths_1"]) == (S["idxcells_area_0"], 3),
}


def request(model, pairs, toks, extents):
    """driver line for a run with given extents (dict Buf -> n)"""
    ext = ",".join(f"{b}={int(extents.get(b, 0))}" for b, _ in pairs) or "-"
    return " ".join([model, ext] + [str(t) for t in toks])


def need_request(model, pairs, toks):
    bufs = ",".join(b for b, _ in pairs) or "-"
    return " ".join(["need", model, bufs] + [str(t) for t in toks])
