"""C03 — CRPS equals its definition and its decomposition is exact.

Model: lean/HydroVerif/Model/C03.lean (`c_crps` with use_weights=0/is_sorted=0 + the wrapper's filtering and shape
handling; the extension-level entry `c_hydrodiy_stat.crps` with flags, weights and caller-owned output arrays as
histories of operations; the executable definition `definitionCrps`);
theorems: lean/HydroVerif/Props/C03.lean; lemmas: lean/HydroVerif/Lemmas/C03Energy.lean, C03.lean, C03Entry.lean,
C03Pyx.lean, C03Round.lean.

Correspondence: every case is run through `hydrodiy.stat.metrics.crps` (extension rebuilt from the working
tree) and through the model driver; the 5 decomposition numbers and the (m+1)x7 table (except the 0/0 cells of
empty inner bins, which the property does not constrain) are compared with
the Float instance (<= 4 ulp; `resolution` condition-scaled because it is a difference), rejections are
compared as rejected-vs-accepted (error kinds by name are tallied as error_kind_differences, 0 on the unchanged tree), and on small cases the exact Rat instance is compared with the code to 1e-11 relative; on the
same small cases the Lean definition `definitionCrps` (exact, Rat) must equal the oracle's exact definition as a
rational. Extension level: histories on one pair of output arrays are run on the code and on `runOps`; the steps
that have the call shape of `metrics.crps` (zeroed outputs, flags 0, matching shapes, n >= 1) are compared (<= 4
ulp); all other steps (calls no public wrapper can make) are tallied in the evidence, never a disagreement.

Oracle (on the real code only, exact rationals, independent of the model): CRPS = mean of
E|X-y| - E|X-X'|/2 over the unsorted members; crps = reliability + potential; resolution = uncertainty -
potential; the three parts non-negative; reliability/potential equal Hersbach's definition computed from
min/max telescoping; uncertainty = pairwise formula = CRPS returned for the climatology ensemble; invariance
under member permutation, forecast permutation, exact shift, exact power-of-two scale (all outputs) and
inexact shift/scale (CRPS and uncertainty, 1-Lipschitz bound); forecasts with NaN observation ignored;
documented layouts ([n], [n,1], lists, strided, Fortran, integer) accepted.

Cases: exhaustive small grids (n<=2, m<=3, values {0,1,2}: every tie pattern / outlier pattern), tie-rich
dyadic grids, observations below / at / above the whole ensemble for every forecast, constant ensembles,
single member, random normal with wide dynamic range (1e-290 .. 1e304), n up to 40, m up to 30, grid data times
2^k over the whole exponent range (largest value just below 2^1021 with up to 70 forecasts, 2^+-512 where squares
over/underflow, granule 2^-960), exact power-of-two scaling to both ends of the range, NaN observations and all-NaN
rows; malformed stream: length mismatch, zero members, nothing valid; shape stream: observations / ensembles
given as scalars, vectors, [n,1], [1,n], [n,1,1], genuinely 2-D, empty, 3-D ensembles (model op crpsnd; rejected vs accepted, error kinds tallied);
history stream: 2-4 calls on the same argument objects with in-place edits of the arguments or of the returned
objects, equal-size re-assignments, NaN set/cleared, other arguments of the same or of another size (more / fewer
forecasts and members) in between, rejected calls in between, pickle/deepcopy round trips; extension-level
stream: 2-7 operations on one pair of output arrays (fill, call, call again = accumulate, explicit weights,
is_sorted=1 on sorted / unsorted rows, wrong shapes, zero forecasts, flag values other than 0/1; model op pyxrun):
only the call shape of metrics.crps (zeroed outputs, both flags 0, matching shapes, n >= 1) is compared, wherever
it stands in the history; all other steps are tallied as outside_property_differences (0 on the unchanged tree);
one long series (n > 46340). Non-trivial: accepted call with CRPS > 0.
"""
import errno
import itertools
import json
import math
from fractions import Fraction

from . import common as C

PID = "C03"
EPS = 2.0 ** -52
DEC = ["crps", "reliability", "resolution", "uncertainty", "potential"]
COLS = ["freq", "a", "b", "g", "rank", "reliability", "crps_potential"]
NAN = float("nan")


def isnan(x):
    return x != x


# --------------------------------------------------------------------------------------
# the real code
def as_arrays(np, case):
    """build the arguments in the layout the case asks for"""
    obs, ens, layout = case["obs"], case["ens"], case.get("layout", "flat")
    n, m = len(ens), case["m"]
    e = np.array(ens, dtype=np.float64).reshape(n, m)
    o = np.array(obs, dtype=np.float64)
    if layout == "flat":
        return o, e
    if layout == "column":
        return o.reshape(-1, 1), e
    if layout == "lists":
        return [float(x) for x in obs], [[float(x) for x in r] for r in ens]
    if layout == "fortran":
        return o, np.asfortranarray(e)
    if layout == "strided":
        big = np.full((2 * n + 1, 3 * m + 2), 7.5)
        big[1::2, 2::3] = e
        ob = np.full(3 * len(obs) + 1, -3.25)
        ob[::3][:len(obs)] = o
        return ob[::3][:len(obs)], big[1::2, 2::3][:n, :m]
    if layout == "int":
        return o.astype(np.int64), e.astype(np.int64)
    if layout == "scalar":
        return float(obs[0]), e[0]
    raise ValueError(layout)


def call_arrays(o, e):
    """metrics.crps on the given objects -> (canonical result, decomposition Series, table DataFrame)"""
    from hydrodiy.stat import metrics
    try:
        d, t = metrics.crps(o, e)
    except ValueError as ex:
        msg = str(ex)
        if "No valid data" in msg:
            return ("err", "noValidData"), None, None
        if "Expected ens with first dim" in msg:
            return ("err", "shape"), None, None
        if "obs is not 1D" in msg:
            return ("err", "obsNot1D"), None, None
        if "c_crps returns" in msg:
            return ("err", "edom" if msg.strip().endswith(str(errno.EDOM)) else "kernel:" + msg[-6:]), None, None
        return ("err", "other:ValueError:" + msg[:80]), None, None
    except Exception as ex:  # noqa
        return ("err", f"other:{type(ex).__name__}:{str(ex)[:80]}"), None, None
    try:
        dec = [float(d[k]) for k in DEC]
        tab = [float(x) for x in t[COLS].values.ravel()]
    except Exception as ex:  # noqa
        return ("err", f"other:labels:{type(ex).__name__}"), None, None
    return ("ok", dec, tab), d, t


def call_impl(case):
    import numpy as np
    o, e = as_arrays(np, case)
    return call_arrays(o, e)[0]


def canon(res):
    if res[0] == "err":
        return "err " + res[1]
    return "ok " + " ".join(C.f2h(x) for x in res[1]) + " " + C.flist(res[2])


def request(case, exact=False):
    flat = [x for r in case["ens"] for x in r]
    if exact:
        tok = lambda x: "nan" if isnan(x) else C.rat(x)  # noqa
        return (f"crpsq {len(case['ens'])} {case['m']} [" + ",".join(tok(x) for x in case["obs"]) + "] [" +
                ",".join(tok(x) for x in flat) + "]")
    return f"crpsf {len(case['ens'])} {case['m']} {C.flist(case['obs'])} {C.flist(flat)}"


def parse_model(rep):
    tk = rep.split()
    if tk[0] != "ok":
        return ("err", tk[1] if len(tk) > 1 else rep)
    return ("ok", [C.h2f(x) for x in tk[1:6]], C.parse_flist(tk[6]))


def parse_model_q(rep):
    tk = rep.split()
    if tk[0] != "ok":
        return ("err", tk[1] if len(tk) > 1 else rep)
    q = lambda s: None if s == "nan" else Fraction(s)  # noqa
    return ("ok", [q(x) for x in tk[1:6]], [q(x) for x in C.parse_list(tk[6])])


KIND_DIFFS = []


def same_float(impl, model, n=0):
    """Float model vs code: <= 4 ulp everywhere, except the uncertainty - a sum over the n(n-1)/2 pairs of
    observations whose order the property does not fix (DESIGN 9.1d): the oracle's own budget for that sum,
    8 (n + 8) 2^-52 relative; resolution (= unc - pot) scaled by its operands, with the same allowance"""
    if impl[0] != model[0]:
        return False
    if impl[0] == "err":
        # rejected vs accepted only (DESIGN 9.1d): the property names no error; class / message / which guard speaks
        # first are tallied in the evidence (error_kind_differences), not compared
        if impl[1] != model[1]:
            KIND_DIFFS.append({"code": impl[1][:120], "model": model[1][:60]})
        return True
    if len(impl[2]) != len(model[2]):
        return False
    for k, (a, b) in enumerate(zip(impl[1], model[1])):
        if k == 2:
            scale = max(abs(impl[1][3]), abs(impl[1][4]), abs(model[1][4]))
            if not (C.close(a, b, rel=0.0, abs_=(8 + (8 * (n + 8) if n else 0)) * EPS * scale, ulps=4)):
                return False
        elif not C.close(a, b, rel=(8 * (n + 8) * EPS if (k == 3 and n) else 0.0), ulps=4):
            return False
    # cells rank / reliability / crps_potential of an EMPTY inner bin (g = 0: the model has 0/0 = NaN there) are
    # not constrained by the property (the row never enters a sum): not compared
    return all(C.close(a, b, rel=0.0, ulps=4) for k, (a, b) in enumerate(zip(impl[2], model[2]))
               if not (isnan(b) and k % 7 in (4, 5, 6)))


def same_exact(impl, modelq, n, m):
    """exact (Rat) model vs code: the code's rounding only (absolute, scaled by the size of the data terms)"""
    if impl[0] != modelq[0]:
        return False
    if impl[0] == "err":
        return True              # rejected vs accepted only (kinds tallied by same_float)
    if len(impl[2]) != len(modelq[2]):
        return False
    scale = max([abs(x) for x in modelq[2][3::7] if x is not None] + [abs(modelq[1][0]), abs(modelq[1][3])])
    tol = Fraction(64 * (n * n + m * m + 8) * EPS)
    floor = Fraction(16 * (n * n + n * m + m + 8), 2 ** 1074)     # gradual underflow of a product (absolute)

    def ok(a, q, sc):
        if q is None:
            return True          # 0/0 cell of an empty inner bin: unconstrained
        return (not isnan(a)) and math.isfinite(a) and abs(Fraction(a) - q) <= tol * sc + floor
    return (all(ok(a, q, scale) for a, q in zip(impl[1], modelq[1])) and
            all(ok(a, q, Fraction(1) if k % 7 in (0, 4) else scale) for k, (a, q) in enumerate(zip(impl[2], modelq[2]))))


# --------------------------------------------------------------------------------------
# exact statement of the property (independent of the model)
def finite_part(case):
    """the forecasts the property keeps: non-missing observation (members are finite in every oracle case)"""
    rows = [(y, r) for y, r in zip(case["obs"], case["ens"]) if not isnan(y)]
    return [y for y, _ in rows], [r for _, r in rows]


def exact_parts(obs, ens):
    n, m = len(obs), len(ens[0])
    Y = [Fraction(y) for y in obs]
    X = [[Fraction(v) for v in r] for r in ens]
    tot = Fraction(0)
    for y, row in zip(Y, X):
        s1 = sum(abs(x - y) for x in row)
        srt = sorted(row)
        # sum_{k,l} |x_k - x_l| = 2 sum_k (2k - m + 1) x_(k)   (k = 0..m-1, sorted)
        s2 = 2 * sum((2 * k - m + 1) * v for k, v in enumerate(srt))
        if m <= 6:
            assert s2 == sum(abs(a - b) for a in row for b in row)
        tot += s1 / m - s2 / (2 * m * m)
    crps = tot / n
    ys = sorted(Y)
    unc = 2 * sum((2 * k - n + 1) * v for k, v in enumerate(ys)) / (2 * n * n)
    # Hersbach (2000) eq. 26-37, written with min/max telescoping
    w = Fraction(1, n)
    a = [Fraction(0)] * (m + 1)
    b = [Fraction(0)] * (m + 1)
    o0 = oN = Fraction(0)
    for y, row in zip(Y, X):
        e = sorted(row)
        b[0] += w * (max(y, e[0]) - y)
        a[m] += w * (y - min(y, e[-1]))
        for j in range(1, m):
            a[j] += w * (min(y, e[j]) - min(y, e[j - 1]))
            b[j] += w * (max(y, e[j]) - max(y, e[j - 1]))
        if y < e[0]:
            o0 += w
        if y < e[-1]:
            oN += w
    g = [Fraction(0)] * (m + 1)
    o = [None] * (m + 1)
    for j in range(1, m):
        g[j] = a[j] + b[j]
        o[j] = b[j] / g[j] if g[j] != 0 else None
    g[0], o[0] = (b[0] / o0 if o0 != 0 else Fraction(0)), o0          # eq. 33, low outliers
    g[m], o[m] = (a[m] / (1 - oN) if oN != 1 else Fraction(0)), oN    # eq. 33, high outliers
    reli = sum(g[j] * (o[j] - Fraction(j, m)) ** 2 for j in range(m + 1) if g[j] > 0)
    pot = sum(g[j] * o[j] * (1 - o[j]) for j in range(m + 1) if g[j] > 0)
    return {"crps": crps, "unc": unc, "reli": reli, "pot": pot, "G": sum(g), "a": a, "b": b}


TOP = 1021          # |values| <= 2^TOP: every difference, weighted sum and total of the kernel stays below 2^1023
BOTTOM = -960       # smallest granule 2^BOTTOM: granule / n stays a normal double (no gradual underflow in a product)


def dom_exp(n, m):
    """the oracle's magnitude bound for n forecasts of m members: |values| <= 2^dom_exp(n, m) keeps even the
    UN-NORMALISED defining sums finite (sum over the n forecasts, over the n^2 ordered pairs of observations, over
    the m^2 ordered pairs of members, each term <= 2 max|v|), so that the answer cannot depend on whether an
    implementation weights every term or normalises a raw sum once. Above it (up to 2^TOP, where the kernel as
    written is still exact) data is generated for the model/code correspondence only: there "equal to the
    definition" would hold or fail with the order of summation and normalisation, which the property leaves free."""
    k = max(n, m, 2)
    return 1022 - 2 * (k - 1).bit_length() - 1


def top_exp(vals):
    """smallest e with |v| < 2^e for all finite v (None when all are 0)"""
    big = max([abs(v) for v in vals if math.isfinite(v)] + [0.0])
    return None if big == 0 else math.frexp(big)[1]


def granule_exp(vals):
    """largest q such that every finite v is a multiple of 2^q (None when all are 0)"""
    qs = []
    for v in vals:
        if math.isfinite(v) and v != 0:
            num, den = Fraction(v).numerator, Fraction(v).denominator
            qs.append(((num & -num).bit_length() - 1) - (den.bit_length() - 1))
    return min(qs) if qs else None


def all_values(case):
    return [y for y in case["obs"]] + [x for r in case["ens"] for x in r]


def scaled(case, j):
    """the case with every value multiplied by 2^j (exact when the caller keeps granule and top in range)"""
    return {**case, "obs": [math.ldexp(y, j) for y in case["obs"]],
            "ens": [[math.ldexp(x, j) for x in r] for r in case["ens"]]}


def fr(x):
    """exact rational of a float returned by the code; +-inf / NaN become a huge sentinel so that every
    comparison with them fails (and is reported as a finding) instead of raising"""
    x = float(x)
    if math.isfinite(x):
        return Fraction(x)
    return Fraction(10 ** 400) * (-1 if x < 0 else 1)


def qclose(x, q, tol):
    return (not isnan(x)) and math.isfinite(x) and abs(Fraction(x) - q) <= tol


class Oracle:
    def __init__(self, ctx):
        self.ctx = ctx

    def flag(self, sig, what, case, **kw):
        self.ctx.finding(sig, what, {**case, **{k: (float(v) if isinstance(v, Fraction) else v) for k, v in kw.items()}})

    def basic(self, case, res):
        """definition / decomposition / signs on one accepted call; returns the exact parts"""
        obs, ens = finite_part(case)
        n, m = len(obs), case["m"]
        ex = exact_parts(obs, ens)
        crps, reli, resol, unc, pot = res[1]
        K = 16 * (n * n + m + 8) * EPS
        scale = max(ex["G"], ex["crps"], ex["unc"])
        # absolute floor: every product / sum of the kernel is rounded to a multiple of 2^-1074 at the bottom of
        # the exponent range (gradual underflow), and b0/o0, aN/(1-oN) amplify such an error by at most n
        self.floor = floor = Fraction(16 * (n * n + n * m + m + 8), 2 ** 1074)
        tolc = Fraction(8 * (n + m + 8) * EPS) * ex["crps"] + floor
        tolg = Fraction(K) * scale + floor
        self.tolfreq = Fraction(K)
        if not all(math.isfinite(v) for v in res[1]):
            self.flag("crps/non_finite", "a decomposition term is NaN or infinite on finite input", case, returned=res[1])
            return None, tolg
        if not qclose(crps, ex["crps"], tolc):
            self.flag("crps/value_ne_definition", "returned CRPS differs from mean(E|X-y| - E|X-X'|/2)", case,
                      returned=crps, required=ex["crps"])
        if any(isnan(v) or v < 0 for v in (reli, pot, unc)):
            self.flag("crps/negative_or_nan_component", "reliability, potential or uncertainty is negative or NaN",
                      case, reliability=reli, potential=pot, uncertainty=unc)
        else:
            if abs(fr(crps) - (fr(reli) + fr(pot))) > tolg:
                self.flag("crps/ne_reliability_plus_potential", "crps != reliability + potential", case,
                          crps=crps, reliability=reli, potential=pot)
            if abs(fr(resol) - (fr(unc) - fr(pot))) > Fraction(4 * EPS) * max(fr(unc), fr(pot)):
                self.flag("crps/resolution_ne_uncertainty_minus_potential", "resolution != uncertainty - potential",
                          case, resolution=resol, uncertainty=unc, potential=pot)
            if not qclose(reli, ex["reli"], tolg):
                self.flag("crps/reliability_ne_hersbach", "reliability differs from Hersbach's definition", case,
                          returned=reli, required=ex["reli"])
            if not qclose(pot, ex["pot"], tolg):
                self.flag("crps/potential_ne_hersbach", "potential CRPS differs from Hersbach's definition", case,
                          returned=pot, required=ex["pot"])
            if not qclose(unc, ex["unc"], Fraction(8 * (n + 8) * EPS) * ex["unc"] + floor):
                self.flag("crps/uncertainty_ne_pairwise", "uncertainty differs from sum|y_k-y_l|/(2 n^2)", case,
                          returned=unc, required=ex["unc"])
        return ex, tolg

    def climatology(self, case, res, ex):
        obs, _ = finite_part(case)
        n = len(obs)
        clim = call_impl({"obs": obs, "ens": [list(obs) for _ in obs], "m": n})
        if clim[0] != "ok":
            self.flag("crps/climatology_rejected", "crps(obs, climatology) is rejected", case, reply=clim[1])
            return
        tol = Fraction(16 * (2 * n + 16) * EPS) * ex["unc"] + Fraction(16 * (2 * n * n + n + 8), 2 ** 1074)
        if not qclose(clim[1][0], fr(res[1][3]), tol):
            self.flag("crps/uncertainty_ne_climatology_crps",
                      "uncertainty differs from the CRPS returned for the climatology ensemble", case,
                      uncertainty=res[1][3], climatology_crps=clim[1][0])

    def cmp_all(self, sig, what, case, res, other, tolg, factor=1.0, extra=None):
        """all outputs of `other` equal `factor` x outputs of `res` (frequencies unscaled)"""
        if other[0] != "ok":
            self.flag(sig, what + " (call rejected: " + str(other[1]) + ")", case, **(extra or {}))
            return
        f = Fraction(factor)
        bad = []
        for k, (x, y) in enumerate(zip(res[1], other[1])):
            t = tolg * f * (4 if k == 2 else 1) + self.floor
            if not qclose(y, fr(x) * f, t):
                bad.append(DEC[k])
        for k, (x, y) in enumerate(zip(res[2], other[2])):
            col = k % 7
            ff = f if col in (1, 2, 3, 5, 6) else Fraction(1)
            if isnan(x) or (isnan(y) and col in (4, 5, 6)):
                continue         # empty inner bin: cell unconstrained
            elif not qclose(y, fr(x) * ff, self.tolfreq if col in (0, 4) else tolg * f + self.floor):
                bad.append(f"table[{k // 7}].{COLS[col]}")
        if bad:
            self.flag(sig, what, case, differs=bad[:6], **(extra or {}))

    def invariances(self, case, res, ex, tolg, exact_grid):
        rng = self.ctx.rng
        obs, ens = case["obs"], case["ens"]
        n, m = len(obs), case["m"]
        # members
        ens2 = [rng.sample(r, len(r)) for r in ens]
        self.cmp_all("crps/member_order_dependent", "result depends on the order of ensemble members", case, res,
                     call_impl({**case, "ens": ens2, "layout": "flat"}), tolg, extra={"permuted_ens": ens2})
        # forecasts
        idx = list(range(n))
        rng.shuffle(idx)
        self.cmp_all("crps/forecast_order_dependent", "result depends on the order of forecasts", case, res,
                     call_impl({**case, "obs": [obs[i] for i in idx], "ens": [ens[i] for i in idx], "layout": "flat"}),
                     tolg, extra={"order": idx})
        vals = all_values(case)
        e, q = top_exp(vals), granule_exp(vals)
        if exact_grid:
            # data on a dyadic grid of granule 2^q below 2^e: shifts by multiples of the granule and scales by
            # powers of two are exact as long as the moved data stays inside [2^BOTTOM granule, 2^TOP]
            q = 0 if q is None else q
            e = q + 1 if e is None else e
            unit = Fraction(2) ** (q + 2)
            big = Fraction(max([abs(v) for v in vals if math.isfinite(v)] + [0.0]))
            top = dom_exp(n, m)
            cands = [c for c in (-8.0, -0.75, 0.25, 1.0, 16.5, 1024.0) if big + abs(Fraction(c)) * unit <= Fraction(2) ** top]
            if cands:
                c = float(Fraction(rng.choice(cands)) * unit)
                sh = call_impl({**case, "obs": [y + c for y in obs], "ens": [[x + c for x in r] for r in ens], "layout": "flat"})
                self.cmp_all("crps/shift_dependent", "result changes when a constant is added to observations and members",
                             case, res, sh, tolg, extra={"shift": c})
            # scale: a few ordinary powers of two, or all the way to the top / bottom of the double range
            js = [j for j in (-1, 1, -7, 6, top - e, top - 1 - e, 512 - e, -520 - q, BOTTOM - q)
                  if e + j <= top and q + j >= BOTTOM]
            j = rng.choice(js) if js else 0
            sc = call_impl({**scaled(case, j), "layout": "flat"})
            self.cmp_all("crps/scale_not_linear", "result does not scale linearly with a positive factor", case, res, sc,
                         tolg, factor=Fraction(2) ** j, extra={"scale": f"2^{j}"})
        else:
            fo, fe = finite_part(case)
            big = Fraction(max([abs(v) for v in fo] + [abs(x) for r in fe for x in r] + [0.0]))
            e = 1 if e is None else e
            top = dom_exp(n, m)
            lim = Fraction(2) ** top
            # inexact shift: a constant of the size of the data (when the sum stays inside the oracle's domain)
            cs = [r for r in (-3.7, 0.1, 12.3, 1e3) if big + abs(Fraction(r)) * Fraction(2) ** (e - 1) <= lim]
            # inexact scale: rho 2^j with j = 0, towards the top, towards the bottom of the range
            rho = rng.choice([0.1, 3.7, 12.3])
            j = rng.choice([0, 0, rng.randint(-20, 20), top - 5 - e, -900 - e])
            if not (big * Fraction(rho) * Fraction(2) ** j <= lim):
                j = 0 if big * Fraction(rho) <= lim else -e
            fac = Fraction(rho) * Fraction(2) ** j
            todo = [("scale", lambda v: math.ldexp(v, j) * rho, fac, None)]
            if cs:
                c = math.ldexp(rng.choice(cs), e - 1)
                todo.insert(0, ("shift", lambda v: v + c, Fraction(1), c))
            for kind, fun, fac, cst in todo:
                other = call_impl({**case, "obs": [fun(y) for y in obs], "ens": [[fun(x) for x in r] for r in ens], "layout": "flat"})
                cst = cst if kind == "shift" else f"{rho}*2^{j}"
                if other[0] != "ok":
                    self.flag(f"crps/{kind}_rejected", f"call rejected after {kind}", case, reply=other[1], constant=cst)
                    continue
                # CRPS and uncertainty are 1-Lipschitz in the sup norm of the inputs: rounding of v+c / v*c only
                delta = Fraction(EPS) * (big * fac + (abs(Fraction(cst)) if kind == "shift" else 0))
                tol = 4 * delta + tolg * fac + self.floor
                for k in (0, 3):
                    if not qclose(other[1][k], fr(res[1][k]) * fac, tol):
                        self.flag("crps/shift_dependent" if kind == "shift" else "crps/scale_not_linear",
                                  f"{DEC[k]} not invariant/linear under {kind}", case, constant=cst,
                                  before=res[1][k], after=other[1][k])

    def missing(self, case, res):
        obs, ens = finite_part(case)
        if len(obs) == len(case["obs"]):
            return
        other = call_impl({"obs": obs, "ens": ens, "m": case["m"]})
        if other[0] != "ok" or canon(other) != canon(res):
            self.flag("crps/missing_observation_not_ignored",
                      "forecasts with a NaN observation change the result", case, filtered=canon(other)[:200])


# --------------------------------------------------------------------------------------
# generators
def grid_values(rng, k=4, span=12):
    return [rng.randint(-span, span) / k for _ in range(rng.randint(2, 6))]


def gen_cases(ctx):
    rng = ctx.rng
    cases = []

    def add(family, obs, ens, m=None, layout="flat", grid=False):
        m = len(ens[0]) if m is None else m
        cases.append({"family": family, "obs": [float(x) for x in obs], "ens": [[float(x) for x in r] for r in ens],
                      "m": m, "layout": layout, "grid": grid})

    # 1. exhaustive small spaces: every tie / outlier pattern
    small = [(1, 1), (1, 2), (1, 3), (2, 1), (2, 2)] + ([(2, 3), (3, 1)] if ctx.thorough else [])
    for n, m in small:
        for vals in itertools.product((0.0, 1.0, 2.0), repeat=n + n * m):
            add(f"exhaustive/n{n}m{m}", vals[:n], [vals[n + i * m: n + (i + 1) * m] for i in range(n)], grid=True)
    if not ctx.thorough:
        for _ in range(300):
            vals = [rng.choice((0.0, 1.0, 2.0)) for _ in range(2 + 6)]
            add("exhaustive/n2m3-sample", vals[:2], [vals[2:5], vals[5:8]], grid=True)

    # 2. tie-rich dyadic grids
    for _ in range(ctx.scale(500, 5000)):
        n, m = rng.randint(1, 12), rng.randint(1, 8)
        vs = grid_values(rng)
        add("ties", [rng.choice(vs) for _ in range(n)], [[rng.choice(vs) for _ in range(m)] for _ in range(n)], grid=True)

    # 3. observation below / at / above the whole ensemble for every forecast; constant ensembles
    for _ in range(ctx.scale(400, 4000)):
        n, m = rng.randint(1, 10), rng.randint(1, 7)
        mode = rng.choice(["below", "at_min", "at_max", "above", "mixed_out", "const_below", "const_at", "const_above",
                           "at_max_or_above", "below_or_at_min"])
        obs, ens = [], []
        for i in range(n):
            if mode.startswith("const"):
                v = rng.randint(-8, 8) / 2
                row = [v] * m
            else:
                row = [rng.randint(-8, 8) / 2 for _ in range(m)]
            lo, hi = min(row), max(row)
            d = rng.randint(1, 6) / 2
            md = mode if mode not in ("mixed_out", "at_max_or_above", "below_or_at_min") else \
                rng.choice({"mixed_out": ["below", "above", "at_min", "at_max"], "at_max_or_above": ["at_max", "above"],
                            "below_or_at_min": ["below", "at_min"]}[mode])
            y = {"below": lo - d, "at_min": lo, "at_max": hi, "above": hi + d,
                 "const_below": lo - d, "const_at": lo, "const_above": hi + d}[md]
            obs.append(y)
            ens.append(row)
        add("outlier/" + mode, obs, ens, grid=True)

    # 3b. the whole exponent range of finite doubles: tie-rich / outlier-rich grid data times 2^k, with k taking
    # the data to the edge of the oracle's domain (largest value just below 2^dom_exp(n, m): the un-normalised
    # sums are still finite, four times larger data would overflow them), to 2^TOP (correspondence with the model
    # only: the kernel as written is exact there), to where a squared difference overflows / underflows (2^512,
    # 2^-520), and to the bottom (granule 2^BOTTOM); n up to 70 so that many terms of the largest size are summed
    for _ in range(ctx.scale(240, 2400)):
        n = rng.choice([1, 2, 3, rng.randint(4, 12), rng.randint(13, 70)])
        m = rng.choice([1, 2, rng.randint(3, 9)])
        vs = grid_values(rng) + [rng.randint(-12, 12) / 4 for _ in range(3)]
        mode = rng.choice(["any", "any", "above", "below", "const"])
        obs, ens = [], []
        for i in range(n):
            row = [rng.choice(vs) for _ in range(m)] if mode != "const" else [rng.choice(vs)] * m
            y = {"any": rng.choice(vs), "const": rng.choice(vs), "above": max(row) + rng.randint(0, 4) / 4,
                 "below": min(row) - rng.randint(0, 4) / 4}[mode]
            obs.append(y)
            ens.append(row)
        vals = obs + [x for r in ens for x in r]
        e, q = top_exp(vals), granule_exp(vals)
        if e is None:
            continue
        band = rng.choice(["top", "top", "top-1", "abs_top", "sq_over", "sq_under", "bottom", "mid"])
        top = dom_exp(n, m)
        j = {"top": top - e, "top-1": top - 1 - e, "abs_top": TOP - e, "sq_over": rng.randint(505, 530) - e, "sq_under": -rng.randint(515, 545) - q,
             "bottom": BOTTOM - q, "mid": rng.randint(-400, 400)}[band]
        c = scaled({"obs": obs, "ens": ens}, j)
        add(f"magnitude/{band}/{mode}", c["obs"], c["ens"], grid=True)

    # 4. random normal, wide dynamic range, larger sizes
    for _ in range(ctx.scale(500, 5000)):
        n = rng.choice([1, 2, 3, rng.randint(1, 40)])
        m = rng.choice([1, 2, rng.randint(1, 30)])
        sc = 10.0 ** rng.choice([0, 0, 0, -100, -8, 3, 9, 100, -290, -160, 160, 300])
        loc = rng.choice([0.0, 0.0, 5.0, -1e3 if sc < 1e299 else -7.0]) * sc
        obs = [loc + sc * rng.gauss(0, 1) for _ in range(n)]
        ens = [[loc + sc * rng.gauss(0, 1) * rng.choice([1, 1, 3]) for _ in range(m)] for _ in range(n)]
        if rng.random() < 0.3:           # plant exact ties between members and with the observation
            for i in range(n):
                if m >= 2 and rng.random() < 0.5:
                    ens[i][rng.randrange(m)] = ens[i][rng.randrange(m)]
                if rng.random() < 0.5:
                    obs[i] = ens[i][rng.randrange(m)]
        add("random", obs, ens)

    # 5. NaN observations, all-NaN rows
    for _ in range(ctx.scale(300, 3000)):
        n, m = rng.randint(1, 10), rng.randint(1, 6)
        vs = grid_values(rng)
        obs = [rng.choice(vs) for _ in range(n)]
        ens = [[rng.choice(vs) for _ in range(m)] for _ in range(n)]
        for i in range(n):
            r = rng.random()
            if r < 0.3:
                obs[i] = NAN
            elif r < 0.4:
                ens[i] = [NAN] * m
            elif r < 0.45:
                obs[i] = NAN
                ens[i] = [NAN] * m
        add("nan", obs, ens, grid=True)

    # 6. layouts
    for _ in range(ctx.scale(300, 2000)):
        n, m = rng.choice([1, 1, 2, rng.randint(1, 9)]), rng.randint(1, 6)
        layout = rng.choice(["column", "lists", "fortran", "strided", "int", "scalar"])
        if layout == "scalar":
            n = 1
        if layout == "int":
            obs = [float(rng.randint(-5, 5)) for _ in range(n)]
            ens = [[float(rng.randint(-5, 5)) for _ in range(m)] for _ in range(n)]
        else:
            vs = grid_values(rng)
            obs = [rng.choice(vs) for _ in range(n)]
            ens = [[rng.choice(vs) for _ in range(m)] for _ in range(n)]
        add("layout/" + layout, obs, ens, layout=layout, grid=True)

    # 7. malformed stream
    for _ in range(ctx.scale(60, 400)):
        kind = rng.choice(["len_mismatch", "zero_members", "all_nan_obs", "all_nan_rows"])
        n, m = rng.randint(1, 6), rng.randint(1, 4)
        obs = [float(rng.randint(-3, 3)) for _ in range(n)]
        ens = [[float(rng.randint(-3, 3)) for _ in range(m)] for _ in range(n)]
        if kind == "len_mismatch":
            k = rng.choice([n + 1, n + 2] + ([n - 1] if n > 1 else []))
            ens = [[float(rng.randint(-3, 3)) for _ in range(m)] for _ in range(k)]
        elif kind == "zero_members":
            ens, m = [[] for _ in range(n)], 0
        elif kind == "all_nan_obs":
            obs = [NAN] * n
        else:
            ens = [[NAN] * m for _ in range(n)]
        add("malformed/" + kind, obs, ens, m=m)
    return cases


def in_quantifier(case):
    """inside the property's region: shapes agree, m >= 1, members finite, some observation present; and
    |values| <= 2^dom_exp(n, m): the defining sums are finite doubles in every order of summation / normalisation"""
    if len(case["obs"]) != len(case["ens"]) or case["m"] < 1:
        return False
    obs, ens = finite_part(case)
    lim = 2.0 ** dom_exp(len(case["obs"]), case["m"])
    return (len(obs) >= 1 and all(math.isfinite(x) and abs(x) <= lim for r in ens for x in r) and
            all(math.isfinite(y) and abs(y) <= lim for y in obs))


def kept_all_finite(case):
    """every row the wrapper keeps has only finite members (else the model declines: nanMember)"""
    for y, r in zip(case["obs"], case["ens"]):
        if not isnan(y) and any(not isnan(x) for x in r) and any(isnan(x) for x in r):
            return False
    return True


def run_cases(ctx, cases, tag, precomputed=None):
    """correspondence + oracle; `precomputed` = results already obtained on the real code (history streams)"""
    orc = Oracle(ctx)
    rng = ctx.rng
    results = []
    reqs, reqs_q, idx_q = [], [], []
    for k, case in enumerate(cases):
        res = precomputed[k] if precomputed is not None else call_impl(case)
        results.append(res)
        reqs.append(request(case))
        n, m = len(case["obs"]), case["m"]
        if n <= 6 and m <= 5 and (case.get("grid") or rng.random() < 0.25):
            reqs_q.append(request(case, exact=True))
            idx_q.append(k)
    replies = ctx.lean.ask(reqs)
    replies_q = ctx.lean.ask(reqs_q)
    qmap = dict(zip(idx_q, replies_q))
    # the definition the theorems compare with (`definitionCrps`, run exactly over Rat by the driver) is the
    # definition the oracle uses: equal as rationals
    idx_d = [k for k in idx_q if in_quantifier(cases[k])]
    reqs_d = []
    for k in idx_d:
        c = cases[k]
        reqs_d.append(f"crpsdef {len(c['ens'])} {c['m']} [" + ",".join("nan" if isnan(y) else C.rat(y) for y in c["obs"]) + "] [" +
                      ",".join(C.rat(x) if math.isfinite(x) else "0" for r in c["ens"] for x in r) + "]")
    for k, rep in zip(idx_d, ctx.lean.ask(reqs_d)):
        fo, fe = finite_part(cases[k])
        want = exact_parts(fo, fe)["crps"]
        tk = rep.split()
        slim = {kk: cases[k][kk] for kk in ("family", "obs", "ens", "m") if kk in cases[k]}
        if len(tk) == 2 and tk[0] == "ok" and Fraction(tk[1]) == want:
            ctx.compare("C03/definition", slim, "agree", "agree")
        else:
            ctx.compare("C03/definition", slim, str(want), rep[:200])
    for k, (case, res, rep) in enumerate(zip(cases, results, replies)):
        fam = case.get("family", tag)
        n, m = len(case["obs"]), case["m"]
        model = parse_model(rep)
        slim = {kk: case[kk] for kk in ("family", "obs", "ens", "m", "layout") if kk in case}
        ok = res[0] == "ok"
        ctx.count((fam, case["obs"], case["ens"], case.get("layout")), ok and res[1][0] > 0,
                  branch=(fam if ok else fam + "->" + res[1].split(":")[0]),
                  sample={"obs": case["obs"][:4], "ens": [r[:4] for r in case["ens"][:3]], "reply": canon(res)[:120]})
        if kept_all_finite(case):
            if same_float(res, model, n=len(case["obs"])):
                ctx.compare("C03/float", slim, "agree", "agree")
            else:
                ctx.compare("C03/float", slim, canon(res)[:2000], rep[:2000])
            if k in qmap:
                mq = parse_model_q(qmap[k])
                if same_exact(res, mq, max(n, 1), max(m, 1)):
                    ctx.compare("C03/exact", slim, "agree", "agree")
                else:
                    ctx.compare("C03/exact", slim, canon(res)[:2000], qmap[k][:2000])
        # ---- oracle on the real code
        if not in_quantifier(case):
            continue
        if not ok:
            lay = case.get("layout", "flat")
            nn = len(finite_part(case)[0])
            sig = f"crps/rejects_valid_input/layout={lay}" + ("/n=1" if lay == "column" and len(case["obs"]) == 1 else "")
            orc.flag(sig, "finite, well-shaped input is rejected: " + res[1], slim, kept_forecasts=nn)
            continue
        ex, tolg = orc.basic(slim, res)
        if ex is None:
            continue
        big = len(case["obs"]) * case["m"] > 200
        if not big or rng.random() < 0.2:
            orc.climatology(slim, res, ex)
        if rng.random() < (0.15 if big else 0.5):
            orc.invariances(slim, res, ex, tolg, bool(case.get("grid")))
        orc.missing(slim, res)


def shape_stream(ctx):
    """shape handling of __check_ensemble_data: obs/ens given with many shapes (scalars, vectors, [n,1], [1,n],
    [n,1,1], genuinely 2-D observations, 1-D ensembles, empty axes); model op `crpsnd`; rejected vs accepted (error kinds tallied).
    Oracle: the documented layouts ([n] or [n,1] observations with an [n,p] ensemble) give the result of the
    plain [n] call."""
    import numpy as np
    rng = ctx.rng
    reqs, impls, cases = [], [], []
    for _ in range(ctx.scale(400, 3000)):
        n, m = rng.choice([1, 1, 2, 3, rng.randint(1, 7)]), rng.choice([1, 2, rng.randint(1, 5)])
        okind = rng.choice(["vec", "col", "col", "row", "col3", "scalar", "mat", "mat_t", "empty", "other_len"])
        ekind = rng.choice(["mat", "mat", "mat", "vec", "scalar", "mat_t", "zero_cols", "zero_rows", "cube"])
        oshape = {"vec": (n,), "col": (n, 1), "row": (1, n), "col3": (n, 1, 1), "scalar": (), "mat": (n, 2) if n > 1 else (2, 2),
                  "mat_t": (2, n) if n > 1 else (3, 2), "empty": (0,), "other_len": (n + 1,)}[okind]
        eshape = {"mat": (n, m), "vec": (m,), "scalar": (), "mat_t": (m, n), "zero_cols": (n, 0), "zero_rows": (0, m),
                  "cube": rng.choice([(n, m, 1), (n, 1, m), (1, n, m), (n, m, n), (n, n, m), (n, m, 2), (1, 1, m)])}[ekind]
        vs = grid_values(rng)
        o = np.array([rng.choice(vs) for _ in range(int(np.prod(oshape)))], dtype=np.float64).reshape(oshape)
        e = np.array([rng.choice(vs) for _ in range(int(np.prod(eshape)))], dtype=np.float64).reshape(eshape)
        if o.size and rng.random() < 0.2:
            o.flat[rng.randrange(o.size)] = NAN
        res = call_arrays(o, e)[0]
        case = {"family": f"shape/{okind}x{ekind}", "obs_shape": list(oshape), "obs": [float(x) for x in o.ravel()],
                "ens_shape": list(eshape), "ens": [float(x) for x in e.ravel()]}
        reqs.append(f"crpsnd {C.ilist(oshape)} {C.flist(o.ravel())} {C.ilist(eshape)} {C.flist(e.ravel())}")
        impls.append(res)
        cases.append(case)
        ctx.count(("shape", case["obs_shape"], case["ens_shape"], case["obs"], case["ens"]), res[0] == "ok",
                  branch=f"shape/{okind}x{ekind}" + ("" if res[0] == "ok" else "->" + res[1].split(":")[0]))
        # oracle: documented layouts agree with the plain vector call
        if okind in ("vec", "col") and ekind == "mat" and not all(isnan(x) for x in o.ravel()):
            flat = call_arrays(np.ascontiguousarray(o.reshape(-1)), e)[0]
            if res[0] != "ok":
                ctx.finding(f"crps/rejects_valid_input/layout={'column' if okind == 'col' else 'flat'}" +
                            ("/n=1" if okind == "col" and n == 1 else ""),
                            "finite, well-shaped input is rejected: " + res[1], case)
            elif canon(flat) != canon(res):
                ctx.finding("crps/layout_changes_result", "the [n,1] observation layout gives another result than [n]", case)
    for req, res, rep, case in zip(reqs, impls, ctx.lean.ask(reqs), cases):
        model = parse_model(rep)
        if len(case["ens_shape"]) > 2:
            # never answered: the model says ensNot2D (or obsNot1D first); the code raises a ValueError or an
            # IndexError depending on how the shapes broadcast - only "rejected" is compared
            ok = res[0] == "err" and model[0] == "err"
        else:
            ok = same_float(res, model, n=len(case["obs"]))
        if ok:
            ctx.compare("C03/shape", case, "agree", "agree")
        else:
            ctx.compare("C03/shape", case, canon(res)[:1500], rep[:1500])


def history_stream(ctx):
    """short histories on ONE pair of argument objects: call -> (edit the returned Series/DataFrame in place |
    edit obs / ens in place, equal size | set / clear a NaN observation | call with other arguments of the same
    shape | deepcopy / pickle round trip of the arguments) -> call again, 2-4 steps. Every answer is compared with
    the model and checked by the oracle on the state the arguments had at that call; earlier answers must not
    change when the arguments are edited afterwards."""
    import copy
    import pickle
    import numpy as np
    rng = ctx.rng
    cases, results = [], []

    def snap(o, e, fam):
        return {"family": fam, "obs": [float(x) for x in o], "ens": [[float(x) for x in r] for r in e],
                "m": int(e.shape[1]), "layout": "flat", "grid": True}

    def scribble(d, t):
        for obj in (d, t):
            if obj is None:
                continue
            try:
                a = obj.to_numpy(copy=False)
                a.setflags(write=True)
                a[...] = -99.0
            except Exception:  # noqa
                pass
            try:
                obj.iloc[:] = -77.0
            except Exception:  # noqa
                pass

    for _ in range(ctx.scale(250, 2500)):
        n, m = rng.randint(1, 8), rng.randint(1, 5)
        vs = grid_values(rng) + [rng.randint(-12, 12) / 4 for _ in range(2)]
        obs = np.array([rng.choice(vs) for _ in range(n)], dtype=np.float64)
        ens = np.array([[rng.choice(vs) for _ in range(m)] for _ in range(n)], dtype=np.float64)
        steps = [rng.choice(["edit_returned", "edit_obs", "edit_ens", "sort_row", "reverse", "nan_toggle", "other_args",
                             "other_size", "other_size", "rejected_call", "roundtrip"]) for _ in range(rng.randint(1, 3))]
        fam = "history/" + "+".join(steps)
        held = []            # (snapshot of an earlier answer, the live objects)
        res, d, t = call_arrays(obs, ens)
        cases.append(snap(obs, ens, fam))
        results.append(res)
        held.append((res, d, t))
        for st in steps:
            o_call, e_call = obs, ens
            if st == "edit_returned":
                scribble(d, t)
                held.pop()
            elif st == "edit_obs":
                obs[rng.randrange(n)] = rng.choice(vs)
            elif st == "edit_ens":
                ens[rng.randrange(n), rng.randrange(m)] = rng.choice(vs)
            elif st == "sort_row":
                ens[rng.randrange(n)].sort()
            elif st == "reverse":
                obs[:] = obs[::-1].copy()
                ens[:] = ens[::-1].copy()
            elif st == "nan_toggle":
                k = rng.randrange(n)
                if isnan(obs[k]):
                    obs[k] = rng.choice(vs)
                elif sum(1 for y in obs if not isnan(y)) > 1:
                    obs[k] = NAN
            elif st == "other_args":
                o2 = np.array([rng.choice(vs) for _ in range(n)], dtype=np.float64)
                e2 = np.array([[rng.choice(vs) for _ in range(m)] for _ in range(n)], dtype=np.float64)
                r2 = call_arrays(o2, e2)[0]
                cases.append(snap(o2, e2, fam))
                results.append(r2)
            elif st == "other_size":
                # a call with more / fewer forecasts and members in between (anything kept per size between calls)
                n2, m2 = rng.choice([1, n + rng.randint(1, 30), max(1, n - 1), rng.randint(1, 60)]), rng.choice([1, m + 3, rng.randint(1, 9)])
                o2 = np.array([rng.choice(vs) for _ in range(n2)], dtype=np.float64)
                e2 = np.array([[rng.choice(vs) for _ in range(m2)] for _ in range(n2)], dtype=np.float64)
                if n2 > 1 and rng.random() < 0.3:
                    o2[rng.randrange(n2)] = NAN
                cases.append(snap(o2, e2, fam))
                results.append(call_arrays(o2, e2)[0])
            elif st == "rejected_call":
                # a call that fails (length mismatch / nothing valid) must leave nothing behind
                # (what such a call returns is compared with the model in the malformed stream)
                call_arrays(np.full(n + 1, 1.0) if rng.random() < 0.5 else np.full(n, NAN), ens)
            elif st == "roundtrip":
                o_call = pickle.loads(pickle.dumps(obs)) if rng.random() < 0.5 else copy.deepcopy(obs)
                e_call = pickle.loads(pickle.dumps(ens)) if rng.random() < 0.5 else copy.deepcopy(ens)
            res, d, t = call_arrays(o_call, e_call)
            cases.append(snap(o_call, e_call, fam))
            results.append(res)
            # answers handed out earlier are not views of anything the later calls or edits touch
            for (r0, d0, t0) in held:
                if r0[0] == "ok":
                    now = [float(d0[k]) for k in DEC] + [float(x) for x in t0[COLS].values.ravel()]
                    if C.flist(now) != C.flist(r0[1] + r0[2]):
                        ctx.finding("crps/history/earlier_answer_changed",
                                    "a result returned earlier changed after a later call / an in-place edit of the arguments",
                                    {**cases[-1], "steps": steps})
            held.append((res, d, t))
    run_cases(ctx, cases, "history", precomputed=results)


def pyx_stream(ctx):
    """the extension-level entry point `c_hydrodiy_stat.crps(use_weights, is_sorted, obs, sim, weights, table,
    decompos)` driven directly: histories of 2-7 operations on ONE pair of output arrays, run on the real code and
    on the model (`runOps`).
    COMPARED (disagreement when different): only the call `metrics.crps` itself makes - both output arrays zeroed
    just before, use_weights=0, is_sorted=0, matching shapes, n >= 1, a zero weight vector of length n - wherever
    it stands in the history (after accumulating calls, failed calls, fills with other values): outcome 0 and the
    content of both arrays within the rounding rule of the value stream (<= 4 ulp).
    TALLIED ONLY (`outside_property_differences` in the evidence, 0 on the unchanged tree, never a disagreement or a
    finding - DESIGN 9.1d: calls no public wrapper can make): stale / non-zeroed outputs (accumulation), explicit
    weights, is_sorted=1 on sorted / unsorted rows, flag values other than 0/1, wrong shapes, zero forecasts, what a
    failing call leaves in the arrays, which layer rejects and with which code, and the bit-for-bit relations
    explicit-uniform-weights = plain and is_sorted=1-on-sorted-rows = plain."""
    import numpy as np
    import c_hydrodiy_stat as cs
    rng = ctx.rng
    reqs, runs = [], []
    outside, outside_steps = [], 0

    def state(dec, tab):
        return ("ok", [float(x) for x in dec], [float(x) for x in tab.ravel()])

    def do_call(uw, srt, obs, sim, w, tab, dec):
        try:
            ierr = cs.crps(uw, srt, obs, sim, w, tab, dec)
        except AssertionError:
            return "assertion"
        except Exception as ex:  # noqa  (another layer rejecting: tallied, see above)
            return "raised:" + type(ex).__name__
        return "ok" if ierr == 0 else ("edom" if ierr == errno.EDOM else f"ierr{ierr}")

    for _ in range(ctx.scale(200, 2000)):
        m = rng.randint(1, 5)
        tab, dec = np.zeros((m + 1, 7)), np.zeros(5)
        vs = grid_values(rng) + [rng.randint(-12, 12) / 4 for _ in range(2)]
        toks, outs, kinds, strict = [], [], [], []
        zeroed = True          # both arrays hold zeros on both sides (start of the history / just after fill 0)
        last_args = None
        todo = []
        for step in range(rng.randint(2, 7)):
            kind = "fill0" if step == 0 and rng.random() < 0.5 else rng.choice(
                ["public", "public", "public", "fill", "call", "again", "weights", "uniform_weights", "sorted_ok",
                 "sorted_bad", "assert_len", "assert_cols", "n0", "flags"])
            todo += ["fill0", "call"] if kind == "public" else [kind]
        for kind in todo:
            before = (dec.copy(), tab.copy())
            if kind in ("fill0", "fill"):
                v = 0.0 if kind == "fill0" else rng.choice([1.0, -2.5, 0.125, 7.0])
                tab[...] = v
                dec[...] = v
                toks.append(f"fill {C.f2h(v)}")
                outs.append(("ok", state(dec, tab)))
                kinds.append(kind)
                strict.append(False)
                zeroed = v == 0.0
                continue
            n = 0 if kind == "n0" else rng.choice([1, 2, 3, rng.randint(1, 9)])
            cols = m if kind != "assert_cols" else rng.choice([m + 1, max(1, m - 1) if m > 1 else m + 2])
            obs = np.array([rng.choice(vs) for _ in range(n)], dtype=np.float64)
            sim = np.array([[rng.choice(vs) for _ in range(cols)] for _ in range(n)], dtype=np.float64).reshape(n, cols)
            uw, srt = 0, 0
            w = np.zeros(n if kind == "call" else rng.choice([n, n, 0, n + 2]))
            if kind == "again" and last_args is not None:
                obs, sim, w = last_args
            if kind == "assert_len":
                obs = np.array([rng.choice(vs) for _ in range(n + rng.choice([1, 2]))], dtype=np.float64)
            if kind == "weights":
                raw = [rng.choice([1, 1, 2, 3, 0]) for _ in range(n)]
                tot = sum(raw) or 1
                w = np.array([r / tot for r in raw] + [9.0] * rng.choice([0, 0, 2]), dtype=np.float64)
                uw = 1
            if kind == "uniform_weights":
                w = np.array([1.0 / n if n else 0.0] * n + [5.0] * rng.choice([0, 1]), dtype=np.float64)
                uw = 1
            if kind in ("sorted_ok", "sorted_bad"):
                sim = np.sort(sim, axis=1)
                srt = rng.choice([1, 1, 2, -1])
                if kind == "sorted_bad" and cols >= 2 and n >= 1:
                    i = rng.randrange(n)
                    lo, hi = sim[i, 0], sim[i, -1]
                    if lo == hi:
                        sim[i, -1] = hi = lo + 1.0
                    sim[i, 0], sim[i, -1] = hi, lo
            if kind == "flags":
                uw, srt = rng.choice([2, -1, 0]), 0
            if kind == "call":
                last_args = (obs, sim, w)
            # the call shape of metrics.crps: compared; everything else: tallied
            public = (zeroed and uw == 0 and srt == 0 and len(obs) == sim.shape[0] and sim.shape[1] == m
                      and len(obs) >= 1 and len(w) == len(obs) and not w.any())
            out = do_call(uw, srt, obs, sim, w, tab, dec)
            zeroed = False
            toks.append(f"call {uw} {srt} {sim.shape[0]} {sim.shape[1]} {C.flist(obs)} {C.flist(sim.ravel())} {C.flist(w)}")
            outs.append((out, state(dec, tab)))
            kinds.append(kind)
            strict.append(public)
            case = {"family": "pyx/" + kind, "m": m, "history": kinds[:], "use_weights": uw, "is_sorted": srt,
                    "obs": [float(x) for x in obs], "sim": [[float(x) for x in r] for r in sim], "weights": [float(x) for x in w]}
            if out != "ok" and not (np.array_equal(before[0], dec, equal_nan=True) and np.array_equal(before[1], tab, equal_nan=True)):
                outside.append({"what": "a failing extension-level call changed the output arrays", **case, "outcome": out})
            # bit-for-bit relations on the real code (run on scratch arrays holding what the arrays held before)
            if out == "ok" and kind in ("uniform_weights", "sorted_ok"):
                d2, t2 = before[0].copy(), before[1].copy()
                o2 = do_call(0, srt if kind == "uniform_weights" else 0, obs, sim, np.zeros(len(obs)), t2, d2)
                if o2 != "ok" or C.flist(d2) != C.flist(dec) or C.flist(t2.ravel()) != C.flist(tab.ravel()):
                    outside.append({"what": "explicit uniform weights / is_sorted=1 on sorted rows differ from the plain call", **case})
            ctx.count(("pyx", m, kinds[-1], case["obs"], case["sim"], case["weights"], uw, srt, public), out == "ok" and len(obs) > 0,
                      branch="pyx/" + ("public_call" if public else kind) + ("" if out == "ok" else "->" + out.split(":")[0]))
        reqs.append(f"pyxrun {m} | " + " | ".join(toks))
        runs.append((m, kinds, outs, strict))
    for req, (m, kinds, outs, strict), rep in zip(reqs, runs, ctx.lean.ask(reqs)):
        parts = rep.split(" | ")
        case = {"family": "pyx/history", "m": m, "history": kinds, "request": req[:3000]}
        if len(parts) != len(outs) + 1 or not parts[-1].startswith("final "):
            ctx.compare("C03/pyx", case, "history of %d operations" % len(outs), rep[:300])
            continue
        good = True
        for k, ((out, st), part, pub) in enumerate(zip(outs, parts[:-1], strict)):
            tk = part.split()
            mout = tk[1] if tk[0] == "err" else "ok"
            mst = parse_model(" ".join(tk[2:] if tk[0] == "err" else tk))
            same = mout == out and same_float(st, mst, n=9)
            if pub:
                if not same:
                    good = False
                    ctx.compare("C03/pyx", {**case, "step": k, "kind": kinds[k]}, out + " " + canon(st)[:1200], part[:1200])
                    break
            elif kinds[k] not in ("fill0", "fill"):
                outside_steps += 1
                if not same:
                    outside.append({"what": "outcome / content of the output arrays after a call no public wrapper makes differs from the model",
                                    "m": m, "history": kinds[:k + 1], "step": k, "code": (out + " " + canon(st))[:300], "model": part[:300]})
        if good:
            ctx.compare("C03/pyx", case, "agree", "agree")
    ctx.extra["outside_property_differences"] = {"count": len(outside), "steps_tallied": outside_steps, "samples": outside[:5]}


def large_n(ctx):
    """oracle only (the kernel is O(n^2), the model is not run): one call with many forecasts, where C `int`
    products of the number of forecasts (n*n >= 2^31 from n = 46341) or float sums of n weights could go wrong"""
    import numpy as np
    from hydrodiy.stat import metrics
    rng = ctx.rng
    for n in ([rng.randint(46341, 47500)] if not ctx.thorough else [46341, rng.randint(46342, 65535), 65536, rng.randint(65537, 70000)]):
        m = 1
        obs = np.array([rng.gauss(0, 2) for _ in range(n)])
        ens = (obs + np.array([rng.gauss(0, 1) for _ in range(n)])).reshape(n, m)
        case = {"family": "large_n", "n": n, "m": m, "seed_values": "obs ~ N(0,2), member = obs + N(0,1)"}
        try:
            d, _ = metrics.crps(obs, ens)
        except Exception as e:  # noqa
            ctx.finding("crps/large_n/raises", "crps raises on a long series", {**case, "error": f"{type(e).__name__}: {e}"[:200]})
            continue
        so = np.sort(obs)
        # sum_{i<k} |o_i - o_k| = sum_k (2k - n + 1) o_(k)  on the sorted sample
        unc_def = float(np.sum((2 * np.arange(n) - n + 1) * so)) / (float(n) * float(n))
        mae = float(np.mean(np.abs(ens[:, 0] - obs)))
        vals = {k: float(d[k]) for k in DEC}
        ctx.count(("large_n", n), True, "large_n", sample={"n": n, "m": m, **vals})
        if not all(math.isfinite(v) for v in vals.values()) or vals["uncertainty"] < 0 or vals["reliability"] < 0 or vals["potential"] < 0:
            ctx.finding("crps/large_n/negative_or_nan_component", "a decomposition term is negative or not finite for a long series", {**case, **vals})
        elif abs(vals["uncertainty"] - unc_def) > 1e-9 * max(1.0, unc_def):
            ctx.finding("crps/large_n/uncertainty_ne_pairwise", "uncertainty differs from sum|y_k-y_l|/(2 n^2) for a long series", {**case, **vals, "required": unc_def})
        elif abs(vals["crps"] - mae) > 1e-9 * max(1.0, mae):
            ctx.finding("crps/large_n/value_ne_definition", "single-member CRPS differs from the mean absolute error for a long series", {**case, **vals, "required": mae})
        elif abs(vals["crps"] - (vals["reliability"] + vals["potential"])) > 1e-9 or abs(vals["resolution"] - (vals["uncertainty"] - vals["potential"])) > 1e-9:
            ctx.finding("crps/large_n/decomposition", "decomposition identities fail for a long series", {**case, **vals})


def body(ctx):
    del KIND_DIFFS[:]
    # replay of one recorded case
    if getattr(ctx, "replay", None) and isinstance(ctx.replay.get("case"), dict) and "obs" in ctx.replay["case"]:
        c = ctx.replay["case"]
        run_cases(ctx, [{"family": c.get("family", "replay"), "obs": [float(x) for x in c["obs"]],
                         "ens": [[float(x) for x in r] for r in c["ens"]], "m": c["m"],
                         "layout": c.get("layout", "flat"), "grid": False}], "replay")
    # corpus
    cdir = C.ROOT / "corpus" / PID
    corpus = []
    if cdir.exists():
        for f in sorted(cdir.glob("*.json")):
            c = json.loads(f.read_text())
            corpus.append({"family": "corpus/" + f.stem, "obs": [float(x) for x in c["obs"]],
                           "ens": [[float(x) for x in r] for r in c["ens"]], "m": c["m"],
                           "layout": c.get("layout", "flat"), "grid": bool(c.get("grid", False))})
    run_cases(ctx, corpus, "corpus")
    run_cases(ctx, gen_cases(ctx), "gen")
    shape_stream(ctx)
    history_stream(ctx)
    pyx_stream(ctx)
    large_n(ctx)
    ctx.extra["error_kind_differences"] = {"count": len(KIND_DIFFS), "samples": KIND_DIFFS[:5]}
    ctx.extra["rule"] = __doc__.split("Cases:")[1].strip()
    ctx.assumptions += [
        "glibc qsort returns a sorted permutation (model parameter `sort`, hypothesis SortOK; the driver uses a stable merge sort)",
        "IEEE rounding is executed (Float instance, <= 4 ulp to the code), not proved: theorems are over ordered fields",
        "members of kept forecasts are finite (a kept forecast with some NaN members is outside the modelled domain)",
        "the oracle flags only where |values| <= 2^1022 / (4 max(n, m)^2), i.e. where the un-normalised defining sums (over forecasts, over ordered pairs of observations / members) are finite doubles in any order of summation and normalisation; between that bound and 2^1021 (where the kernel as written is still exact) data is generated for the model/code correspondence only; nothing larger is generated (a single x - y need not be finite)",
        "extension level: use_weights = 1 with fewer weights than forecasts and ncol = 0 make c_crps read outside its arrays; never generated (model declines: weightsLen / shape)",
        "IEEE double arithmetic short of overflow is a monotone idempotent rounding of exact arithmetic fixing 0 and 1 (what signs_under_any_monotone_rounding is instantiated with; trusted)",
        "numpy astype/atleast_nd/boolean indexing and pandas notnull are exercised through the wrapper, not modelled internally",
    ]


def main(tier, replay=None):
    return C.run_check(PID, tier, body, needs_native=True, replay=replay,
                       trusted=["glibc qsort (sorted permutation)", "numpy/pandas array plumbing of the wrapper",
                                "IEEE-754 double arithmetic of the compiled kernel (compared, not proved)"])
