"""Self-test of the C18 check (DESIGN section 7): applies, one at a time, realistic breaking changes to a scratch
worktree of the repository under test (created under /tmp, removed at the end) and runs `./check C18` with
HYDROVERIF_REPO pointing at it.

    /venv/bin/python -m harness.c18_mutants [names...]        (TIER=thorough for the thorough tier)

Expected: every mutant ends with exit 1. Those tagged FAILING_INPUT must come with an oracle finding (an argument
modified or two calls that differ); those tagged MODEL_ONLY change which buffer reaches a kernel, or what a kernel
writes, without any effect the caller can see: they must break the correspondence and end with
`no-failing-input-found`.  Not used by the check itself.
"""
import json
import os
import subprocess
import sys
from pathlib import Path

ROOT = Path(__file__).resolve().parent.parent
REPO = os.environ.get("HYDROVERIF_REPO", "/repo")
WT = f"/tmp/c18-mutants-{os.getpid()}"

MET = "src/hydrodiy/stat/metrics.py"
DUT = "src/hydrodiy/data/dutils.py"
SUT = "src/hydrodiy/stat/sutils.py"
ARM = "src/hydrodiy/stat/armodels.py"
GRD = "src/hydrodiy/gis/grid.py"
CRPS = "src/hydrodiy/stat/c_crps.c"
BOX = "src/hydrodiy/plot/boxplot.py"

MUTANTS = {
    # name: (expectation, file, [(old, new), ...])
    "M1_adtest_asarray": ("FAILING_INPUT", MET, [
        ("    unifdata = np.atleast_1d(unifdata).astype(np.float64)\n",
         "    unifdata = np.asarray(np.atleast_1d(unifdata), dtype=np.float64)\n")]),
    "M2_ensemble_inplace_compaction": ("FAILING_INPUT", MET, [
        ("    obs = np.atleast_1d(obs).astype(np.float64)\n    if obs.ndim > 1:",
         "    obs = np.asarray(np.atleast_1d(obs), dtype=np.float64)\n    if obs.ndim > 1:"),
        ("    obs = obs[idx]\n    ens = ens[idx, :]",
         "    nok = int(np.sum(idx))\n    obs[:nok] = obs[idx]\n    obs = obs[:nok]\n    ens = ens[idx, :]")]),
    "M3_monthly2daily_dropped_copy": ("FAILING_INPUT", DUT, [("    sec = se.copy()\n", "    sec = se\n")]),
    "M4_peak_error_dropped_copy": ("FAILING_INPUT", MET, [
        ("    obsc = np.array(obs).squeeze().copy()\n", "    obsc = np.asarray(obs).squeeze()\n")]),
    "M5_flathomogen_output_over_input": ("FAILING_INPUT", DUT, [
        ("    inputs = inputs.astype(np.float64)\n    outputs = 0.*inputs\n\n    # Run C function\n"
         "    ierr = c_hydrodiy_data.flathomogen(",
         "    inputs = np.asarray(inputs, dtype=np.float64)\n    outputs = inputs\n\n    # Run C function\n"
         "    ierr = c_hydrodiy_data.flathomogen(")]),
    "M6_standard_normal_call_state": ("FAILING_INPUT", SUT, [
        ("def standard_normal(x, cst=0., sorted=False, rank_method=\"average\"):\n",
         "_SN_CALLS = [0]\n\n\ndef standard_normal(x, cst=0., sorted=False, rank_method=\"average\"):\n"
         "    _SN_CALLS[0] += 1\n    cst = cst if _SN_CALLS[0] % 2 else min(0.5, cst + 0.1)\n")]),
    "M7_c_crps_sorts_sim_in_place": ("MODEL_ONLY", CRPS, [
        ("        if(is_sorted==0)\n            qsort(ensemb, ncol, sizeof(double), compare);",
         "        if(is_sorted==0)\n        {\n            qsort(sim+ncol*i, ncol, sizeof(double), compare);\n"
         "            for(j=0;j<ncol;j++) ensemb[j] = sim[ncol*i+j];\n        }")]),
    "M8_gsmooth_dropped_copy": ("FAILING_INPUT", GRD, [("    z0 = grid.data.copy()\n", "    z0 = grid.data\n")]),
    "M9_aggregate_view_of_inputs": ("MODEL_ONLY", DUT, [
        ("    aggindex = np.array(aggindex).astype(np.int32)\n    inputs = inputs.astype(np.float64)\n"
         "    outputs = 0.*inputs\n    iend",
         "    aggindex = np.array(aggindex).astype(np.int32)\n    inputs = np.asarray(inputs, dtype=np.float64)\n"
         "    outputs = 0.*inputs\n    iend")]),
    "M10_armodel_sim_in_place": ("FAILING_INPUT", ARM, [
        ("    innov = np.atleast_1d(innov).astype(np.float64)",
         "    innov = np.asarray(np.atleast_1d(innov), dtype=np.float64)"),
        ("    outputs = np.zeros_like(innov)", "    outputs = innov")]),
    "M11_pareto_asarray": ("MODEL_ONLY", SUT, [
        ("    data = data.astype(np.float64)\n\n    if data.ndim != 2:",
         "    data = np.asarray(data, dtype=np.float64)\n\n    if data.ndim != 2:")]),
    "M12_boxplot_frame_not_copied": ("FAILING_INPUT", BOX, [
        ("                data = pd.DataFrame(data).astype(np.float64)\n",
         "                data = pd.DataFrame(data, copy=False)\n"
         "                data.iloc[:, :] = np.sort(data.values.astype(np.float64), axis=0)\n")]),
    # a work buffer allocated once and handed out by every call: two consecutive calls with the same argument agree,
    # but a later call with another cell rewrites the first result
    "M13_neighbours_shared_result_buffer": ("FAILING_INPUT", GRD, [
        ("        neighbours = np.zeros(9).astype(np.int64)\n\n        ierr = c_hydrodiy_gis.neighbours(",
         "        if not hasattr(self, \"_nbuf\"):\n            self._nbuf = np.zeros(9).astype(np.int64)\n"
         "        neighbours = self._nbuf\n        ierr = c_hydrodiy_gis.neighbours(")]),
    "M14_ppos_module_level_buffer": ("FAILING_INPUT", SUT, [
        ("def ppos(nval, cst=0.3):\n",
         "_PPOS_BUF = np.zeros(10000)\n\n\ndef _ppos_shared(nval, cst=0.3):\n    out = _PPOS_BUF[:nval]\n"
         "    out[:] = _ppos_orig(nval, cst)\n    return out\n\n\ndef _ppos_orig(nval, cst=0.3):\n"),
        ("def acf(data, maxlag=1, idx=None):\n", "ppos = _ppos_shared\n\n\ndef acf(data, maxlag=1, idx=None):\n")]),
}


def main():
    names = sys.argv[1:] or list(MUTANTS)
    tier = os.environ.get("TIER", "quick")
    subprocess.run(["git", "-C", REPO, "worktree", "add", "-q", "--detach", WT, "HEAD"], check=True)
    bad = 0
    try:
        for name in names:
            expect, rel, edits = MUTANTS[name]
            subprocess.run(["git", "-C", WT, "checkout", "-q", "."], check=True)
            p = Path(WT) / rel
            s = p.read_text()
            for old, new in edits:
                assert old in s, f"{name}: text to replace not found in {rel}"
                s = s.replace(old, new, 1)
            p.write_text(s)
            env = dict(os.environ, HYDROVERIF_REPO=WT, VERIF_NO_LEANCHECKER="1")
            r = subprocess.run([str(ROOT / "check"), "C18", "--tier", tier], env=env, stdout=subprocess.PIPE,
                               stderr=subprocess.STDOUT, text=True)
            ev = json.loads((ROOT / "evidence" / "C18.json").read_text())["coverage"]
            sigs = sorted(ev["oracle_findings"])
            nofail = "no-failing-input-found" in r.stdout
            ok = r.returncode == 1 and ((expect == "FAILING_INPUT" and sigs) or (expect == "MODEL_ONLY" and nofail))
            bad += 0 if ok else 1
            print(f"{name:38s} expect={expect:13s} exit={r.returncode} findings={len(sigs)} "
                  f"disagreements={ev['correspondence_disagreements']} {'OK' if ok else 'NOT AS EXPECTED'}"
                  f"  {sigs[:2]}")
    finally:
        subprocess.run(["git", "-C", REPO, "worktree", "remove", "--force", WT])
    print("all mutants behave as expected" if not bad else f"{bad} mutant(s) not as expected")
    return 1 if bad else 0


if __name__ == "__main__":
    sys.exit(main())
