"""C13 — grids and catchments survive save/load, dictionary export, cloning and clipping.

Model: lean/HydroVerif/Model/C13.lean (header writer / reader on characters, dtype and pixel-type tables, byte
order encode/decode, data path, dict export/import, clip arithmetic on top of the C07 geometry model, catchment
dictionaries, array store for clone independence); theorems: lean/HydroVerif/Props/C13.lean.

Correspondence (real code vs compiled model driver, every observable the property constrains):
  save      header file written by Grid.save (line set; float tokens canonicalised to their bits) and the bytes of
            the .bil file, against `save`;
  load      the real header text (verbatim, numbers parsed by the model's own float()/int()) and the real data bytes
            through Grid.from_header / from_stream / from_zip, against `fromStream`: shape, corner, cell size (bits),
            dtype, no-data word, cell words, name, comment, parent attributes, byte order;
  foreign   synthesised headers: BYTEORDER M with big-endian data for every dtype, ULXMAP/XDIM variants, NODATA vs
            NODATA_VALUE, CRLF, key case, extra keys and blanks, missing NROWS, header without data;
  malformed missing NCOLS, bad byte order / pixel type / NBITS, one-token lines, blank lines, wrong item count,
            non-numeric tokens, no-data outside the type: error class compared and differences REPORTED in the evidence
            (`malformed_header_differences`) - the treatment of text that is not a valid header is not constrained by
            the property, so it cannot break the correspondence;
  setter    Grid.data setter (own dtype, with and without finite integer mindata/maxdata) against `setData`; float grids
            with mindata / maxdata set through the setters (finite, +-inf, NaN bounds; never a zero bound), the setter
            rejected for mindata > maxdata keeping the new bound, against `setMin / setMax / clipWord` (`run`, `setdata`);
  dict      to_dict (dtype string, no-data text canonicalised) and from_dict of the REAL dictionary against
            `toDict/fromDict`; from_dict with optional keys removed (defaults of Grid.__init__), name / ncols removed
            (KeyError), the no-data value given as a number instead of text, against `fromDictP`;  np.dtype(str) and the pixel-type regex on generated strings against the tables;
  externals str()/float()/dtype() of float16 (all 65536 words in the thorough tier), float32, float64 scalars: the facts
            the theorems take as hypotheses (IOok, NodataPrintable), checked directly;
  clone     clone(), clone(own dtype), clone(other dtype) against `clone/cloneAs`, then random interleavings of item
            writes (Grid.__setitem__ and through the array the getter returns), fill and data rebinding on original
            and clone against the array-store model (`Store.clone / cloneMap`), np.shares_memory after every step;
            the flow-direction grid held by a Catchment;
  clip      Grid.clip on boxes with both corners inside the extent against `clip` (bit-equal corner, data, parent; corners
            given in the wrong order - outside the property - raise or give an empty grid in both):
            free boxes and lattice-aligned ones (decimal cell sizes 0.1, 0.05, 0.025, ...; corners ON cell edges, on
            centres, on quarters, and one ulp either side);
  histories a raster of either byte order is loaded, (edited,) saved again to a new path and loaded once more, all dtypes;
            on ONE object (2-4 steps, every answer compared with the model / oracle on the CURRENT state): save -> edits
            (item writes, writes through the returned array, fill, equal-size data re-assignment, re-assignment of name,
            comment, corner, cell size, no-data) -> save again to the same path -> load (`edits`, `save`, `load`); edit of the
            array given to the setter; load -> edit -> to_dict -> from_dict, dictionary edited by the caller -> to_dict again,
            same files loaded again; clone of a clone with writes on any of the three (`store3`); clip of a clip, parent
            edited between clips, clip edited; catchment exported, export edited by the caller, re-delineated (failing delineations -
            outlet outside the grid, buffer too small - in between: areas reset, to_dict raises), exported again (`crun`);
  machine   every public mutator on ONE object, accepted or REJECTED, one `run` request per call (state before, call, state
            after, error class): item writes with any python index (negative, out of range), fill / no-data / mindata /
            maxdata with python ints in and out of range, floats (NaN, inf, fractions), texts (" 12 ", "abc", "1e3"), dtype
            scalars; data assignments of another shape (one more row / column, transposed, 1-d, 0-d, 3-d); Grid.load on files
            of the right and of a wrong size in either byte order; grid[idx] read back (`getitem`). After every rejected call
            and at the end the object must still survive clone / dictionary / save + load (oracle `still_a_grid`); the same
            rejected assignments inside the clone-independence histories (`store`, `storeas`, `store3`) and between two clips;
  files     save(dir/name) for names ending with ".bil", with "bil" only (xbil, .bil, a.Tbil), or with neither, then
            from_header / from_zip on the name, its .hdr sibling, Path.stem + ".hdr", the bare stem: files written, files
            found, grid loaded, against `saveFS / fromHeaderFS / fromZipFS`;
  catchment Catchment.to_dict / from_dict (directly and through json) after a real delineation, with and without inlets:
            random flow direction grids, and routed ones (spanning tree to the outlet around interior closed depressions)
            whose area encloses one or several holes, with inlets next to the holes; the falsy values are generated
            regularly (outlet = cell 0, inlets containing cell 0, empty inlets list vs None, no-data 0 / 0.0, name ""): outlet, inlets, area and filled area
            as sets of cells, answers of isin(filled=False/True).
Oracle (real objects only, independent of the model): bitwise equality of cell values after setter, save/load
(little-endian as saved, big-endian as synthesised), clone; equality of shape, corner, cell size (bits), dtype and
no-data value (NaN = NaN) after save/load, dict round trip, clone; clone independence both ways (clone(), clone(own dtype), clone(other dtype); np.shares_memory); every clipped
cell, located through the clipped grid's OWN georeferencing (its cell centres), holds the value the parent holds at that
coordinate (parent.coord2cell of the centre) and that centre is the parent's centre to 4 ulp of the coordinates'
magnitude - claimed for every box clear of the outer boundary, corners on cell edges included; the exact window is
claimed when no corner is within 64 ulp of a cell edge; catchment outlet, inlets, area and filled area after the dict round trip.
Cases: dtypes int8..int64, uint8..uint64, float16/32/64 in rotation; shapes 1x1 .. 6x6 (64x64 in the thorough tier);
cell words = type extremes, sign bit, 2^53+1, 2^62+1, NaN/inf/-0/denormal patterns, then random bits; no-data = same
pool; corner and cell size = 0, -0, 0.1, 1/3, denormal, max, 1e16/1e22 (repr switches) then random finite bit
patterns; names/comments printable ASCII with blanks and capitals, 15 % of them with line breaks. Non-trivial = round trip performed and compared.
"""
import io
import os
import json
import random
import re
import shutil
import struct
import traceback
import warnings
import zipfile
from fractions import Fraction
from pathlib import Path

import numpy as np

from . import common as C

PID = "C13"
DTYPES = ["int8", "int16", "int32", "int64", "uint8", "uint16", "uint32", "uint64", "float16", "float32", "float64"]
FLOAT_KEYS = {"XLLCORNER", "YLLCORNER", "CELLSIZE"}
ERRCLASS = {"malformedLine": {"IndexError"}, "badByteorder": {"ValueError"}, "xdimYdim": {"ValueError"},
            "wrongCount": {"ValueError"}, "badShape": {"ValueError"}, "badDtype": {"TypeError"},
            "missingDims": {"TypeError"}, "missingKey": {"KeyError"}, "badNodata": {"OverflowError", "ValueError"},
            "pixelUnrecognised": {"ValueError"}, "notDelineated": {"ValueError"}, "badIndex": {"IndexError"},
            "badBounds": {"ValueError"}, "delineationFailed": {"ValueError"}}


# ----------------------------------------------------------------------------- protocol helpers
def enc(s):
    return ",".join(["x"] + [str(ord(c)) for c in s])


def dec(tok):
    return "".join(chr(int(t)) for t in tok.split(",") if t not in ("x", ""))


def rawhex(x):
    return struct.pack(">d", float(x)).hex()


def uview(arr):
    arr = np.ascontiguousarray(arr)
    return arr.view("u%d" % arr.dtype.itemsize)


def word_of(value, t):
    return int(np.array([value], dtype=t).view("u%d" % np.dtype(t).itemsize)[0])


def is_nan_word(w, t):
    t = np.dtype(t)
    if t.kind != "f" or w >= 1 << (8 * t.itemsize):
        return False
    v = np.array([w], dtype="u%d" % t.itemsize).view(t)[0]
    return bool(v != v)


def fmt_mat(arr):
    u = uview(arr)
    return "[" + ";".join(",".join(str(int(v)) for v in row) for row in u) + "]"


def parse_mat(tok):
    body = tok[1:-1]
    if body == "":
        return []
    return [[int(v) for v in r.split(",")] if r != "" else [] for r in body.split(";")]


def pval_tok(v):
    if isinstance(v, (bool, np.bool_)):
        raise ValueError("bool attribute")
    if isinstance(v, (int, np.integer)):
        v = int(v)
        return "0,%d,%d" % (1 if v < 0 else 0, abs(v))
    if isinstance(v, (float, np.floating)):
        return "1,%d" % struct.unpack(">Q", struct.pack(">d", float(v)))[0]
    return ",".join(["2"] + [str(ord(c)) for c in str(v)])


def pval_value(v):
    """value of an attribute, whatever its representation: exact number, or text"""
    if isinstance(v, (int, np.integer)) and not isinstance(v, (bool, np.bool_)):
        return str(Fraction(int(v)))
    if isinstance(v, (float, np.floating)):
        return str(Fraction(float(v))) if np.isfinite(v) else repr(float(v))
    return "t:" + str(v)


def model_pval_value(tok):
    """same for a value in the driver's encoding (tag,payload)"""
    f = tok.split(",")
    if f[0] == "0":
        return str(Fraction(-int(f[2]) if f[1] == "1" else int(f[2])))
    if f[0] == "1":
        x = struct.unpack(">d", struct.pack(">Q", int(f[1])))[0]
        return str(Fraction(x)) if np.isfinite(x) else repr(x)
    return "t:" + "".join(chr(int(c)) for c in f[1:] if c != "")


def parent_of(g):
    return {k: v for k, v in vars(g).items() if k.startswith("parentgrid_")}


def parent_toks(p):
    keys = list(p.keys())
    return "[" + ";".join(enc(k) for k in keys) + "] [" + ";".join(pval_tok(p[k]) for k in keys) + "]"


def parse_parent(pk, pv):
    ks = [] if pk == "[]" else [dec(k) for k in pk[1:-1].split(";")]
    vs = [] if pv == "[]" else pv[1:-1].split(";")
    return sorted(zip(ks, vs))


def bound_tok(b, t):
    """mindata / maxdata as the model stores them: `-` for the python floats -inf / +inf of __init__ (no bound), the integer
    for a bound of an integer grid, the bit pattern of the scalar for a bound of a float grid"""
    t = np.dtype(t)
    if type(b) is float:
        return "-" if not np.isfinite(b) else str(word_of(b, t) if t.kind == "f" else int(b))
    if t.kind == "f":
        return str(word_of(b, t))
    return str(int(b))


def grid_toks(g, data=None):
    t = np.dtype(g.dtype)
    data = g.data if data is None else data
    return " ".join([enc(g.name), enc(g.comment), str(int(g.nrows)), str(int(g.ncols)), rawhex(g.xllcorner),
                     rawhex(g.yllcorner), rawhex(g.cellsize), t.kind, str(t.itemsize), str(word_of(g.nodata, t)),
                     bound_tok(g._mindata, t), bound_tok(g._maxdata, t), fmt_mat(data), parent_toks(parent_of(g))])


def obs_real(g, bounds=False):
    """observables of a real grid, in the shape obs_model returns (`bounds`: mindata / maxdata too)"""
    t = np.dtype(g.dtype)
    if bounds:
        return {**obs_real(g), "bounds": [bound_tok(g._mindata, t), bound_tok(g._maxdata, t)]}
    nod = word_of(g.nodata, t) if type(g.nodata) is t.type else ("wrongtype", repr(g.nodata))
    if isinstance(nod, int) and is_nan_word(nod, t):
        nod = "nan"
    return {"name": g.name, "comment": g.comment, "nrows": int(g.nrows), "ncols": int(g.ncols),
            "xll": rawhex(g.xllcorner), "yll": rawhex(g.yllcorner), "csz": rawhex(g.cellsize),
            "dtype": t.kind + str(t.itemsize), "nodata": nod,
            "data": [[int(v) for v in r] for r in uview(g.data)] if g.data.dtype == t else ("wrongdtype", str(g.data.dtype)),
            "parent": sorted((k, pval_value(v)) for k, v in parent_of(g).items())}


def obs_model(toks):
    name, comment, nrows, ncols, xll, yll, csz, kind, nbytes, nodata, lo, hi, data, pk, pv = toks
    t = np.dtype(kind + nbytes)
    nod = int(nodata)
    if is_nan_word(nod, t):
        nod = "nan"
    return {"name": dec(name), "comment": dec(comment), "nrows": int(nrows), "ncols": int(ncols), "xll": xll, "yll": yll,
            "csz": csz, "dtype": kind + nbytes, "nodata": nod, "data": parse_mat(data), "bounds": [lo, hi], "parent": sorted((k, model_pval_value(v)) for k, v in parse_parent(pk, pv))}


def diff_obs(a, b, skip=()):
    return [k for k in a if k not in skip and a[k] != b[k]]


# ----------------------------------------------------------------------------- generators
def special_words(t):
    t = np.dtype(t)
    b = 8 * t.itemsize
    ws = [0, 1, (1 << b) - 1, 1 << (b - 1), (1 << (b - 1)) - 1, (1 << (b - 1)) + 1]
    if b == 64 and t.kind in "iu":
        ws += [(1 << 53) + 1, (1 << 62) + 1, (1 << 63) - 1025, (1 << 64) - (1 << 53) - 1]
    if t.kind == "f":
        mb = {16: 10, 32: 23, 64: 52}[b]
        expall = ((1 << (b - 1 - mb)) - 1) << mb
        ws += [expall, expall | (1 << (b - 1)), expall | (1 << (mb - 1)), expall | 1, expall | (1 << (b - 1)) | 5,
               1, (1 << mb) - 1, 1 << mb, expall - 1]
    return ws


def gen_words(rng, t, n):
    t = np.dtype(t)
    b = 8 * t.itemsize
    sp = special_words(t)
    rng.shuffle(sp)
    out = []
    for i in range(n):
        if i < len(sp) and rng.random() < 0.7:
            out.append(sp[i])
        else:
            out.append(rng.getrandbits(b))
    rng.shuffle(out)
    return out


def gen_float(rng):
    k = rng.random()
    if k < 0.35:
        return rng.choice([0.0, -0.0, 1.0, 0.1, 1.0 / 3.0, 5e-324, 2.2250738585072014e-308, 1.7976931348623157e308,
                           -1e-7, 1e16, 9999999999999998.0, 1e22, 1e21, 123456789012345680.0, -43.74375, 112.90125,
                           0.0025, 1e-5, 0.0001, 2.5e-16, -1.5, 4503599627370497.0])
    if k < 0.75:
        while True:
            x = struct.unpack(">d", struct.pack(">Q", rng.getrandbits(64)))[0]
            if x == x and abs(x) != float("inf"):
                return x
    return rng.uniform(-1, 1) * 10 ** rng.randint(-12, 12)


def gen_text(rng, maxlen=14):
    pool = "abcXYZ 019_-.:#,/()%+=[]'\"" + "  "
    n = rng.choice([0, 1, 3, 8, maxlen])
    txt = "".join(rng.choice(pool) for _ in range(n))
    if rng.random() < 0.15:     # free text may hold line breaks (multi-line comments)
        i = rng.randint(0, len(txt))
        txt = txt[:i] + rng.choice(["\n", "\r\n", "\r", "\n\n", "\nNROWS 7\n", "\nx"]) + txt[i:]
    return txt


def gen_shape(ctx, rng):
    if ctx.thorough and rng.random() < 0.1:
        return rng.choice([(64, 64), (1, 64), (64, 1), (17, 33)])
    r = rng.random()
    if r < 0.2:
        return (1, 1)
    if r < 0.35:
        return (1, rng.randint(2, 6))
    if r < 0.5:
        return (rng.randint(2, 6), 1)
    return (rng.randint(1, 6), rng.randint(1, 6))


def make_grid(Grid, rng, tname, shape, georef=None, name=None, comment=None):
    t = np.dtype(tname)
    nr, nc = shape
    xll, yll, csz = georef if georef else (gen_float(rng), gen_float(rng), gen_float(rng))
    nodw = gen_words(rng, t, 1)[0]
    nod = np.array([nodw], dtype="u%d" % t.itemsize).view(t)[0]
    if t.kind in "iu" and rng.random() < 0.5:
        nod = int(nod)
    g = Grid(gen_text(rng) if name is None else name, nc, nr, cellsize=csz, xllcorner=xll, yllcorner=yll,
             dtype=t.type, nodata=nod, comment=gen_text(rng, 30) if comment is None else comment)
    vals = np.array(gen_words(rng, t, nr * nc), dtype="u%d" % t.itemsize).view(t).reshape(nr, nc)
    return g, vals, nodw


def exc_class(e):
    return type(e).__name__


def exc_chain(e):
    """names of the exception's classes up to Exception, joined by | (a subclass of ValueError is a ValueError)"""
    return "|".join(c.__name__ for c in type(e).__mro__ if c not in (Exception, BaseException, object))


def class_matches(names, allowed):
    return any(n in allowed for n in str(names).split("|"))


# ----------------------------------------------------------------------------- oracle helpers
def same_value(a, b):
    return bool(a == b) or bool(a != a and b != b)


def check_meta(ctx, entry, g, g2, case, georef=True):
    """property: identical shape, georeferencing, data type and no-data value"""
    if tuple(g2.shape) != tuple(g.shape) or int(g2.nrows) != int(g.nrows) or int(g2.ncols) != int(g.ncols):
        ctx.finding(f"{entry}/shape", "shape changed", {**case, "shape": [list(g.shape), list(g2.shape)]})
    if georef:
        for a in ("xllcorner", "yllcorner", "cellsize"):
            if rawhex(getattr(g, a)) != rawhex(getattr(g2, a)):
                ctx.finding(f"{entry}/georef/{a}", "georeferencing not reproduced exactly",
                            {**case, "attr": a, "wrote": repr(float(getattr(g, a))), "got": repr(float(getattr(g2, a)))})
    if np.dtype(g2.dtype) != np.dtype(g.dtype) or g2.data.dtype != g.data.dtype:
        ctx.finding(f"{entry}/dtype", "data type changed", {**case, "dtype": [str(np.dtype(g.dtype)), str(np.dtype(g2.dtype)), str(g2.data.dtype)]})
    elif not same_value(g.nodata, g2.nodata) or type(g2.nodata) is not type(g.nodata):
        kind = np.dtype(g.dtype).kind
        ctx.finding(f"{entry}/nodata/{'int' if kind in 'iu' else 'float'}", "no-data value changed",
                    {**case, "nodata": [repr(g.nodata), repr(g2.nodata)]})


def check_bits(ctx, sig, what, expected, got, case):
    if expected.dtype != got.dtype or expected.shape != got.shape or expected.tobytes() != got.tobytes():
        bad = None
        if expected.shape == got.shape and expected.dtype == got.dtype:
            idx = np.argwhere(uview(expected) != uview(got))
            if len(idx):
                i, j = idx[0]
                bad = {"cell": [int(i), int(j)], "expected_word": int(uview(expected)[i, j]), "got_word": int(uview(got)[i, j])}
        ctx.finding(sig, what, {**case, "first_difference": bad, "dtypes": [str(expected.dtype), str(got.dtype)]})
        return False
    return True


def data_class(t, vals):
    """predicate naming the class of values involved (for signatures)"""
    t = np.dtype(t)
    if t.kind in "iu" and t.itemsize == 8:
        big = any(abs(int(v)) > 2 ** 53 for v in np.asarray(vals).flat)
        return "int64_above_2p53" if big else "int64_small"
    return t.kind + str(8 * t.itemsize)


# ----------------------------------------------------------------------------- the check
def body(ctx):
    warnings.simplefilter("ignore")
    from hydrodiy.gis.grid import Grid, Catchment, FLOWDIRCODE
    rng = ctx.rng
    reqs, checks = [], []          # model requests and what to compare the replies with
    outside_diffs = []             # calls outside the property's quantifier (probes of theorem hypotheses): reported, never an alarm
    work = C.BUILD / f"c13-work-{ctx.seed}-{ctx.tier}-{os.getpid()}"   # per process: two runs of this check may overlap
    shutil.rmtree(work, ignore_errors=True)
    work.mkdir(parents=True)

    def dot(sx):
        return ".".join(["x"] + [str(ord(c)) for c in sx])

    def escaped(e):
        ctx.disagree(f"C13: unexpected {type(e).__name__} while exercising or observing the real code",
                     {"error": f"{type(e).__name__}: {e}"[:300], "trace": traceback.format_exc()[-900:]})

    def ask(req, kind, impl, case):
        reqs.append(req)
        checks.append((kind, impl, case))

    INERT = {"LAYOUT", "NBANDS", "BANDROWBYTES", "TOTALROWBYTES", "SKIPBYTES", "BANDGAPBYTES"}

    def num_value(val):
        """exact value of a numeric token: the model prints floats as x<bits>, the code as decimal text"""
        if val.startswith("x"):
            return Fraction(struct.unpack(">d", bytes.fromhex(val[1:]))[0])
        try:
            return Fraction(int(val))
        except ValueError:
            return Fraction(float(val))

    def canon_header(text, t):
        """semantic content of a header text, key -> canonical value: field order, padding, inert ESRI fields, NODATA vs
        NODATA_VALUE, the spelling of numbers and the case of the type fields are incidental"""
        t = np.dtype(t)
        out = {}
        for line in re.split(r"\r\n|\n|\r", text):
            toks = line.split(None, 1)
            if not toks:
                continue
            key = toks[0].upper()
            val = toks[1].strip() if len(toks) > 1 else ""
            if key in INERT:
                continue
            if key == "NODATA":
                key = "NODATA_VALUE"
            try:
                if key in FLOAT_KEYS:
                    val = "f" + (val[1:] if val.startswith("x") else rawhex(float(val)))
                elif key.startswith("PARENTGRID_") or key in ("NROWS", "NCOLS", "NBITS"):
                    val = "n" + str(num_value(val))
                elif key == "NODATA_VALUE":
                    if val.startswith("x"):
                        w = None if val == "xnan" else int(val[1:], 16)
                    elif t.kind == "f":
                        w = word_of(t.type(float(val)), t)
                    else:
                        try:
                            w = word_of(t.type(int(val)), t)
                        except ValueError:
                            w = word_of(t.type(float(val)), t)
                    val = "nan" if w is None or is_nan_word(w, t) else "w%d" % w
                elif key in ("PIXELTYPE", "BYTEORDER"):
                    val = val.upper()
            except (ValueError, OverflowError):
                val = "?" + val
            out[key] = val
        return out

    def read_back(path, how):
        """load through one of the three entry points; returns (grid, default name)"""
        path = Path(path)
        if how == "from_header":
            return Grid.from_header(path if rng.random() < 0.5 else path.with_suffix(".bil")), path.stem
        if how == "from_stream":
            bil = path.with_suffix(".bil")
            with open(path, "r") as fh:
                if bil.exists():
                    with open(bil, "rb") as fd:
                        return Grid.from_stream(fh, fd), path.stem
                return Grid.from_stream(fh), path.stem
        if how == "from_stringio":
            fh = io.StringIO(path.read_text())
            bil = path.with_suffix(".bil")
            if bil.exists():
                with open(bil, "rb") as fd:
                    return Grid.from_stream(fh, fd), "no_name"
            return Grid.from_stream(fh), "no_name"
        zp = path.with_suffix(".zip")
        with zipfile.ZipFile(zp, "w") as z:
            z.write(path, "sub/" + path.name)
            if path.with_suffix(".bil").exists():
                z.write(path.with_suffix(".bil"), "sub/" + path.stem + ".bil")
        return Grid.from_zip(zp, "sub/" + path.name), "no_name"

    def load_request(defname, header_text, data_bytes):
        return f"load {enc(defname)} {enc(header_text)} " + ("-" if data_bytes is None else "h" + data_bytes.hex())

    def random_edit(g, t, nr, nc):
        """one admissible edit applied to the real grid; returns its token for the model"""
        k = rng.random()
        w = gen_words(rng, t, 1)[0]
        sc = np.array([w], dtype="u%d" % t.itemsize).view(t)[0]
        if k < 0.2:
            idx = rng.randrange(nr * nc)
            g[idx] = sc
            return f"i:{idx}:{w}"
        if k < 0.3:
            i, j = rng.randrange(nr), rng.randrange(nc)
            g.data[i, j] = sc                                  # through the array the getter returns
            return f"i:{i * nc + j}:{w}"
        if k < 0.4:
            g.fill(sc)
            return f"f:{w}"
        if k < 0.55:
            nv = np.array(gen_words(rng, t, nr * nc), dtype="u%d" % t.itemsize).view(t).reshape(nr, nc)   # equal-size re-assignment
            g.data = nv
            return f"d:{fmt_mat(nv)}"
        if k < 0.65:
            g.name = gen_text(rng)
            return "n:" + dot(g.name)
        if k < 0.75:
            g.comment = gen_text(rng, 30)
            return "c:" + dot(g.comment)
        if k < 0.88:
            g.xllcorner, g.yllcorner, g.cellsize = np.float64(gen_float(rng)), np.float64(gen_float(rng)), np.float64(gen_float(rng))
            return f"g:{rawhex(g.xllcorner)}:{rawhex(g.yllcorner)}:{rawhex(g.cellsize)}"
        g.nodata = sc
        return f"v:{w}"

    # ======================================================================= (1) setter, save, load
    def saveload_case(g, vals, nodw, tname, shape, it, with_parent):
        """setter, save, load (little-endian as saved, big-endian as synthesised) on one grid"""
        t = np.dtype(tname)
        case = {"dtype": tname, "shape": list(shape), "name": g.name, "comment": g.comment,
                "xll": repr(float(g.xllcorner)), "yll": repr(float(g.yllcorner)), "csz": repr(float(g.cellsize)),
                "nodata_word": nodw, "first_words": [int(v) for v in uview(vals).flat[:4]]}
        cls = data_class(t, vals)
        # --- data setter
        gt0 = grid_toks(g)
        g.data = vals
        ok = check_bits(ctx, f"setter/data/{cls}", "the data setter changed cell values of the grid's own dtype", vals, g.data, case)
        ask(f"setdata {gt0} {fmt_mat(vals)}", "grid", obs_real(g), {**case, "op": "setdata"})
        if not ok:
            g._data = vals.copy()
        # parent attributes on a share of the grids, so that the PARENTGRID_ lines are exercised
        if with_parent:
            pg = Grid("par ent", 7, 9, cellsize=gen_float(rng), xllcorner=gen_float(rng), yllcorner=gen_float(rng))
            g.set_parent_attributes(pg, np.int64(rng.randint(0, 4)), np.int64(rng.randint(4, 8)), np.int64(rng.randint(0, 3)), np.int64(rng.randint(3, 6)))
        # --- save
        stem = rng.choice(["g", "Grid_A", "a.b"])
        path = work / f"{stem}.bil"
        for f in work.glob("*"):
            if f.is_file():
                f.unlink()
        try:
            g.save(path)
        except Exception as e:  # noqa
            ctx.finding(f"save/raises/{tname}", "Grid.save raises on a supported grid", {**case, "error": f"{exc_class(e)}: {e}"[:200]})
            ctx.count(("save", it), False, "save/error")
            return
        htext = path.with_suffix(".hdr").read_text()
        dbytes = path.read_bytes()
        ask("save " + grid_toks(g), "save", (canon_header(htext, t), dbytes.hex()), {**case, "op": "save", "header": htext})
        # --- load
        how = ["from_header", "from_stream", "from_zip", "from_stringio"][it % 4]
        try:
            g2, defname = read_back(path.with_suffix(".hdr"), how)
        except Exception as e:  # noqa
            sig = "linebreak_in_text" if any(c in g.name + g.comment for c in "\r\n") else tname
            ctx.finding(f"saveload/cannot_read_back/{sig}", "a grid written by Grid.save cannot be loaded",
                        {**case, "how": how, "error": f"{exc_class(e)}: {e}"[:200], "header": htext})
            ctx.count(("saveload", it), False, "saveload/error")
            ask(load_request("x", htext, dbytes), "load_err", exc_class(e), {**case, "op": "load", "header": htext})
            return
        ask(load_request(defname, htext, dbytes), "load", ("I", obs_real(g2)), {**case, "op": "load", "how": how, "header": htext})
        check_meta(ctx, "saveload", g, g2, {**case, "how": how, "header": htext})
        if np.dtype(g2.dtype) == t:
            check_bits(ctx, f"saveload/data/{cls}", "cell values are not bit-identical after save/load", g.data, g2.data, {**case, "how": how})
        ctx.count(("saveload", tname, shape, tuple(uview(vals).flat[:6]), nodw), True, f"saveload/{tname}/{how}",
                  sample={"dtype": tname, "shape": list(shape), "how": how, "header": htext[:400]})

        # --- the same raster stored big-endian (BYTEORDER M)
        hM = re.sub(r"(?m)^BYTEORDER( +)I$", r"BYTEORDER\1M", htext)
        pM = work / "bigend.hdr"
        pM.write_text(hM)
        bM = g.data.astype(g.data.dtype.newbyteorder(">")).tobytes()
        pM.with_suffix(".bil").write_bytes(bM)
        # the header / data the theorem `fromStream_file .big` talks about are the ones fed to the real reader here
        ask("savebo M " + grid_toks(g), "save", (canon_header(hM, t), bM.hex()), {**case, "op": "saveM", "header": hM})
        howM = ["from_header", "from_stream", "from_zip"][it % 3]
        try:
            g3, defname = read_back(pM, howM)
        except Exception as e:  # noqa
            ctx.finding(f"load/byteorder_M/cannot_read/{tname}", "a big-endian raster cannot be loaded",
                        {**case, "how": howM, "error": f"{exc_class(e)}: {e}"[:200]})
            ask(load_request("x", hM, bM), "load_err", exc_class(e), {**case, "op": "loadM"})
            return
        ask(load_request(defname, hM, bM), "load", ("M", obs_real(g3)), {**case, "op": "loadM", "how": howM, "header": hM})
        check_meta(ctx, "load/byteorder_M", g, g3, {**case, "how": howM})
        if np.dtype(g3.dtype) == t:
            palin = all(bytes(reversed(w.tobytes())) == w.tobytes() for w in g.data.flat)
            check_bits(ctx, "load/byteorder_M/data", "a big-endian raster (BYTEORDER M) is not decoded with its byte order",
                       g.data, g3.data, {**case, "how": howM, "palindromic": palin})
        ctx.count(("loadM", tname, shape, tuple(uview(vals).flat[:6])), t.itemsize > 1, f"loadM/{tname}")

        # --- history: a grid LOADED from a raster (big-endian here, little-endian for g2) is (optionally edited and) SAVED
        # again to a new path and loaded once more: cells, dtype, georeferencing, no-data of the second load = the
        # loaded grid's current state (theorems save_load / save_load_after_edits after fromStream_file)
        for src, gl in (("M", g3), ("I", g2)):
            if np.dtype(gl.dtype) != t:
                continue
            c3 = {**case, "op": f"history/load{src}_save_load", "loaded_from": src}
            if rng.random() < 0.5:
                toks0 = grid_toks(gl)
                w = gen_words(rng, t, 1)[0]
                idx = rng.randrange(gl.data.size)
                gl[idx] = np.array([w], dtype="u%d" % t.itemsize).view(t)[0]
                ask(f"edits {toks0} i:{idx}:{w}", "grid", obs_real(gl), {**c3, "edit": [idx, w]})
            pR = work / f"resaved{src}.bil"
            try:
                gl.save(pR)
            except Exception as e:  # noqa
                ctx.finding(f"history/load{src}_save/raises", "a loaded grid cannot be saved again", {**c3, "error": f"{exc_class(e)}: {e}"[:200]})
                continue
            hR = pR.with_suffix(".hdr").read_text()
            bR = pR.read_bytes()
            ask("save " + grid_toks(gl), "save", (canon_header(hR, t), bR.hex()), {**c3, "dtype": tname, "header": hR})
            howR = ["from_header", "from_stream", "from_zip"][(it + 1) % 3]
            try:
                g5, defname = read_back(pR.with_suffix(".hdr"), howR)
            except Exception as e:  # noqa
                ctx.finding(f"history/load{src}_save_load/cannot_read_back", "a loaded grid saved again cannot be loaded",
                            {**c3, "how": howR, "error": f"{exc_class(e)}: {e}"[:200], "header": hR})
                continue
            ask(load_request(defname, hR, bR), "load", ("I", obs_real(g5)), {**c3, "how": howR, "header": hR})
            check_meta(ctx, f"history/load{src}_save_load", gl, g5, {**c3, "how": howR, "header": hR})
            if np.dtype(g5.dtype) == t:
                check_bits(ctx, f"history/load{src}_save_load/data",
                           f"a grid loaded from a BYTEORDER {src} raster, saved again and loaded has other cell values", gl.data, g5.data,
                           {**c3, "how": howR, "header": hR})
            ctx.count(("resave", src, tname, shape, tuple(uview(gl.data).flat[:6])), True, f"history/load{src}_save_load/{tname}")


    def ilist(x):
        return "-" if x is None else C.ilist(x)

    def snap_outlet(c):
        o = getattr(c, "_idxcell_outlet", None)
        return None if o is None else int(o)

    def judge_catch(ca, cb, case, via, nr, nc):
        """the property on the rebuilt catchment: same outlet, inlets, area and filled area (as sets of cells, and as the
        answers of isin), same flow direction grid metadata"""
        c2 = {**case, "via": via}
        area0 = sorted(int(v) for v in ca.idxcells_area)
        filled0 = sorted(int(v) for v in ca.idxcells_area_filled)
        hole = len(set(filled0) - set(area0))
        want_in = None if ca.idxinlets is None else [int(v) for v in ca.idxinlets]
        want_out = int(ca.idxcell_outlet)
        try:
            got_out = int(cb.idxcell_outlet)        # the public accessor: a rebuilt catchment that cannot tell its outlet lost it
        except Exception as e:  # noqa
            got_out = None
            ctx.finding("catchment/outlet_lost", "the rebuilt catchment has no outlet (the accessor raises)",
                        {**c2, "want": want_out, "error": f"{exc_class(e)}: {e}"[:200], "outlet_is_cell_0": want_out == 0})
        if got_out is not None and got_out != want_out:
            ctx.finding("catchment/outlet", "outlet changed in the dictionary round trip", {**c2, "want": want_out, "got": got_out})
        try:
            cb.idxcells_area, cb.idxcells_area_filled
        except Exception as e:  # noqa
            ctx.finding("catchment/area_lost", "the rebuilt catchment has no area (the accessor raises)", {**c2, "error": f"{exc_class(e)}: {e}"[:200]})
            return None, [], []
        got_in = None if cb.idxinlets is None else [int(v) for v in cb.idxinlets]
        if got_in != want_in:
            ctx.finding("catchment/inlets_lost" if got_in is None else "catchment/inlets", "inlets changed in the dictionary round trip",
                        {**c2, "got": got_in, "want": want_in})
        a1 = sorted(int(v) for v in cb.idxcells_area)
        f1 = sorted(int(v) for v in cb.idxcells_area_filled)
        if a1 != area0:
            ctx.finding("catchment/area", "area cells changed in the dictionary round trip",
                        {**c2, "missing": sorted(set(area0) - set(a1)), "extra": sorted(set(a1) - set(area0))})
        if f1 != filled0:
            ctx.finding("catchment/filled_area" + ("/with_hole" if hole else ""), "filled area cells changed in the dictionary round trip",
                        {**c2, "missing": sorted(set(filled0) - set(f1)), "extra": sorted(set(f1) - set(filled0))})
        if hasattr(ca, "isin"):
            for fl in (False, True):
                want = [bool(ca.isin(c, fl)) for c in range(nr * nc)]
                try:
                    got = [bool(cb.isin(c, fl)) for c in range(nr * nc)]
                except Exception as e:  # noqa
                    ctx.finding("catchment/isin_raises", "isin raises on the rebuilt catchment", {**c2, "error": f"{exc_class(e)}: {e}"[:200]})
                    continue
                if got != want:
                    ctx.finding("catchment/isin" + ("_filled" if fl else ""), "the rebuilt catchment answers isin differently",
                                {**c2, "cells": [c for c in range(nr * nc) if got[c] != want[c]]})
        check_meta(ctx, "catchment/flowdir", ca.flowdir, cb.flowdir, c2)
        return got_in, a1, f1


    def catchment_case(fddata, outlet, inlets, name, idx):
        nr, nc = fddata.shape
        fd = Grid("fd " + name, nc, nr, dtype=np.int64, cellsize=gen_float(rng), xllcorner=gen_float(rng), yllcorner=gen_float(rng),
                  nodata=rng.choice([0, -1, 255]))
        fd.data = fddata
        ca = Catchment(name, fd)
        if np.shares_memory(ca.flowdir.data, fd.data):     # Catchment.__init__ clones with the grid's own dtype (int64)
            ctx.finding("clone/shares_memory/catchment_flowdir", "a catchment shares the data array of the flow direction grid it was given",
                        {"op": "catchment", "shape": [nr, nc]})
        try:
            ca.delineate_area(outlet, inlets)
        except ValueError:
            ctx.count(("catch", idx), False, "catchment/delineation_error")
            return False
        area0 = sorted(int(v) for v in ca.idxcells_area)
        filled0 = sorted(int(v) for v in ca.idxcells_area_filled)
        hole = len(set(filled0) - set(area0))
        want_in = None if ca.idxinlets is None else [int(v) for v in ca.idxinlets]
        case = {"op": "catchment", "shape": [nr, nc], "outlet": outlet, "inlets": inlets, "flowdir": fd.data.tolist(),
                "hole_cells": sorted(set(filled0) - set(area0))}

        def judge(cb, via):
            return judge_catch(ca, cb, case, via, nr, nc)

        try:
            d = ca.to_dict()
            cb = Catchment.from_dict(d)
        except Exception as e:  # noqa
            ctx.finding("catchment/dict_raises", "Catchment dictionary round trip raises", {**case, "error": f"{exc_class(e)}: {e}"[:200]})
            return True
        got_in, a1, f1 = judge(cb, "dict")
        oc = getattr(cb, "_idxcell_outlet", None)
        impl = (cb.name, None if oc is None else int(oc), got_in, a1, f1)
        ask(" ".join(["catch", enc(ca.name), str(int(ca._idxcell_outlet)), ilist(want_in), ilist(ca._idxcells_area), ilist(ca._idxcells_area_filled),
                      grid_toks(ca.flowdir)]), "catch", (impl, obs_real(cb.flowdir)), case)
        # the dictionary is meant for json: same judgement after dumps / loads
        try:
            dj = json.loads(json.dumps(ca.to_dict(), default=lambda x: x.item() if isinstance(x, np.generic) else x.tolist()))
            judge(Catchment.from_dict(dj), "json")
        except Exception as e:  # noqa
            ctx.finding("catchment/json_raises", "Catchment dictionary round trip through json raises", {**case, "error": f"{exc_class(e)}: {e}"[:200]})
        ctx.count(("catch", nr, nc, outlet, tuple(inlets or ()), tuple(fd.data.ravel())), True,
                  "catchment/" + ("inlets" if want_in else ("empty_inlets" if want_in == [] else "no_inlets")) + ("/hole" if hole else "")
                  + ("/outlet0" if int(ca.idxcell_outlet) == 0 else "") + ("/cell0_in_inlets" if want_in and 0 in want_in else ""),
                  sample=case if idx < 3 else None)
        return True

    # corpus: minimised past failures first (the four defects repaired by the fix: commits)
    for cf in sorted((C.ROOT / "corpus" / PID).glob("*.json")):
        try:
            cj = json.loads(cf.read_text())
            if cj.get("kind") == "saveload":
                t = np.dtype(cj["dtype"])
                nr, nc = cj["shape"]
                nod = np.array([cj["nodata_word"]], dtype="u%d" % t.itemsize).view(t)[0]
                g = Grid(cj.get("name", "corpus"), nc, nr, cellsize=cj.get("csz", 1.0), xllcorner=cj.get("xll", 0.0),
                         yllcorner=cj.get("yll", 0.0), dtype=t.type, nodata=nod, comment=cj.get("comment", ""))
                vals = np.array(cj["words"], dtype="u%d" % t.itemsize).view(t).reshape(nr, nc)
                saveload_case(g, vals, cj["nodata_word"], cj["dtype"], (nr, nc), 0, False)
            elif cj.get("kind") == "catchment":
                catchment_case(np.array(cj["flowdir"], dtype=np.int64), cj["outlet"], cj["inlets"], "corpus", 99)
        except Exception as e:  # noqa  (nothing unexpected may escape: it becomes a correspondence disagreement)
            escaped(e)

    ncase = ctx.scale(80, 600)
    it = 0
    for rep in range(ncase):
        try:
            for tname in DTYPES:
                it += 1
                shape = gen_shape(ctx, rng)
                g, vals, nodw = make_grid(Grid, rng, tname, shape)
                saveload_case(g, vals, nodw, tname, shape, it, rng.random() < 0.15)
        except Exception as e:  # noqa  (nothing unexpected may escape: it becomes a correspondence disagreement)
            escaped(e)

    # ======================================================================= (2) bounded integer grids (setter + load)
    for rep in range(ctx.scale(150, 1500)):
        try:
            tname = rng.choice(DTYPES[:8])
            t = np.dtype(tname)
            info = np.iinfo(t)
            shape = gen_shape(ctx, rng)
            g, vals, nodw = make_grid(Grid, rng, tname, shape, name="b", comment="")
            lo = rng.choice([None, int(info.min), rng.randint(int(info.min), int(info.max))])
            hi = rng.choice([None, int(info.max), rng.randint(int(info.min), int(info.max))])
            if lo is not None and hi is not None and lo > hi:
                lo, hi = hi, lo
            if lo is not None:
                g.mindata = lo
            if hi is not None:
                g.maxdata = hi
            gt0 = grid_toks(g)
            g.data = vals
            ask(f"setdata {gt0} {fmt_mat(vals)}", "grid", obs_real(g), {"op": "setdata/bounded", "dtype": tname, "lo": lo, "hi": hi})
            expect = vals.copy()
            if lo is not None:
                expect = np.maximum(expect, t.type(lo))
            if hi is not None:
                expect = np.minimum(expect, t.type(hi))
            # property-level statement: inside [lo, hi] nothing changes; outside, the bound itself
            exact = np.array([[min(max(int(v), lo if lo is not None else int(v)), hi if hi is not None else max(int(v), lo if lo is not None else int(v)))
                               for v in r] for r in vals], dtype=object)
            if not np.array_equal(g.data.astype(object), exact):
                ctx.finding(f"setter/bounded/{data_class(t, vals)}", "integer data are not clipped exactly to [mindata, maxdata]",
                            {"dtype": tname, "lo": lo, "hi": hi, "vals": [int(v) for v in vals.flat[:6]], "got": [int(v) for v in g.data.flat[:6]]})
            ctx.count(("bounded", tname, lo, hi, tuple(int(v) for v in vals.flat[:6])), lo is not None or hi is not None, "setter/bounded")
        except Exception as e:  # noqa  (nothing unexpected may escape: it becomes a correspondence disagreement)
            escaped(e)

    # ---- (2b) float grids with mindata / maxdata (outside the property's quantifier, which has the default infinite bounds;
    # the code path `_clipdata` takes then IS the one of the property): bounds set through the setters (a rejected setter,
    # mindata > maxdata, keeps the new bound), then the data setter. Oracle: a value that is NaN or strictly inside the finite
    # bounds is bit-identical. A float bound is never a zero (which zero np.maximum returns on a tie is platform dependent).
    for rep in range(ctx.scale(150, 1500)):
        try:
            tname = rng.choice(DTYPES[8:])
            t = np.dtype(tname)
            shape = gen_shape(ctx, rng)
            g, vals, nodw = make_grid(Grid, rng, tname, shape, name="b", comment="")
            g.data = vals
            case = {"op": "setdata/float_bounds", "dtype": tname, "shape": list(shape), "bounds": []}
            limits = rep < 12      # the excluded point of clipWord_id (theorem clipWord_inf_needs_infinite_bounds): finfo.min / finfo.max
            for kb in range(2 if limits else rng.randint(1, 3)):
                while True:
                    bw = rng.choice(special_words(t) + [rng.getrandbits(8 * t.itemsize) for _ in range(4)])
                    bsc = np.array([bw], dtype="u%d" % t.itemsize).view(t)[0]
                    if bsc != 0:
                        break
                which = rng.choice("mM")
                if limits:
                    which = "mM"[kb]
                    bsc = t.type(np.finfo(t).min if kb == 0 else np.finfo(t).max)
                    bw = word_of(bsc, t)
                toks0 = grid_toks(g)
                exc = None
                try:
                    if which == "m":
                        g.mindata = bsc
                    else:
                        g.maxdata = bsc
                except ValueError as e:
                    exc = exc_chain(e)
                case["bounds"] = case["bounds"] + [f"{which}:w:{bw}"]
                ask(f"run {toks0} {which}:w:{bw}", "run", (exc, obs_real(g, bounds=True)), case)
            nv = np.array(gen_words(rng, t, shape[0] * shape[1]), dtype="u%d" % t.itemsize).view(t).reshape(shape)
            if limits:
                nv.flat[0] = np.inf
                nv.flat[-1] = -np.inf if nv.size > 1 else np.inf
            gt0 = grid_toks(g)
            lo, hi = g._mindata, g._maxdata
            g.data = nv
            ask(f"setdata {gt0} {fmt_mat(nv)}", "grid", obs_real(g), case)
            with np.errstate(all="ignore"):
                inside = np.isnan(nv) | ((~np.isfinite(lo) | (nv > lo)) & (~np.isfinite(hi) | (nv < hi)))
            if not np.array_equal(uview(nv)[inside], uview(g.data)[inside]):
                ctx.finding(f"setter/float_bounds/{data_class(t, nv)}", "a float value strictly inside [mindata, maxdata] (or NaN) was changed by the data setter",
                            {**case, "lo": repr(lo), "hi": repr(hi)})
            ctx.count(("fbounded", tname, tuple(case["bounds"]), tuple(int(v) for v in uview(nv).flat[:6])), True, "setter/float_bounds")
        except Exception as e:  # noqa  (nothing unexpected may escape: it becomes a correspondence disagreement)
            escaped(e)

    # ======================================================================= (3) foreign and malformed headers
    def foreign_header(kind, t, nr, nc, words):
        """returns header text, data bytes (or None), the byte order, the expected meta"""
        pix = {"i": "SIGNEDINT", "u": "UNSIGNEDINT", "f": "FLOAT"}[t.kind]
        bo = rng.choice("IM")
        lines = []
        nodata_line = None
        csz = rng.choice([0.0025, 1.0, 1000.0, gen_float(rng)])
        x0, y0 = gen_float(rng), gen_float(rng)
        if t.kind in "iu":
            info = np.iinfo(t)
            nd = rng.choice([int(info.min), int(info.max), 0, rng.randint(int(info.min), int(info.max))])
            ndtok = rng.choice([str(nd), str(nd), f"{nd}.0" if abs(nd) < 2 ** 53 else str(nd)])
        else:
            ndtok = rng.choice(["-9999", "nan", "-inf", "1e+20", "0.1", "3.4028235e+38", "-0.0", "65504", "1e-8", "32767"])
        ndkey = rng.choice(["NODATA", "NODATA_VALUE", "nodata_value", "NoData"])
        nodata_line = f"{ndkey:<14} {ndtok}"
        base = [f"NROWS          {nr}", f"NCOLS          {nc}", f"NBITS          {8 * t.itemsize}",
                f"PIXELTYPE      {pix if rng.random() < 0.8 else pix.lower()}", f"BYTEORDER      {bo}"]
        if kind == "ul":
            geo = [f"ULXMAP         {x0!r}", f"ULYMAP         {y0!r}", f"XDIM           {csz!r}"]
            if rng.random() < 0.7:
                geo.append(f"YDIM           {csz!r}")
        elif kind == "xdim_only":
            geo = [f"XLLCORNER      {x0!r}", f"YLLCORNER  {y0!r}", f"XDIM {csz!r}", f"CELLSIZE       {gen_float(rng)!r}"]
        else:
            geo = [f"XLLCORNER      {x0!r}", f"YLLCORNER      {y0!r}", f"CELLSIZE       {csz!r}"]
        extra = rng.sample(["LAYOUT         BIL", "NBANDS         1", f"BANDROWBYTES   {nc * t.itemsize}",
                            f"TOTALROWBYTES  {nc * t.itemsize}", "SKIPBYTES 0", "COMMENT   Made  by Hand ", "NAME  My Grid",
                            "nodata_foo 12", "PARENTGRID_NROWS 12", "PARENTGRID_XLLCORNER 1.5", "parentgrid_rows_start 3",
                            "PARENTGRID_NAME some", "ZUNITS no", "XLLCORNER abc", "NBITS x"], rng.randint(0, 5))
        extra = [e for e in extra if not (e.startswith("NBITS x") and False)]
        lines = base + geo + [nodata_line] + extra
        if "NBITS x" in lines:      # a bad token is skipped with a warning: keep it before the good one or after, both fine
            pass
        rng.shuffle(lines)
        if rng.random() < 0.3:
            lines = [l.replace(" ", "   ", 1) if rng.random() < 0.5 else l for l in lines]
        if rng.random() < 0.2:
            lines = [l.lower() if rng.random() < 0.5 else l for l in lines]
        eol = rng.choice(["\n", "\n", "\r\n"])
        text = eol.join(lines) + (eol if rng.random() < 0.8 else "")
        arr = np.array(words, dtype="u%d" % t.itemsize).view(t).reshape(nr, nc)
        data = arr.astype(t.newbyteorder(">" if bo == "M" else "<")).tobytes()
        return text, data, bo, arr, eol

    for rep in range(ctx.scale(600, 5000)):
        try:
            tname = DTYPES[rep % len(DTYPES)]
            t = np.dtype(tname)
            nr, nc = gen_shape(ctx, rng)
            words = gen_words(rng, t, nr * nc)
            kind = rng.choice(["plain", "ul", "xdim_only", "plain"])
            text, data, bo, arr, eol = foreign_header(kind, t, nr, nc, words)
            with_data = rng.random() < 0.85
            p = work / "foreign.hdr"
            for f in work.glob("foreign.*"):
                f.unlink()
            # newline="" so that CRLF reaches the file as generated
            with open(p, "w", newline="") as fh:
                fh.write(text)
            if with_data:
                p.with_suffix(".bil").write_bytes(data)
            how = rng.choice(["from_header", "from_stream"]) if eol == "\r\n" else rng.choice(["from_header", "from_stream", "from_zip", "from_stringio"])
            case = {"op": "foreign", "kind": kind, "dtype": tname, "shape": [nr, nc], "header": text, "how": how, "byteorder": bo}
            try:
                g2, defname = read_back(p, how)
            except Exception as e:  # noqa
                ask(load_request("foreign", text, data if with_data else None), "load_err", exc_class(e), case)
                ctx.count(("foreign", rep), False, "foreign/error/" + exc_class(e))
                continue
            ask(load_request(defname, text, data if with_data else None), "load", (bo, obs_real(g2)), case)
            if with_data and np.dtype(g2.dtype) == t:
                check_bits(ctx, f"load/byteorder_{bo}/data" if bo == "M" else "load/foreign/data",
                           "a raster is not decoded to the values its file holds", arr, g2.data, case)
            # closure (theorems loaded_grid_is_grid, history_from_files): a grid loaded from a FOREIGN raster is a grid like any
            # other - (edited,) saved by Grid.save and loaded again it is reproduced
            if with_data and np.dtype(g2.dtype) == t and rep % 3 == 0:
                cF = {**case, "op": "history/foreign_save_load"}
                es = [random_edit(g2, t, nr, nc) for _ in range(rng.randint(0, 2))]
                pF = work / "foreign_resaved.bil"
                try:
                    g2.save(pF)
                    g7 = Grid.from_header(pF)
                except Exception as e:  # noqa
                    ctx.finding("history/foreign_save_load/raises", "a grid loaded from a foreign raster cannot be saved and loaded again",
                                {**cF, "edits": es, "error": f"{exc_class(e)}: {e}"[:200]})
                else:
                    check_meta(ctx, "history/foreign_save_load", g2, g7, {**cF, "edits": es})
                    if np.dtype(g7.dtype) == t:
                        check_bits(ctx, "history/foreign_save_load/data", "a grid loaded from a foreign raster, saved and loaded again has other cell values",
                                   g2.data, g7.data, {**cF, "edits": es})
            ctx.count(("foreign", tname, kind, bo, nr, nc, text), True, f"foreign/{kind}/{bo}")
        except Exception as e:  # noqa  (nothing unexpected may escape: it becomes a correspondence disagreement)
            escaped(e)

    def malformed():
        t = np.dtype(rng.choice(DTYPES))
        nr, nc = rng.randint(1, 3), rng.randint(1, 3)
        good = {"NROWS": str(nr), "NCOLS": str(nc), "NBITS": str(8 * t.itemsize),
                "PIXELTYPE": {"i": "SIGNEDINT", "u": "UNSIGNEDINT", "f": "FLOAT"}[t.kind], "BYTEORDER": "I",
                "XLLCORNER": "1.5", "YLLCORNER": "-2.25", "CELLSIZE": "0.5", "NODATA_VALUE": "0"}
        kind = rng.choice(["no_ncols", "no_nrows", "byteorder", "pixeltype", "nbits", "one_token", "blank", "count",
                           "bad_tokens", "nodata_range", "negative", "ul_missing", "xdim_ydim", "lead_blank", "dup"])
        nbytes = nr * nc * t.itemsize
        lines = None
        if kind == "no_ncols":
            del good["NCOLS"]
        elif kind == "no_nrows":
            del good["NROWS"]
            nbytes = nc * nc * t.itemsize
        elif kind == "byteorder":
            good["BYTEORDER"] = rng.choice(["X", "LSB", "", "MI", "i", "m"])
        elif kind == "pixeltype":
            good["PIXELTYPE"] = rng.choice(["INT", "UINT", "SIGNED", "UNSIGNED", "FLOAT32", "signedint", "UnsignedInt",
                                            "nt", "loat", "SIGNEDINTEGER", "BYTE", "", "intnt", "floatloat", "UNSIGNEDINT8"])
        elif kind == "nbits":
            good["NBITS"] = rng.choice(["12", "24", "0", "7", "-8", "128", "72", "9", "15", "33"])
            if good["NBITS"] == "128" and t.kind == "f":
                good["NBITS"] = "24"      # float128 is a valid numpy type outside the supported set
        elif kind == "one_token":
            k = rng.choice(["NROWS", "XLLCORNER", "NODATA_VALUE", "ZZZ", "NAME", "COMMENT", "PIXELTYPE", "PARENTGRID_NROWS"])
            good[k] = None
        elif kind == "count":
            nbytes = rng.choice([0, max(0, nbytes - 1), nbytes + 1, nbytes + t.itemsize, max(0, nbytes - t.itemsize), nbytes + t.itemsize - 1])
        elif kind == "bad_tokens":
            for k in rng.sample(["NROWS", "XLLCORNER", "CELLSIZE", "NBITS", "NODATA_VALUE"], 2):
                good[k + " "] = rng.choice(["abc", "1.5.2", "--3", "1e", "0x10", "1,5", "12a", "+3", "-0", "+.5e1", "1.", "INF", "nan"])
        elif kind == "nodata_range":
            if t.kind in "iu":
                info = np.iinfo(t)
                good["NODATA_VALUE"] = str(rng.choice([int(info.max) + 1, int(info.min) - 1, 2 ** 64, -2 ** 63 - 1, int(info.max), int(info.min)]))
            else:
                good["NODATA_VALUE"] = rng.choice(["1e400", "-1e400", "1e39", "70000", "1e-50"])
        elif kind == "negative":
            good[rng.choice(["NROWS", "NCOLS"])] = "-2"
        elif kind == "ul_missing":
            good["ULXMAP"] = "3.5"
            if rng.random() < 0.5:
                good["ULYMAP"] = "7.5"
                del good["NROWS"]
                nbytes = nc * nc * t.itemsize
        elif kind == "xdim_ydim":
            good["XDIM"] = "0.5"
            good["YDIM"] = rng.choice(["0.5", "0.50000000001", "0.5000000002", "0.25", "0.4999999999"])
        lines = [k if v is None else f"{k:<14} {v}" for k, v in good.items()]
        rng.shuffle(lines)
        if kind == "blank":
            lines.insert(rng.randint(0, len(lines)), rng.choice(["", " ", "   "]))
        if kind == "lead_blank":
            i = rng.randrange(len(lines))
            lines[i] = " " + lines[i]
        if kind == "dup":
            lines.append(rng.choice(["NROWS 1", "NCOLS 1", "CELLSIZE 9", "NODATA 5", "NODATA_VALUE 6", "BYTEORDER M", "NAME other", "PARENTGRID_NROWS 1", "PARENTGRID_NROWS 2"]))
            nbytes = None
        text = "\n".join(lines) + "\n"
        return kind, t, text, nbytes

    for rep in range(ctx.scale(800, 6000)):
        try:
            kind, t, text, nbytes = malformed()
            data = bytes(rng.getrandbits(8) for _ in range(nbytes)) if nbytes is not None else None
            case = {"op": "malformed", "kind": kind, "header": text, "nbytes": nbytes}
            fh = io.StringIO(text)
            try:
                if data is None:
                    g2 = Grid.from_stream(fh)
                else:
                    p = work / "mal.bil"
                    p.write_bytes(data)
                    with open(p, "rb") as fd:
                        g2 = Grid.from_stream(fh, fd)
            except Exception as e:  # noqa
                ask(load_request("no_name", text, data), "load_err", exc_class(e), case)
                ctx.count(("malformed", kind, text), True, f"malformed/{kind}/" + exc_class(e))
                continue
            ask(load_request("no_name", text, data), "load", (None, obs_real(g2)), case)
            ctx.count(("malformed", kind, text), True, f"malformed/{kind}/ok")
        except Exception as e:  # noqa  (nothing unexpected may escape: it becomes a correspondence disagreement)
            escaped(e)

    def canon_dict(d):
        """(observable content of a to_dict() result, request rebuilding it in the model); raises if uninterpretable"""
        pk = {k: v for k, v in d.items() if k.startswith("parentgrid_")}
        dt = np.dtype(d["dtype"])
        ndraw = d["nodata"]
        if isinstance(ndraw, (bytes, bytearray)):
            ndraw = ndraw.decode()
        if dt.kind == "f":
            ndw = word_of(dt.type(float(ndraw)), dt)
            ndtext = ndraw if isinstance(ndraw, str) else repr(float(ndraw))
        else:
            try:
                ndint = int(ndraw)
            except ValueError:
                ndint = int(float(ndraw))
            ndw = word_of(dt.type(ndint), dt)
            ndtext = str(ndint)
        ndcanon = "nan" if is_nan_word(ndw, dt) else str(ndw)
        impl = {"name": str(d["name"]), "ncols": int(d["ncols"]), "nrows": int(d["nrows"]), "csz": rawhex(d["cellsize"]),
                "xll": rawhex(d["xllcorner"]), "yll": rawhex(d["yllcorner"]), "dtype": dt.kind + str(dt.itemsize),
                "nodata": ndcanon, "comment": str(d["comment"]),
                "parent": sorted((k, pval_value(v)) for k, v in pk.items())}
        dreq = " ".join(["fromdict", enc(str(d["name"])), str(int(d["ncols"])), str(int(d["nrows"])), rawhex(d["cellsize"]),
                         rawhex(d["xllcorner"]), rawhex(d["yllcorner"]), enc(dt.str), enc(ndtext), enc(str(d["comment"])),
                         parent_toks(pk)])
        return impl, dreq

    # ======================================================================= (4) dictionaries, dtype strings, pixel types
    for rep in range(ctx.scale(50, 400)):
        try:
            for tname in DTYPES:
                t = np.dtype(tname)
                shape = gen_shape(ctx, rng)
                g, vals, nodw = make_grid(Grid, rng, tname, shape)
                g.data = vals
                if rng.random() < 0.2:
                    pg = Grid("p", 7, 9, cellsize=gen_float(rng), xllcorner=gen_float(rng), yllcorner=gen_float(rng))
                    g.set_parent_attributes(pg, np.int64(1), np.int64(3), np.int64(0), np.int64(2))
                case = {"op": "dict", "dtype": tname, "shape": list(shape), "nodata_word": nodw}
                d = g.to_dict()
                dshow = {k: repr(v) for k, v in d.items()}
                # the dictionary's observable content, independent of how values are represented (numpy or python scalars,
                # numbers or numeric text, any spelling np.dtype understands, key order)
                try:
                    impl, dreq = canon_dict(d)
                except Exception as e:  # noqa
                    ctx.disagree("C13/dict: the dictionary returned by to_dict cannot be interpreted",
                                 {**case, "dict": dshow, "error": f"{exc_class(e)}: {e}"[:200]})
                    impl = dreq = None
                if impl is not None:
                    ask("todict " + grid_toks(g), "todict", impl, {**case, "dict": dshow})
                try:
                    g2 = Grid.from_dict(d)
                except Exception as e:  # noqa
                    ctx.finding(f"dict/cannot_rebuild/{tname}", "Grid.from_dict(grid.to_dict()) raises", {**case, "error": f"{exc_class(e)}: {e}"[:200], "dict": dshow})
                    continue
                if dreq is not None:
                    ask(dreq, "grid", obs_real(g2), {**case, "dict": dshow})
                check_meta(ctx, "dict", g, g2, {**case, "dict": dshow})
                # from_dict on a dictionary with optional keys missing (defaults of Grid.__init__; KeyError for name / ncols),
                # the no-data value given as text or as a number
                try:
                    dp = dict(d)
                    ndraw = dp["nodata"]
                    ndtok = "t:" + dot(str(ndraw))
                    if rng.random() < 0.3:
                        if t.kind in "iu":
                            dp["nodata"] = int(ndraw)
                            ndtok = f"i:{dp['nodata']}"
                        elif float(ndraw) == float(ndraw):
                            dp["nodata"] = float(ndraw)
                            ndtok = f"x:{rawhex(dp['nodata'])}"
                    drop = [kk for kk in ["name", "ncols", "nrows", "cellsize", "xllcorner", "yllcorner", "dtype", "nodata", "comment"]
                            if rng.random() < (0.05 if kk in ("name", "ncols") else 0.35)]
                    for kk in drop:
                        del dp[kk]
                    ftoks = [enc(str(dp["name"])) if "name" in dp else "-", str(int(dp["ncols"])) if "ncols" in dp else "-",
                             str(int(dp["nrows"])) if "nrows" in dp else "-", rawhex(dp["cellsize"]) if "cellsize" in dp else "-",
                             rawhex(dp["xllcorner"]) if "xllcorner" in dp else "-", rawhex(dp["yllcorner"]) if "yllcorner" in dp else "-",
                             enc(np.dtype(dp["dtype"]).str) if "dtype" in dp else "-", ndtok if "nodata" in dp else "-",
                             enc(str(dp["comment"])) if "comment" in dp else "-"]
                    cP = {**case, "op": "dict/optional_keys", "dropped": drop, "nodata_as": ndtok[0],
                          "outside": bool(drop) or ndtok[0] != "t"}      # only the complete dictionary is the property's
                    try:
                        gp = Grid.from_dict(dp)
                    except Exception as e:  # noqa
                        ask("fromdictp " + " ".join(ftoks), "load_err", exc_chain(e), cP)
                    else:
                        ask("fromdictp " + " ".join(ftoks), "grid", obs_real(gp), cP)
                    ctx.count(("dictp", tname, tuple(drop), ndtok), True, "dict/optional_keys/" + ("keyerror" if ("name" in drop or "ncols" in drop) else "defaults"))
                except Exception as e:  # noqa
                    escaped(e)
                # clone
                g3 = g.clone()
                ask("clone " + grid_toks(g), "grid", obs_real(g3), {**case, "op": "clone"})
                check_meta(ctx, "clone", g, g3, case)
                check_bits(ctx, "clone/data", "cell values of a clone are not bit-identical", g.data, g3.data, case)
                if np.shares_memory(g.data, g3.data):
                    ctx.finding("clone/shares_memory", "a clone shares its data array with the original", case)
                g4 = g.clone(t.type)
                ask(f"cloneas {t.kind} {t.itemsize} " + grid_toks(g), "grid", obs_real(g4), {**case, "op": "clone(own dtype)"})
                check_meta(ctx, "clone/same", g, g4, case)
                check_bits(ctx, "clone/data/same", "cell values of clone(own dtype) are not bit-identical", g.data, g4.data, case)
                if np.shares_memory(g.data, g4.data):
                    ctx.finding("clone/shares_memory/same", "clone(own dtype) shares its data array with the original", case)
                if t.kind in "iu":
                    d2 = np.dtype(rng.choice([x for x in DTYPES if x != tname]))
                    g5 = g.clone(d2.type)
                    ask(f"cloneas {d2.kind} {d2.itemsize} " + grid_toks(g), "grid_nonodata", obs_real(g5), {**case, "op": "clone(other dtype)", "to": str(d2)})
                    if np.shares_memory(g.data, g5.data):
                        ctx.finding("clone/shares_memory/other", "clone(other dtype) shares its data array with the original", case)
                g3.name = g3.name + "_changed"
                g3.nodata = 1
                g3.comment = "changed"
                g3.xllcorner = np.float64(12345.0)
                if g.name.endswith("_changed") and not case.get("name", "").endswith("_changed"):
                    ctx.finding("clone/meta_shared", "changing the clone's attributes changed the original", case)
                ctx.count(("dict", tname, shape, nodw, rawhex(g.xllcorner)), True, f"dict+clone/{tname}")
        except Exception as e:  # noqa  (nothing unexpected may escape: it becomes a correspondence disagreement)
            escaped(e)

    dstrs = ["<i8", ">i8", "|i1", "<i1", "=i4", "i2", "<u8", ">u2", "|u1", "<f2", ">f4", "<f8", "f8", "<f1", "<i3", "<u16", "<", "",
             "<x8", "i08", "<i8 ", "<I8", ">f2", "=u4", "|i2", "<f3", "<i0", "<u0", "u1", "<i-1", "<8"]
    for s in dstrs:
        try:
            dt = np.dtype(s)
            impl = f"some {'M' if dt.byteorder == '>' else 'I'} {dt.kind} {dt.itemsize}" if dt.kind in "iuf" and dt.itemsize <= 8 and not (dt.kind == "f" and dt.itemsize < 2) else None
        except Exception:  # noqa
            impl = "none"
        if impl is not None:
            ask(f"dtype [{enc(s)}]", "plain", impl, {"op": "dtype", "str": s})
            ctx.count(("dtype", s), impl != "none", "dtype_str")
    pixs = ["signedint", "unsignedint", "float", "int", "uint", "signed", "unsigned", "nt", "loat", "signedinteger", "", "intnt",
            "floatloat", "nsignedint", "unsignedintx", "signedsigned", "xsigned", "nsignedintnsignedint", "byte", "ntloat", "lloatt"]
    for _ in range(ctx.scale(150, 1500)):
        pixs.append("".join(rng.choice(["n", "s", "i", "g", "e", "d", "t", "l", "o", "a", "f", "u", "signed", "nt", "loat", "unsignedint", "int"])
                            for _ in range(rng.randint(1, 6))))
    for s in pixs:
        ask(f"pix [{enc(s)}]", "plain", enc(re.sub("nsignedint$|^signed|nt|loat", "", s)), {"op": "pixeltype", "str": s})
        ctx.count(("pix", s), True, "pixel_regex")

    # ======================================================================= (4b) the external facts the theorems assume
    # IOok / NodataPrintable: printing has no white space, is never an integer literal for floats, and reads back exactly
    def text_facts(tname, w):
        t = np.dtype(tname)
        sc = np.array([w], dtype="u%d" % t.itemsize).view(t)[0]
        txt = "{}".format(sc)
        ok = not any(ch.isspace() for ch in txt) and txt != ""
        try:
            int(txt)
            ok = False
        except ValueError:
            pass
        back = t.type(float(txt))
        same = (back != back and sc != sc) or word_of(back, t) == w
        if not (ok and same):
            ctx.finding(f"saveload/nodata/float/text_roundtrip_{tname}", "a float scalar does not survive str() / float() / dtype()",
                        {"dtype": tname, "word": w, "text": txt, "back_word": word_of(back, t)})
        ctx.count(("text", tname, w), True, "external/float_text")
    f16 = range(0, 1 << 16) if ctx.thorough else [rng.getrandbits(16) for _ in range(2000)] + special_words("float16")
    for w in f16:
        text_facts("float16", w)
    for tname in ("float32", "float64"):
        for w in special_words(tname) + [rng.getrandbits(8 * np.dtype(tname).itemsize) for _ in range(ctx.scale(3000, 30000))]:
            text_facts(tname, w)

    # ======================================================================= (5) clone independence under mutation
    # clone(), clone(own dtype) and clone(other dtype), then in-place writes and rebindings on either side
    def other_dtype(tname):
        src = np.dtype(tname)
        # float -> integer casts of out-of-range values are undefined: only well-defined pairs are requested
        pool = [d for d in DTYPES if d != tname and (src.kind in "iu" or np.dtype(d).kind == "f")]
        return np.dtype(rng.choice(pool))

    def no_nan_words(t, ws):
        return [w if not is_nan_word(w, t) else 0 for w in ws]

    for rep in range(ctx.scale(400, 4000)):
        try:
            tname = rng.choice(DTYPES)
            t = np.dtype(tname)
            nr, nc = gen_shape(ctx, rng)
            if nr * nc > 64:
                nr, nc = 4, 4
            mode = rng.choice(["none", "same", "same", "other"])
            a, vals, _ = make_grid(Grid, rng, tname, (nr, nc), name="a", comment="")
            dst = other_dtype(tname) if mode == "other" else t
            if mode == "other" and t.kind == "f":
                vals = np.array(no_nan_words(t, [int(v) for v in uview(vals).ravel()]), dtype="u%d" % t.itemsize).view(t).reshape(nr, nc)
            a.data = vals
            case = {"op": "store", "mode": mode, "dtype": tname, "clone_dtype": str(dst), "shape": [nr, nc], "ops": []}
            try:
                b = a.clone() if mode == "none" else a.clone(dst.type)
            except Exception as e:  # noqa
                ctx.finding(f"clone/raises/{mode}", "Grid.clone raises", {**case, "error": f"{exc_class(e)}: {e}"[:200]})
                continue
            # the clone right after cloning
            with np.errstate(all="ignore"):
                expected_b = vals if mode != "other" else vals.astype(dst)
            if mode != "other":
                check_meta(ctx, f"clone/{mode}", a, b, case)
            elif np.dtype(b.dtype) != dst or tuple(b.shape) != tuple(a.shape) or rawhex(b.xllcorner) != rawhex(a.xllcorner):
                ctx.finding("clone/other/meta", "clone(dtype) has the wrong dtype, shape or corner", case)
            if b.data.dtype == dst:
                check_bits(ctx, f"clone/data/{mode}", "cell values of a clone are not the (converted) values of the original", expected_b, b.data, case)
            if np.shares_memory(a.data, b.data):
                ctx.finding(f"clone/shares_memory/{mode}", "a clone shares its data array with the original", case)
            obj = {"A": a, "B": b}
            dts = {"A": t, "B": np.dtype(b.data.dtype)}
            exp = {"A": a.data.copy(), "B": b.data.copy()}
            ops = case["ops"]
            broken = False
            for _ in range(rng.randint(1, 8)):
                who = rng.choice("AB")
                other = "B" if who == "A" else "A"
                tw = dts[who]
                k = rng.random()
                w = gen_words(rng, tw, 1)[0]
                sc = np.array([w], dtype="u%d" % tw.itemsize).view(tw)[0]
                if k < 0.3:
                    idx = rng.randrange(nr * nc)
                    obj[who][idx] = sc                      # Grid.__setitem__
                    ops.append(f"{who}:i:{idx}:{w}")
                elif k < 0.5:
                    i, j = rng.randrange(nr), rng.randrange(nc)
                    obj[who].data[i, j] = sc                # write through the array the getter returns
                    ops.append(f"{who}:i:{i * nc + j}:{w}")
                elif k < 0.7:
                    obj[who].fill(sc)
                    ops.append(f"{who}:f:{w}")
                elif k < 0.9:
                    nv = np.array(gen_words(rng, tw, nr * nc), dtype="u%d" % tw.itemsize).view(tw).reshape(nr, nc)
                    obj[who].data = nv
                    ops.append(f"{who}:d:{fmt_mat(nv)}")
                else:
                    # a REJECTED call: an array of another shape; nothing may be rebound or written, on either object
                    shp = rng.choice([(nr + 1, nc), (nr, nc + 1), (nc + 1, nr), (1, nr * nc + 1)])
                    nv = np.array(gen_words(rng, tw, shp[0] * shp[1]), dtype="u%d" % tw.itemsize).view(tw).reshape(shp)
                    try:
                        obj[who].data = nv
                    except ValueError:
                        pass
                    ops.append(f"{who}:d:{fmt_mat(nv)}")
                    if not broken and (obj[who].data.tobytes() != exp[who].tobytes() or obj[who].data.shape != (nr, nc)):
                        broken = True
                        ctx.finding(f"clone/rejected_assignment_stored/{mode}",
                                    "a data assignment of the wrong shape, rejected with ValueError, changed the cells the grid holds",
                                    {**case, "ops": list(ops)})
                if not broken and obj[other].data.tobytes() != exp[other].tobytes():
                    broken = True
                    ctx.finding(f"clone/not_independent/{mode}",
                                "a write through the " + ("clone changed the original" if who == "B" else "original changed the clone"),
                                {**case, "ops": list(ops)})
                if not broken and np.shares_memory(a.data, b.data):
                    broken = True
                    ctx.finding(f"clone/shares_memory/{mode}", "clone and original share their data array", {**case, "ops": list(ops)})
                exp[who] = obj[who].data.copy()
            if mode == "none":
                req = f"store {fmt_mat(vals)} " + " ".join(ops)
            else:
                req = f"storeas {t.kind} {t.itemsize} {dst.kind} {dst.itemsize} {fmt_mat(vals)} " + " ".join(ops)
            ask(req, "plain", fmt_mat(a.data) + " " + fmt_mat(b.data), {**case, "ops": list(ops)})
            ctx.count(("store", mode, tname, str(dst), tuple(ops)), True, f"clone/store/{mode}")
        except Exception as e:  # noqa  (nothing unexpected may escape: it becomes a correspondence disagreement)
            escaped(e)

    def centre_oracle(parent, cl, case, mag, cls, sig="clip"):
        """the clip clause as stated: read through ITS OWN georeferencing, the clipped grid holds at each of its cell centres
        the value `parent` holds at that coordinate, and the centre is the parent's cell centre (to 4 ulp)"""
        ncl = int(cl.nrows) * int(cl.ncols)
        if ncl < 1 or cl.data.shape != (int(cl.nrows), int(cl.ncols)):
            ctx.finding(f"{sig}/empty", "clip of a box inside the extent is empty or inconsistent", {**case, "clip_shape": list(cl.data.shape)})
            return
        cxy = cl.cell2coord(np.arange(ncl))
        back = parent.coord2cell(cxy)
        if (back < 0).any():
            ctx.finding(f"{sig}/centres", "a cell centre of the clipped grid lies outside the parent", case)
            return
        pvals = uview(parent.data).ravel()[back]
        cvals = uview(cl.data).ravel()
        if not np.array_equal(pvals, cvals):
            k = int(np.argwhere(pvals != cvals)[0][0])
            ctx.finding(f"{sig}/values_at_centres/{cls}",
                        "a cell of the clipped grid does not hold the value the parent holds at that cell's centre",
                        {**case, "clip_cell": k, "centre": [float(v) for v in cxy[k]], "parent_cell": int(back[k]),
                         "clip_word": int(cvals[k]), "parent_word": int(pvals[k]), "n_differ": int((pvals != cvals).sum())})
        pxy = parent.cell2coord(back)
        tol = 4 * np.spacing(mag)
        if not np.all(np.abs(cxy - pxy) <= tol):
            ctx.finding(f"{sig}/centres", "cell centres of the clipped grid do not coincide with the parent's",
                        {**case, "max_diff": float(np.abs(cxy - pxy).max()), "tol": float(tol)})

    # ======================================================================= (6) clip
    F = Fraction
    DEC_CSZ = ["0.1", "0.05", "0.025", "0.0025", "0.2", "0.3", "0.7", "0.001", "0.01", "0.5", "2", "0.25", "1", "1000", "0.0125"]
    DEC_ORG = ["0", "112", "-43.75", "112.9", "0.1", "-2951000", "1.5", "-0.3", "145.44625", "10", "-7"]
    for rep in range(ctx.scale(500, 5000)):
        try:
            tname = rng.choice(DTYPES)
            t = np.dtype(tname)
            nr, nc = (rng.randint(1, 12), rng.randint(1, 12)) if not (ctx.thorough and rng.random() < 0.05) else (40, 33)
            c0, c1 = sorted([rng.randrange(nc), rng.randrange(nc)])
            rt, rb = sorted([rng.randrange(nr), rng.randrange(nr)])   # top row, bottom row (row numbers grow downwards)
            lattice = rng.random() < 0.5
            if lattice:
                # decimal geometry (cell sizes such as 0.1 or 0.05 are not binary fractions) and corners placed ON the lattice of
                # the parent: on a cell edge, on a cell centre, on a quarter, and one ulp either side of those
                dcsz, dxll, dyll = F(rng.choice(DEC_CSZ)), F(rng.choice(DEC_ORG)), F(rng.choice(DEC_ORG))
                csz, xll, yll = float(dcsz), float(dxll), float(dyll)
                fr = [rng.choice([F(0), F(0), F(1, 2), F(1, 4), F(3, 4)]) for _ in range(4)]
                if c0 == c1:
                    fr[0], fr[1] = sorted(fr[:2])
                if rt == rb:
                    fr[2], fr[3] = sorted(fr[2:])
                pts = [float(dxll + dcsz * (c0 + fr[0])), float(dyll + dcsz * ((nr - 1 - rb) + fr[2])),
                       float(dxll + dcsz * (c1 + fr[1])), float(dyll + dcsz * ((nr - 1 - rt) + fr[3]))]
                pts = [float(np.nextafter(p, rng.choice([-np.inf, np.inf]))) if rng.random() < 0.2 else p for p in pts]
                x0, y0, x1, y1 = pts
            else:
                csz = rng.choice([1.0, 0.25, 0.1, 0.0025, 1000.0, rng.uniform(0.01, 10), 10 ** rng.uniform(-3, 3)])
                scale = csz * rng.choice([0, 1, 10, 1000])
                xll = rng.choice([0.0, -3.5 * csz, rng.uniform(-1, 1) * scale, 112.90125, -2951000.0])
                yll = rng.choice([0.0, 7 * csz, rng.uniform(-1, 1) * scale, -43.74375])
                fr = [rng.choice([0.5, 0.25, 0.75, 0.01, 0.99, 0.0, rng.random()]) for _ in range(4)]
                if c0 == c1:
                    fr[0], fr[1] = sorted(fr[:2])
                if rt == rb:
                    fr[2], fr[3] = sorted(fr[2:])
                x0 = float(np.float64(xll) + np.float64(csz) * (c0 + fr[0]))
                x1 = float(np.float64(xll) + np.float64(csz) * (c1 + fr[1]))
                y0 = float(np.float64(yll) + np.float64(csz) * ((nr - 1 - rb) + fr[2]))
                y1 = float(np.float64(yll) + np.float64(csz) * ((nr - 1 - rt) + fr[3]))
            g, vals, nodw = make_grid(Grid, rng, tname, (nr, nc), georef=(xll, yll, csz))
            g.data = vals
            # keep to the property's region: both corners inside the extent, lower-left below / left of upper-right,
            # decided in exact arithmetic on the float64 inputs
            fx = lambda x: (F(x) - F(xll)) / F(csz)  # noqa
            fy = lambda y: (F(y) - F(yll)) / F(csz)  # noqa
            inside = all(0 <= fx(x) < nc for x in (x0, x1)) and all(0 <= fy(y) < nr for y in (y0, y1))
            if inside and rng.random() < 0.06:
                # OUTSIDE the property (probe of the hypotheses x0 <= x1, y0 <= y1 of the clip theorems): corners given in the
                # wrong order. The code raises (negative dimension) or returns an empty grid; the model must do the same.
                if rng.random() < 0.5:
                    x0, x1 = x1, x0
                else:
                    y0, y1 = y1, y0
                cS = {"op": "clip/swapped_corners", "outside": True, "dtype": tname, "shape": [nr, nc], "box": [repr(x0), repr(y0), repr(x1), repr(y1)]}
                reqS = f"clip {rawhex(x0)} {rawhex(y0)} {rawhex(x1)} {rawhex(y1)} " + grid_toks(g)
                try:
                    clS = g.clip(x0, y0, x1, y1)
                except Exception as e:  # noqa
                    ask(reqS, "load_err", exc_chain(e), cS)
                    ctx.count(("clipS", rep), True, "clip/swapped_corners/raises")
                else:
                    ask(reqS, "grid_nocomment", obs_real(clS), cS)
                    ctx.count(("clipS", rep), True, "clip/swapped_corners/" + ("empty" if clS.data.size == 0 else "same_cell"))
                continue
            if not inside or x1 < x0 or y1 < y0:
                ctx.count(("clip", rep), False, "clip/skipped_outside")
                continue
            mag = max(abs(xll), abs(yll), abs(x1), abs(y1), csz * max(nr, nc))
            tolc = F(64 * float(np.spacing(mag))) / F(csz)          # 64 ulp of the coordinates, in cells
            # `safe`: every corner is clear of every cell edge, so rounding cannot move it into a neighbouring cell and the
            # exact window is claimed. `safe_ext`: every corner is clear of the OUTER boundary of the extent (or exactly on
            # its lower/left side), so the float code must see it inside whichever cell it rounds into.
            edge = min(min(abs(fx(x) - round(fx(x))) for x in (x0, x1)), min(abs(fy(y) - round(fy(y))) for y in (y0, y1)))
            safe = edge > tolc
            safe_ext = all((q == 0 or q > tolc) and (n - q) > tolc for q, n in
                           [(fx(x0), nc), (fx(x1), nc), (fy(y0), nr), (fy(y1), nr)])
            onedge = "on_lattice" if edge == 0 else ("near_edge" if not safe else "interior")
            case = {"op": "clip", "dtype": tname, "shape": [nr, nc], "xll": repr(xll), "yll": repr(yll), "csz": repr(csz),
                    "box": [repr(x0), repr(y0), repr(x1), repr(y1)], "corners": onedge}
            try:
                cl = g.clip(x0, y0, x1, y1)
            except Exception as e:  # noqa
                if safe_ext:
                    ctx.finding("clip/raises", "Grid.clip raises for a box inside the extent", {**case, "error": f"{exc_class(e)}: {e}"[:200]})
                ctx.count(("clip", rep), False, "clip/error")
                continue
            ask(f"clip {rawhex(x0)} {rawhex(y0)} {rawhex(x1)} {rawhex(y1)} " + grid_toks(g), "grid_nocomment", obs_real(cl), case)
            cls = data_class(t, vals)
            if np.dtype(cl.dtype) != t or not same_value(cl.nodata, g.nodata) or type(cl.nodata) is not type(g.nodata):
                ctx.finding("clip/dtype_nodata", "clip changed the data type or the no-data value", case)
            if rawhex(cl.cellsize) != rawhex(g.cellsize):
                ctx.finding("clip/cellsize", "clip changed the cell size", case)
            # ---- oracle 1 (the property as stated, whichever cells the corners round into): the clipped grid, read through
            # ITS OWN georeferencing, holds at each of its cell centres the value the parent holds at that coordinate
            if safe_ext:
                centre_oracle(g, cl, case, mag, cls)
            # ---- oracle 2 (exact window, claimed only when no corner is within rounding distance of a cell edge)
            ec0, ec1 = int(fx(x0) // 1), int(fx(x1) // 1)
            erb, ert = nr - 1 - int(fy(y0) // 1), nr - 1 - int(fy(y1) // 1)
            if safe:
                exp = vals[ert:erb + 1, ec0:ec1 + 1]
                check_bits(ctx, f"clip/values/{cls}", "the clipped grid does not hold the parent's values of the boxed cells", exp, cl.data, case)
            elif safe_ext and cl.data.size:
                # a corner on / next to an edge may fall in either adjacent cell: the window may differ by one row / column
                if abs(cl.data.shape[0] - (erb - ert + 1)) > 2 or abs(cl.data.shape[1] - (ec1 - ec0 + 1)) > 2:
                    ctx.finding("clip/window", "the clipped window is more than one cell away from the boxed cells", {**case, "clip_shape": list(cl.data.shape)})
            ctx.count(("clip", tname, nr, nc, c0, c1, rb, rt, tuple(str(f) for f in fr), lattice, x0, y0), safe_ext,
                      f"clip/{'lattice' if lattice else 'free'}/{onedge}/" + ("multi" if (ec1 > ec0 and erb > ert) else "thin"),
                      sample=case)
        except Exception as e:  # noqa  (nothing unexpected may escape: it becomes a correspondence disagreement)
            escaped(e)

    # ======================================================================= (7) catchments
    codes = [int(c) for c in FLOWDIRCODE.ravel() if c != 0]

    def routed_catchment():
        """a flow direction grid in which every cell outside a set of interior `pits` drains to the outlet (each cell points to
        its parent in a random spanning tree grown from the outlet, 8 directions), and the pits are closed depressions: sinks,
        or cells draining into a neighbouring pit. Pits enclosed by the area are HOLES: they belong to the filled area only."""
        nr, nc = rng.randint(3, 9), rng.randint(3, 9)
        npit = rng.choice([1, 1, 2, 3, 5])
        pits = set()
        for _ in range(npit):
            r, c = rng.randrange(1, nr - 1), rng.randrange(1, nc - 1)     # interior: not connected to the border by itself
            pits.add((r, c))
            if rng.random() < 0.3:                                       # a two-cell depression
                r2, c2 = r + rng.choice([-1, 0, 1]), c + rng.choice([-1, 0, 1])
                if 0 < r2 < nr - 1 and 0 < c2 < nc - 1:
                    pits.add((r2, c2))
        free = [(r, c) for r in range(nr) for c in range(nc) if (r, c) not in pits]
        # cell 0 (top-left corner) is the falsy cell number: outlet there in a fifth of the cases
        orc = (0, 0) if rng.random() < 0.2 else rng.choice(free)
        fd = np.zeros((nr, nc), dtype=np.int64)
        seen = {orc}
        frontier = [orc]
        while frontier:                                                   # randomised growth: parent = the cell reached from
            r, c = frontier.pop(rng.randrange(len(frontier)))
            nbs = [(r + dr, c + dc) for dr in (-1, 0, 1) for dc in (-1, 0, 1) if (dr, dc) != (0, 0)]
            rng.shuffle(nbs)
            for (r2, c2) in nbs:
                if 0 <= r2 < nr and 0 <= c2 < nc and (r2, c2) not in pits and (r2, c2) not in seen:
                    seen.add((r2, c2))
                    fd[r2, c2] = FLOWDIRCODE[r - r2 + 1, c - c2 + 1]      # (r2, c2) flows to (r, c)
                    frontier.append((r2, c2))
        fd[orc] = rng.choice([0, 0] + codes)                               # the outlet may flow on, out of the catchment or not
        for (r, c) in pits:
            near = [(r + dr, c + dc) for dr in (-1, 0, 1) for dc in (-1, 0, 1) if (dr, dc) != (0, 0) and (r + dr, c + dc) in pits]
            if near and rng.random() < 0.5:
                r2, c2 = rng.choice(near)
                fd[r, c] = FLOWDIRCODE[r2 - r + 1, c2 - c + 1]
                if fd[r2, c2] != 0 and (r2 + {32: -1, 64: -1, 128: -1, 16: 0, 1: 0, 8: 1, 4: 1, 2: 1}[int(fd[r2, c2])],
                                        c2 + {32: -1, 64: 0, 128: 1, 16: -1, 1: 1, 8: -1, 4: 0, 2: 1}[int(fd[r2, c2])]) == (r, c):
                    fd[r2, c2] = 0                                         # no two-cell cycle
        outlet = orc[0] * nc + orc[1]
        ring = sorted({(r + dr) * nc + (c + dc) for (r, c) in pits for dr in (-1, 0, 1) for dc in (-1, 0, 1)
                       if (r + dr, c + dc) not in pits} - {outlet})
        return fd, outlet, ring

    for rep in range(ctx.scale(120, 1000)):
        try:
            fddata, outlet, ring = routed_catchment()
            k = rng.random()
            if k < 0.3:
                inlets = None
            elif k < 0.4:
                inlets = []                                                             # empty list, not None
            elif k < 0.5 and outlet != 0:
                inlets = [0] + ([rng.choice(ring)] if ring and rng.random() < 0.5 else [])    # inlets containing cell 0
            elif k < 0.7 and ring:
                inlets = rng.sample(ring, min(len(ring), rng.randint(1, 2)))          # inlets touching a hole
            else:
                nrc = fddata.size
                inlets = [c for c in rng.sample(range(nrc), min(nrc, rng.randint(1, 3))) if c != outlet] or None
            catchment_case(fddata, outlet, inlets, gen_text(rng) or "h", 50 + rep)
        except Exception as e:  # noqa
            escaped(e)

    ndone = 0
    for rep in range(ctx.scale(100, 800) * 3):
        try:
            if ndone >= ctx.scale(100, 800):
                break
            nr, nc = rng.randint(1, 6), rng.randint(1, 6)
            fddata = np.array([[rng.choice(codes + [0]) for _ in range(nc)] for _ in range(nr)], dtype=np.int64)
            outlet = 0 if rng.random() < 0.15 else rng.randrange(nr * nc)
            inlets = None
            if rng.random() < 0.6:
                # inlets: cells of the inlet-free area (so that they cut something off), sometimes an arbitrary cell
                probe = Catchment("probe", Grid("p", nc, nr, dtype=np.int64))
                probe.flowdir.data = fddata
                try:
                    probe.delineate_area(outlet)
                except ValueError:
                    ctx.count(("catch", rep), False, "catchment/delineation_error")
                    continue
                cand = [int(c) for c in probe.idxcells_area if int(c) != outlet]
                inlets = rng.sample(cand, min(len(cand), rng.randint(0, 2))) if rng.random() < 0.8 else [rng.randrange(nr * nc)]
            if catchment_case(fddata, outlet, inlets, gen_text(rng) or "c", ndone):
                ndone += 1
        except Exception as e:  # noqa  (nothing unexpected may escape: it becomes a correspondence disagreement)
            escaped(e)

    # ======================================================================= (8) histories on ONE object
    # ---- (8a) save -> edit -> save again to the same path -> load; load -> edit -> to_dict -> from_dict; to_dict twice
    for rep in range(ctx.scale(150, 1500)):
        try:
            tname = DTYPES[rep % len(DTYPES)]
            t = np.dtype(tname)
            nr, nc = gen_shape(ctx, rng)
            if nr * nc > 100:
                nr, nc = 5, 4
            g, vals, nodw = make_grid(Grid, rng, tname, (nr, nc))
            keep = vals.copy()
            g.data = vals
            vals[...] = np.array(gen_words(rng, t, nr * nc), dtype="u%d" % t.itemsize).view(t).reshape(nr, nc)   # edit the INPUT array
            case = {"op": "history/save", "dtype": tname, "shape": [nr, nc], "edits": []}
            if g.data.tobytes() != keep.tobytes():
                ctx.finding("history/setter_aliases_input", "editing the array given to the data setter changed the grid", case)
                g._data = keep.copy()
            path = work / "hist.bil"
            for f in work.glob("hist.*"):
                f.unlink()
            nsteps = rng.randint(2, 4)
            for step in range(nsteps):
                g.save(path)
                htext = path.with_suffix(".hdr").read_text()
                dbytes = path.read_bytes()
                c2 = {**case, "step": step, "header": htext}
                ask("save " + grid_toks(g), "save", (canon_header(htext, t), dbytes.hex()), {**c2, "dtype": tname})
                how = ["from_header", "from_stream", "from_zip", "from_stringio"][(rep + step) % 4]
                try:
                    g2, defname = read_back(path.with_suffix(".hdr"), how)
                except Exception as e:  # noqa
                    ctx.finding("history/saveload/cannot_read_back", "a grid saved again after edits cannot be loaded",
                                {**c2, "how": how, "error": f"{exc_class(e)}: {e}"[:200]})
                    break
                ask(load_request(defname, htext, dbytes), "load", ("I", obs_real(g2)), {**c2, "how": how})
                check_meta(ctx, "history/saveload", g, g2, {**c2, "how": how})          # against the CURRENT state of g
                if np.dtype(g2.dtype) == t:
                    check_bits(ctx, f"history/saveload/data/{data_class(t, g.data)}",
                               "after edits and a second save, the loaded cells are not the current cells", g.data, g2.data, {**c2, "how": how})
                # the loaded grid is its own object: edit it, export it, and load the untouched file again
                if step == 0:
                    snap = obs_real(g2)
                    toks0 = grid_toks(g2)
                    e2 = [random_edit(g2, t, nr, nc) for _ in range(rng.randint(1, 3))]
                    ask("edits " + toks0 + " " + " ".join(e2), "grid", obs_real(g2), {**c2, "op": "history/edits_loaded", "edits": e2})
                    d1 = g2.to_dict()
                    g3 = Grid.from_dict(d1)
                    check_meta(ctx, "history/dict", g2, g3, {**c2, "edits": e2})
                    ask("todict " + grid_toks(g2), "todict", canon_dict(d1)[0], {**c2, "op": "history/todict", "dtype": tname})
                    # a caller changing the returned dictionary does not change the grid: the next export is the same
                    shown = {k: repr(v) for k, v in d1.items()}
                    for kk in list(d1.keys()):
                        d1[kk] = 99 if kk in ("ncols", "nrows") else "changed"
                    if {k: repr(v) for k, v in g2.to_dict().items()} != shown:
                        ctx.finding("history/dict_aliases_state", "changing the dictionary returned by to_dict changed the next export", c2)
                    g4, _ = read_back(path.with_suffix(".hdr"), how)
                    if diff_obs(snap, obs_real(g4)):
                        ctx.finding("history/load_not_fresh", "loading the same files again after editing the first loaded grid gives another grid",
                                    {**c2, "fields": diff_obs(snap, obs_real(g4))})
                # edits before the next save
                toks0 = grid_toks(g)
                es = [random_edit(g, t, nr, nc) for _ in range(rng.randint(1, 3))]
                case["edits"] = case["edits"] + es
                ask("edits " + toks0 + " " + " ".join(es), "grid", obs_real(g), {**c2, "op": "history/edits", "edits": es})
            ctx.count(("history/save", tname, nr, nc, tuple(case["edits"])), True, "history/save_edit_save")
        except Exception as e:  # noqa
            escaped(e)

    # ---- (8b) clone of a clone: three objects, writes on any of them
    for rep in range(ctx.scale(150, 1500)):
        try:
            tname = rng.choice(DTYPES)
            t = np.dtype(tname)
            nr, nc = gen_shape(ctx, rng)
            if nr * nc > 64:
                nr, nc = 4, 4
            a, vals, _ = make_grid(Grid, rng, tname, (nr, nc), name="a", comment="")
            a.data = vals
            b = a.clone() if rng.random() < 0.5 else a.clone(t.type)
            c = b.clone() if rng.random() < 0.5 else b.clone(t.type)
            obj = {"A": a, "B": b, "C": c}
            exp = {k: v.data.copy() for k, v in obj.items()}
            ops = []
            case = {"op": "history/clone_of_clone", "dtype": tname, "shape": [nr, nc], "ops": ops}
            check_meta(ctx, "history/clone_of_clone", a, c, case)
            broken = False
            for _ in range(rng.randint(2, 8)):
                who = rng.choice("ABC")
                k = rng.random()
                w = gen_words(rng, t, 1)[0]
                sc = np.array([w], dtype="u%d" % t.itemsize).view(t)[0]
                if k < 0.4:
                    idx = rng.randrange(nr * nc)
                    if rng.random() < 0.5:
                        obj[who][idx] = sc
                    else:
                        obj[who].data[idx // nc, idx % nc] = sc
                    ops.append(f"{who}:i:{idx}:{w}")
                elif k < 0.6:
                    obj[who].fill(sc)
                    ops.append(f"{who}:f:{w}")
                elif k < 0.9:
                    nv = np.array(gen_words(rng, t, nr * nc), dtype="u%d" % t.itemsize).view(t).reshape(nr, nc)
                    obj[who].data = nv
                    ops.append(f"{who}:d:{fmt_mat(nv)}")
                else:
                    shp = rng.choice([(nr + 1, nc), (nr, nc + 1), (nc + 1, nr)])       # rejected: wrong shape
                    nv = np.array(gen_words(rng, t, shp[0] * shp[1]), dtype="u%d" % t.itemsize).view(t).reshape(shp)
                    try:
                        obj[who].data = nv
                    except ValueError:
                        pass
                    ops.append(f"{who}:d:{fmt_mat(nv)}")
                for o in "ABC":
                    if o != who and not broken and obj[o].data.tobytes() != exp[o].tobytes():
                        broken = True
                        ctx.finding("history/clone_of_clone/not_independent", f"a write through {who} changed {o}", {**case, "ops": list(ops)})
                if not broken and (np.shares_memory(a.data, b.data) or np.shares_memory(b.data, c.data) or np.shares_memory(a.data, c.data)):
                    broken = True
                    ctx.finding("history/clone_of_clone/shares_memory", "two of original, clone and clone of the clone share their data", {**case, "ops": list(ops)})
                exp[who] = obj[who].data.copy()
            ask(f"store3 {fmt_mat(vals)} " + " ".join(ops), "plain", " ".join(fmt_mat(obj[k].data) for k in "ABC"), {**case, "ops": list(ops)})
            ctx.count(("history/clone3", tname, tuple(ops)), True, "history/clone_of_clone")
        except Exception as e:  # noqa
            escaped(e)

    # ---- (8c) clip of a clip, edits of parent / clip between clips
    for rep in range(ctx.scale(150, 1500)):
        try:
            tname = rng.choice(DTYPES)
            t = np.dtype(tname)
            nr, nc = rng.randint(3, 12), rng.randint(3, 12)
            dcsz, dxll, dyll = F(rng.choice(DEC_CSZ)), F(rng.choice(DEC_ORG)), F(rng.choice(DEC_ORG))
            csz, xll, yll = float(dcsz), float(dxll), float(dyll)
            g, vals, nodw = make_grid(Grid, rng, tname, (nr, nc), georef=(xll, yll, csz))
            g.data = vals
            mag = max(abs(xll), abs(yll), abs(xll + csz * nc), abs(yll + csz * nr), csz * max(nr, nc))
            cls = data_class(t, vals)

            def inner_box(gr):
                """a box with both corners well inside cells of `gr` (fractions 0.25 .. 0.75 of a cell)"""
                n_r, n_c = int(gr.nrows), int(gr.ncols)
                a0, a1 = sorted([rng.randrange(n_c), rng.randrange(n_c)])
                b0, b1 = sorted([rng.randrange(n_r), rng.randrange(n_r)])
                f = [rng.choice([0.5, 0.25, 0.75]) for _ in range(4)]
                if a0 == a1:
                    f[0], f[1] = sorted(f[:2])
                if b0 == b1:
                    f[2], f[3] = sorted(f[2:])
                gx, gy, gc = float(gr.xllcorner), float(gr.yllcorner), float(gr.cellsize)
                return (gx + gc * (a0 + f[0]), gy + gc * (b0 + f[2]), gx + gc * (a1 + f[1]), gy + gc * (b1 + f[3]))

            box1 = inner_box(g)
            case = {"op": "history/clip_of_clip", "dtype": tname, "shape": [nr, nc], "xll": repr(xll), "yll": repr(yll), "csz": repr(csz),
                    "box1": [repr(v) for v in box1]}
            cl1 = g.clip(*box1)
            centre_oracle(g, cl1, case, mag, cls, "history/clip")
            box2 = inner_box(cl1)
            case["box2"] = [repr(v) for v in box2]
            cl2 = cl1.clip(*box2)
            ask("clip " + " ".join(rawhex(v) for v in box2) + " " + grid_toks(cl1), "grid_nocomment", obs_real(cl2), case)
            centre_oracle(cl1, cl2, case, mag, cls, "history/clip_of_clip")       # against its parent
            centre_oracle(g, cl2, case, mag, cls, "history/clip_of_clip")         # and against the original grid
            # edits between clips: parent and clips are separate objects; a new clip shows the parent's CURRENT cells
            s1, s2 = cl1.data.copy(), cl2.data.copy()
            es = [random_edit(g, t, nr, nc) for _ in range(rng.randint(1, 2))]
            es = [e for e in es if e[0] in "ifd"] or [random_edit(g, t, nr, nc)]
            if cl1.data.tobytes() != s1.tobytes() or cl2.data.tobytes() != s2.tobytes():
                ctx.finding("history/clip_aliases_parent", "editing the parent grid changed a grid clipped from it before", {**case, "edits": es})
            if rng.random() < 0.5:
                # a REJECTED call on the parent (wrong shape): the next clip still shows the parent's cells
                shp = rng.choice([(nr + 1, nc), (nr, nc + 1), (nc + 1, nr + 1)])
                try:
                    g.data = np.array(gen_words(rng, t, shp[0] * shp[1]), dtype="u%d" % t.itemsize).view(t).reshape(shp)
                except ValueError:
                    es = es + ["rejected data assignment"]
            if rawhex(g.cellsize) == rawhex(csz) and rawhex(g.xllcorner) == rawhex(xll) and rawhex(g.yllcorner) == rawhex(yll):
                cl3 = g.clip(*box1)
                ask("clip " + " ".join(rawhex(v) for v in box1) + " " + grid_toks(g), "grid_nocomment", obs_real(cl3), {**case, "edits": es})
                centre_oracle(g, cl3, {**case, "edits": es}, mag, data_class(t, g.data), "history/clip_after_edit")
            gsnap = g.data.copy()
            cl1.fill(np.array([gen_words(rng, t, 1)[0]], dtype="u%d" % t.itemsize).view(t)[0])
            if g.data.tobytes() != gsnap.tobytes() or cl2.data.tobytes() != s2.tobytes():
                ctx.finding("history/clip_aliases_parent", "writing into a clipped grid changed its parent or a grid clipped from it", case)
            ctx.count(("history/clip", tname, nr, nc, box1, box2), True, "history/clip_of_clip")
        except Exception as e:  # noqa
            escaped(e)

    # ---- (8d) catchments: export, caller edits the export, re-delineate, export again
    for rep in range(ctx.scale(60, 500)):
        try:
            fddata, outlet, ring = routed_catchment()
            nr, nc = fddata.shape
            fd = Grid("fd", nc, nr, dtype=np.int64)
            fd.data = fddata
            ca = Catchment("hist", fd)
            prev = None
            nok = 0
            cops = []
            for step in range(rng.randint(2, 4)):
                o = outlet if step == 0 else (0 if rng.random() < 0.2 else rng.randrange(nr * nc))
                inl = None if rng.random() < 0.5 else (rng.sample(ring, min(len(ring), 2)) if ring else None)
                # a failing call now and then (outlet outside the grid, or a buffer too small): ValueError, areas reset
                fail = rng.random() < 0.25
                if fail and rng.random() < 0.5:
                    o = rng.choice([nr * nc, -1, nr * nc + 7])
                try:
                    if fail and 0 <= o < nr * nc:
                        ca.delineate_area(o, inl, nval=1)
                    else:
                        ca.delineate_area(o, inl)
                except ValueError:
                    cops.append(f"{o};{ilist(inl)};!;!")
                    # after a failed call the catchment cannot be exported (both in the code and in the model)
                    try:
                        ca.to_dict()
                        exported = True
                    except ValueError:
                        exported = False
                    ask(" ".join(["crun", enc(ca.name), grid_toks(ca.flowdir)] + cops), "plain",
                        "err notDelineated" if not exported else "exported", {"op": "history/catchment_failed", "shape": [nr, nc], "ops": list(cops)})
                    continue
                cops.append(f"{o};{ilist(inl)};{ilist([int(v) for v in ca.idxcells_area])};{ilist([int(v) for v in ca.idxcells_area_filled])}")
                nok += 1
                case = {"op": "history/catchment", "shape": [nr, nc], "step": step, "outlet": o, "inlets": inl, "flowdir": fddata.tolist()}
                d1 = ca.to_dict()
                shown = json.dumps(d1, default=lambda x: x.item() if isinstance(x, np.generic) else x.tolist(), sort_keys=True)
                # the caller edits what was returned
                for kk in ("idxcells_area", "idxcells_area_filled", "idxinlets"):
                    vv = d1.get(kk)
                    if isinstance(vv, list):
                        vv.append(3)
                        vv[0] = -5
                    elif isinstance(vv, np.ndarray) and vv.size:
                        vv[...] = -5
                if isinstance(d1.get("flowdir"), dict):
                    d1["flowdir"]["ncols"] = 77
                d2 = ca.to_dict()
                if json.dumps(d2, default=lambda x: x.item() if isinstance(x, np.generic) else x.tolist(), sort_keys=True) != shown:
                    ctx.finding("history/catchment_dict_aliases_state", "editing the dictionary returned by Catchment.to_dict changed the next export", case)
                cb = Catchment.from_dict(d2)
                got_in, a1, f1 = judge_catch(ca, cb, case, "dict-after-history", nr, nc)
                oc = getattr(cb, "_idxcell_outlet", None)
                ask(" ".join(["crun", enc(ca.name), grid_toks(ca.flowdir)] + cops), "catch",
                    ((cb.name, None if oc is None else int(oc), got_in, a1, f1), obs_real(cb.flowdir)), {**case, "ops": list(cops)})
                if prev is not None:
                    pcb, psnap = prev
                    now = (snap_outlet(pcb), None if pcb.idxinlets is None else [int(v) for v in pcb.idxinlets],
                           [int(v) for v in pcb.idxcells_area], [int(v) for v in pcb.idxcells_area_filled])
                    if now != psnap:
                        ctx.finding("history/catchment_rebuilt_aliases", "re-delineating a catchment changed a catchment rebuilt from its earlier dictionary", case)
                prev = (cb, (snap_outlet(cb), None if cb.idxinlets is None else [int(v) for v in cb.idxinlets],
                             [int(v) for v in cb.idxcells_area], [int(v) for v in cb.idxcells_area_filled]))
            ctx.count(("history/catch", rep, tuple(fddata.ravel())), nok > 1, "history/catchment")
        except Exception as e:  # noqa
            escaped(e)

    # ---- (8e) state machine: every public mutator, accepted or REJECTED, on one object; after a rejected call the
    # object is the grid it was (model: `step`), and it still survives clone / dictionary / save + load
    def scalar_of(w, t):
        return np.array([w], dtype="u%d" % t.itemsize).view(t)[0]

    def offered_value(t, bound=False):
        """a value offered to `dtype(value)` (no-data, fill, mindata, maxdata): (python object, token)"""
        k = rng.random()
        if k < 0.35:
            while True:
                w = gen_words(rng, t, 1)[0]
                sc = scalar_of(w, t)
                # a float bound is never a zero (which zero np.maximum returns on a tie is platform dependent)
                if not (bound and t.kind == "f" and sc == 0):
                    return sc, f"w:{w}"
        if k < 0.65:
            if t.kind in "iu":
                info = np.iinfo(t)
                n = rng.choice([int(info.min), int(info.max), 1, -1, 7, rng.randint(int(info.min), int(info.max)),
                                int(info.max) + 1, int(info.min) - 1, 2 ** 64, -2 ** 63 - 1])
            else:
                n = rng.choice([1, -1, 7, 65504, 65520, 2 ** 24 + 1, 2 ** 53 + 1, -2 ** 63, 10 ** 40, rng.randint(-10 ** 6, 10 ** 6)])
            if bound and n == 0:
                n = 1
            return n, f"i:{n}"
        if k < 0.8:
            x = rng.choice([3.7, -0.5, -1.5, 1e10, 1e30, float("nan"), float("inf"), float("-inf"), 127.9, 255.5, 65535.99,
                            9.3e18, 1.8e19, -9.3e18, 1e-8, 70000.0, 3.5e38, gen_float(rng)])
            if bound and x == 0:
                x = 1.0
            return x, f"x:{rawhex(x)}"
        txt = rng.choice(["12", " 12 ", "abc", "1.5", "nan", "-inf", "1e3", "-7", "+3", "", "300", "-129", "70000", "1e400", "0x10",
                          str(rng.randint(-2 ** 63, 2 ** 64))])
        return txt, "t:" + dot(txt)

    def random_op(g, t, nr, nc, with_bounds):
        """one call on the real grid, accepted or rejected: (token for the model, name of the exception raised or None)"""
        k = rng.random()
        try:
            if k < 0.3:
                return random_edit(g, t, nr, nc), None
            if k < 0.42:
                idx = rng.choice([rng.randrange(nr * nc), -1, -nr * nc, nr * nc, -nr * nc - 1, rng.randint(-2 * nr * nc, 2 * nr * nc), 10 ** 6])
                w = gen_words(rng, t, 1)[0]
                tok = f"I:{idx}:{w}"
                g[idx] = scalar_of(w, t)
                return tok, None
            if k < 0.5:
                val, vt = offered_value(t)
                tok = "F:" + vt
                g.fill(val)
                return tok, None
            if k < 0.54:
                tok = "D3"
                g.data = np.zeros(rng.choice([(nr, nc, 1), (1, nr, nc), (nr, nc, 2)]), dtype=t)
                return tok, None
            if k < 0.72:
                # an array of another shape (the setter applies np.atleast_2d first)
                shp = rng.choice([(nr + 1, nc), (nr, nc + 1), (nc, nr), (nr * nc,), (), (max(nr - 1, 1), nc), (nr, max(nc - 1, 1)),
                                  (1, nr * nc), (nr * nc, 1), (2 * nr, nc), (nr + 1, nc + 1)])
                n = int(np.prod(shp)) if shp != () else 1
                nv = np.array(gen_words(rng, t, n), dtype="u%d" % t.itemsize).view(t).reshape(shp)
                tok = "d:" + fmt_mat(np.atleast_2d(nv))
                g.data = nv
                return tok, None
            if k < 0.8:
                val, vt = offered_value(t)
                tok = "V:" + vt
                g.nodata = val
                return tok, None
            if k < 0.9 and with_bounds:
                val, vt = offered_value(t, bound=True)
                if rng.random() < 0.5:
                    tok = "m:" + vt
                    g.mindata = val
                else:
                    tok = "M:" + vt
                    g.maxdata = val
                return tok, None
            # Grid.load on a file of the right or of a wrong size, either byte order
            n = rng.choice([nr * nc, nr * nc, nr * nc, nr * nc + 1, max(nr * nc - 1, 0), nr * nc + nc, 0])
            raw = bytes(rng.getrandbits(8) for _ in range(n * t.itemsize + rng.choice([0, 0, 0, 1 if t.itemsize > 1 else 0])))
            bo = rng.choice("IM")
            pl = work / "direct_load.bil"
            pl.write_bytes(raw)
            tok = f"L:{bo}:h{raw.hex()}"
            if rng.random() < 0.5:
                g.load(str(pl), ">" if bo == "M" else "<")
            else:
                with open(pl, "rb") as fdl:
                    g.load(fdl, ">" if bo == "M" else "<")
            return tok, None
        except (ValueError, OverflowError, IndexError, TypeError) as e:
            return tok, exc_chain(e)

    def still_a_grid(g, t, case, sig):
        """the property on the CURRENT object: clone, dictionary, save + load"""
        try:
            cl = g.clone()
            check_meta(ctx, f"{sig}/clone", g, cl, case)
            check_bits(ctx, f"{sig}/clone/data", "cell values of a clone are not bit-identical", g.data, cl.data, case)
            g2 = Grid.from_dict(g.to_dict())
            check_meta(ctx, f"{sig}/dict", g, g2, case)
            pz = work / "machine.bil"
            g.save(pz)
            g3 = Grid.from_header(pz)
            check_meta(ctx, f"{sig}/saveload", g, g3, case)
            if np.dtype(g3.dtype) == t:
                check_bits(ctx, f"{sig}/saveload/data", "cell values are not bit-identical after save/load", g.data, g3.data, case)
        except Exception as e:  # noqa
            ctx.finding(f"{sig}/raises", "clone / dictionary / save + load raises on a grid reached through public calls only",
                        {**case, "error": f"{exc_class(e)}: {e}"[:200]})

    for rep in range(ctx.scale(250, 2500)):
        try:
            tname = DTYPES[rep % len(DTYPES)]
            t = np.dtype(tname)
            nr, nc = gen_shape(ctx, rng)
            if nr * nc > 36:
                nr, nc = 3, 4
            g, vals, nodw = make_grid(Grid, rng, tname, (nr, nc))
            g.data = vals
            with_bounds = rng.random() < 0.3
            case = {"op": "machine", "dtype": tname, "shape": [nr, nc], "ops": []}
            nrej = 0
            for stepno in range(rng.randint(2, 7)):
                toks0 = grid_toks(g)
                tok, exc = random_op(g, t, nr, nc, with_bounds)
                case["ops"] = case["ops"] + [tok if len(tok) < 200 else tok[:200] + "..."]
                c2 = {**case, "step": stepno, "raised": exc}
                ask(f"run {toks0} {tok}", "run", (exc, obs_real(g, bounds=True)), c2)
                # the accessor: grid[idx] for an index inside or outside [-size, size)
                ridx = rng.choice([rng.randrange(nr * nc), -1, -nr * nc, nr * nc, -nr * nc - 1, rng.randint(-2 * nr * nc, 2 * nr * nc)])
                try:
                    got = "ok %d" % word_of(g[ridx], t)
                except IndexError:
                    got = "err badIndex"
                ask(f"getitem {ridx} " + grid_toks(g), "plain", got, {**c2, "op": "machine/getitem", "index": ridx})
                if exc is not None:
                    nrej += 1
                    still_a_grid(g, t, c2, "history/rejected/" + tok.split(":")[0])
            still_a_grid(g, t, case, "history/machine")
            ctx.count(("machine", tname, nr, nc, tuple(case["ops"])), True, "history/machine/" + ("with_rejected" if nrej else "all_accepted")
                      + ("/bounds" if with_bounds else ""))
        except Exception as e:  # noqa
            escaped(e)

    # ======================================================================= (9) file names
    # save(dir/name) for names that end with ".bil", with "bil" only, or with neither; then from_header / from_zip on the name,
    # on its .hdr sibling, on Path.stem + ".hdr", on the bare stem: which files are written, which are found (model: saveFS,
    # fromHeaderFS, fromZipFS). Oracle: a grid saved as <non-empty stem>.bil loads identical through either file name.
    NAMES = ["g.bil", "a.b.bil", "a..bil", "My Grid.bil", ".bil", "xbil", "a.Tbil", "bil", "g.txt", "g.BIL", "g.bil ", "g.hdr",
             "x.ybil", "..bil", "a.b.c.bil", "g", "g.", ".g.bil", "bil.bil", "hdr.bil", "a.hdr.bil"]
    for rep in range(ctx.scale(120, 1000)):
        try:
            tname = DTYPES[rep % len(DTYPES)]
            t = np.dtype(tname)
            nr, nc = gen_shape(ctx, rng)
            if nr * nc > 36:
                nr, nc = 2, 3
            g, vals, nodw = make_grid(Grid, rng, tname, (nr, nc))
            g.data = vals
            name = rng.choice(NAMES) if rng.random() < 0.7 else "".join(rng.choice("ab.Tbil hdr_") for _ in range(rng.randint(1, 9)))
            if name in (".", "..") or name.strip() == "":
                name = "g.bil"
            dd = work / "d"
            shutil.rmtree(dd, ignore_errors=True)
            dd.mkdir()
            case = {"op": "files", "dtype": tname, "shape": [nr, nc], "name": name}
            try:
                g.save(dd / name)
                saved = True
            except Exception:  # noqa
                saved = False
            written = sorted(f.name for f in dd.iterdir())
            stem = Path(name).stem
            probe = rng.choice([name, name[:-3] + "hdr", stem + ".hdr", stem, stem + ".bil"])
            if probe in ("", ".", ".."):       # not a final path component (pathlib drops it)
                probe = name
            how = rng.choice(["hdr", "hdr", "zip"])
            case.update({"probe": probe, "how": how, "written": written})
            req = f"files {how} {enc(name)} {enc(probe)} " + grid_toks(g)
            if not saved:
                case["outside"] = True
                ask(req, "plain", "err badFilename", case)
                if written:
                    outside_diffs.append({"what": "C13/files: a rejected save left files behind", "op": "files", "case": case})
                ctx.count(("files", name), True, "files/rejected")
                continue
            try:
                if how == "hdr":
                    g2 = Grid.from_header(dd / probe)
                else:
                    zp = work / "files.zip"
                    with zipfile.ZipFile(zp, "w") as z:
                        for f in dd.iterdir():
                            z.write(f, "d/" + f.name)
                    g2 = Grid.from_zip(zp, "d/" + probe)
                res = ("ok", obs_real(g2))
            except Exception as e:  # noqa
                g2 = None
                res = ("err", exc_chain(e))
            # the region the theorems claim: <non-empty stem>.bil through from_header (save_fromHeader_files); through from_zip,
            # whose member names come from os.path.splitext, the stem must not consist of dots only (save_fromZip_files)
            wellnamed = (name.endswith(".bil") and name != ".bil" and probe in (name, name[:-3] + "hdr")
                         and (how == "hdr" or name[:-4].strip(".") != ""))
            # file names the property does not speak of (no ".bil", probes of other names): differences are reported, not alarms
            case["outside"] = not wellnamed
            ask(req, "files", (written, res), case)
            if wellnamed:
                if g2 is None:
                    ctx.finding("files/cannot_read_back", "a grid saved as <stem>.bil cannot be loaded through from_header / from_zip", {**case, "error": res[1]})
                else:
                    check_meta(ctx, "files", g, g2, case)
                    if np.dtype(g2.dtype) == t:
                        check_bits(ctx, f"files/data/{data_class(t, vals)}", "cell values are not bit-identical after save / load by file name", g.data, g2.data, case)
            ctx.count(("files", name, probe, how, tname), True, "files/" + ("well_named" if wellnamed else "other_name") + "/" + res[0])
        except Exception as e:  # noqa
            escaped(e)

    # ======================================================================= correspondence
    malformed_diffs = []

    def compare_reply(req, rep, kind, impl, case):
        def differ(what, c):
            # how text that is NOT a valid header is treated (which error is raised, or a tolerant reading) is not
            # constrained by the property: differences there are reported in the evidence, not as a broken correspondence
            if case.get("op") == "malformed":
                malformed_diffs.append({"what": what, "kind": case.get("kind"), "header": case.get("header")})
            elif case.get("outside"):
                outside_diffs.append({"what": what, "op": case.get("op"), "case": {k: v for k, v in c.items() if k not in ("header",)}})
            else:
                ctx.disagree(what, c)
        toks = rep.split(" ")
        tag = f"C13/{case.get('op', kind)}"
        if rep == "bad-op":
            differ(f"{tag}: request not understood by the driver", {**case, "request": req[:300]})
            return
        if kind == "plain":
            if rep != impl:
                differ(f"{tag}: implementation and model differ", {**case, "impl": impl, "model": rep})
        elif kind == "save":
            if toks[0] != "ok":
                differ(f"{tag}: model fails where Grid.save succeeds", {**case, "model": rep})
                return
            tt = np.dtype(case["dtype"])
            mtext = dec(toks[1])
            if tt.kind != "f":      # the model prints an integer no-data value in decimal: same canonical word
                pass
            mfields = canon_header(mtext, tt)
            if mfields != impl[0]:
                keys = sorted(k for k in set(mfields) | set(impl[0]) if mfields.get(k) != impl[0].get(k))
                differ(f"{tag}: header fields differ: {keys}",
                             {**case, "impl": {k: impl[0].get(k) for k in keys}, "model": {k: mfields.get(k) for k in keys}})
            if toks[2][1:] != impl[1]:
                differ(f"{tag}: data bytes differ", {**case, "impl": impl[1][:80], "model": toks[2][1:81]})
        elif kind == "load":
            if toks[0] != "ok":
                differ(f"{tag}: model rejects a header the code loads", {**case, "model": rep})
                return
            bo, real = impl
            model = obs_model(toks[2:])
            for o in (real, model):     # name / comment are free text the property does not constrain: case and blanks
                for k in ("name", "comment"):
                    o[k] = " ".join(str(o[k]).lower().split())
            d = diff_obs(real, model)
            if d or (bo is not None and toks[1] != bo):
                differ(f"{tag}: loaded grid differs in {d}", {**case, "impl": {k: real[k] for k in d}, "model": {k: model[k] for k in d},
                                                                 "byteorder": [bo, toks[1]]})
        elif kind == "load_err":
            if toks[0] != "err":
                differ(f"{tag}: the code raises {impl}, the model loads", {**case, "model": rep[:200]})
            elif not class_matches(impl, ERRCLASS.get(toks[1], set())):
                differ(f"{tag}: the code raises {impl}, the model reports {toks[1]}", case)
        elif kind in ("grid", "grid_nocomment", "grid_nonodata"):
            if toks[0] != "ok":
                differ(f"{tag}: model fails ({rep}) where the code succeeds", case)
                return
            model = obs_model(toks[1:])
            if model["nrows"] == 0 or model["ncols"] == 0:
                # an empty array (corners in the wrong order): its rows cannot be told apart in the line protocol
                model["data"] = impl["data"] if not any(len(r) for r in impl["data"]) else model["data"]
            # the clip comment quotes the box with python's float printing (external, not constrained by the property)
            # clone(other dtype) keeps the no-data scalar of the old dtype (not an observable of the property)
            d = diff_obs(impl, model, skip={"grid_nocomment": ("comment",), "grid_nonodata": ("nodata",)}.get(kind, ()))
            if d:
                differ(f"{tag}: grids differ in {d}", {**case, "impl": {k: impl[k] for k in d}, "model": {k: model[k] for k in d}})
        elif kind == "files":
            written, (st, real) = impl
            if toks[0] != "saved":
                differ(f"{tag}: the code saves, the model says {rep[:60]}", case)
                return
            mnames = sorted(dec(x).split("/", 1)[1] for x in toks[1][1:-1].split(";") if x)
            if mnames != written:
                differ(f"{tag}: files written differ", {**case, "model": mnames})
            if st == "err":
                if toks[2] != "err":      # which exception a missing file raises is not the property's business
                    differ(f"{tag}: the code raises {real}, the model says {' '.join(toks[2:4])}", case)
            elif toks[2] != "ok":
                differ(f"{tag}: the code loads, the model says {' '.join(toks[2:4])}", case)
            else:
                model = obs_model(toks[3:])
                for o in (real, model):
                    for k in ("name", "comment"):
                        o[k] = " ".join(str(o[k]).lower().split())
                d = diff_obs(real, model)
                if d:
                    differ(f"{tag}: loaded grid differs in {d}", {**case, "impl": {k: real[k] for k in d}, "model": {k: model[k] for k in d}})
        elif kind == "run":
            # one call of the state machine: accepted / rejected alike, and the same state afterwards
            exc, real = impl
            flags = toks[1][1:-1].split(",")
            model = obs_model(toks[2:])
            if (exc is None) != (flags[-1] == "-") or (exc is not None and not class_matches(exc, ERRCLASS.get(flags[-1], set()))):
                differ(f"{tag}: the call raised {exc} in the code, the model says {flags[-1]}", case)
            d = diff_obs(real, model)
            if d:
                differ(f"{tag}: state after the call differs in {d}" + (" (call REJECTED)" if exc else ""),
                       {**case, "impl": {k: real[k] for k in d}, "model": {k: model[k] for k in d}})
        elif kind == "todict":
            if toks[0] != "ok":
                differ(f"{tag}: model fails", {**case, "model": rep})
                return
            tt = np.dtype(case["dtype"])
            mdt = np.dtype(dec(toks[7]))
            mnd = dec(toks[8])
            mw = int(mnd[1:], 16) if mnd.startswith("x") else word_of(mdt.type(int(mnd)), mdt)
            model = {"name": dec(toks[1]), "ncols": int(toks[2]), "nrows": int(toks[3]), "csz": toks[4], "xll": toks[5], "yll": toks[6],
                     "dtype": mdt.kind + str(mdt.itemsize), "nodata": "nan" if is_nan_word(mw, mdt) else str(mw),
                     "comment": dec(toks[9]),
                     "parent": sorted((k, model_pval_value(v)) for k, v in parse_parent(toks[10], toks[11]))}
            dd = diff_obs(impl, model)
            if dd:
                differ(f"{tag}: dictionaries differ in {dd}", {**case, "impl": {k: impl[k] for k in dd}, "model": {k: model[k] for k in dd}})
        elif kind == "catch":
            if toks[0] != "ok":
                differ(f"{tag}: model fails ({rep})", case)
                return
            def il(tok):
                return None if tok == "-" else [int(v) for v in C.parse_list(tok)]
            # areas are sets of cells: the listing order is not fixed by the property
            mcatch = (dec(toks[1]), int(toks[2]), il(toks[3]), sorted(il(toks[4])), sorted(il(toks[5])))
            model = obs_model(toks[6:])
            d = diff_obs(impl[1], model)
            if mcatch != tuple(impl[0]) or d:
                differ(f"{tag}: rebuilt catchments differ", {**case, "impl": list(impl[0]), "model": list(mcatch), "flowdir_fields": d})

    replies = ctx.lean.ask(reqs)
    for req, rep, (kind, impl, case) in zip(reqs, replies, checks):
        try:
            compare_reply(req, rep, kind, impl, case)
        except Exception as e:  # noqa
            ctx.disagree(f"C13/{case.get('op', kind)}: reply could not be compared ({type(e).__name__}: {e})"[:300],
                         {**case, "model": rep[:300], "trace": traceback.format_exc()[-600:]})
    shutil.rmtree(work, ignore_errors=True)
    ctx.extra["malformed_header_differences"] = {"count": len(malformed_diffs), "samples": malformed_diffs[:5]}
    ctx.extra["outside_property_differences"] = {"count": len(outside_diffs), "samples": outside_diffs[:5]}
    ctx.extra["rule"] = __doc__.split("Cases:")[1].strip()
    ctx.assumptions += [
        "float printing and reading (str(np.float64), float()), conversions between float formats, ndarray.tofile / np.fromfile, "
        "copy.deepcopy, zipfile and the file system are external: exercised end to end and compared, not proved",
        "header text is printable ASCII (names and comments may hold line breaks)",
        "integer tokens with underscores or non-ASCII digits are not generated (python int() accepts them, the model does not)",
    ]


def main(tier, replay=None):
    return C.run_check(PID, tier, body, needs_native=True, replay=replay, level_partial=["external_text_statement"],
                       trusted=["python float()/str(np.floatN), numpy scalar construction from text, ndarray.tofile/np.fromfile, "
                                "copy.deepcopy, zipfile, the file system (external; exercised end to end)",
                                "python `re` on single-line ASCII strings (modelled as list functions, compared by result)",
                                "HydroVerif.Model.C07 geometry model (shared with C07) for the clip arithmetic"])
