"""Translator: the integer kernels of hydrodiy (C text of the working tree) -> lean/HydroVerif/Generated/CKernels.lean

Front end: `clang -Xclang -ast-dump=json -fsyntax-only` (clang's parser, semantic analysis and implicit conversions are
trusted; every expression node carries its C type). The JSON AST of the WHITELISTed functions is walked into a small
intermediate form and emitted as Lean definitions in the monad `R = Except Fault` with the semantic primitives of
`lean/HydroVerif/Model/CSem.lean` — values AND faults:

  x (+|-|*) y        int: `ci32 (x op y)`, long long: `ci64 (x op y)`      (`ovf` when the result leaves the type)
  x / y, x % y       `div32 / mod32 / div64 / mod64`                       (`div0`; `ovf` for MIN / -1)
  -x                 `ci32 (-x)` / `ci64 (-x)`;   (int) of a long long: `ci32 x`
  p[i], p[i] = v     `rd b p i`, `wr b p i v`                              (`oob b i` outside 0 .. length-1)
  a && b, a || b, c ? a : b     only the operands C evaluates are evaluated (a fault in the other one does not occur)
  f(args)            the generated definition of `f` (only functions of the whitelist; anything else is refused)
  for (i = a; i < b; i++) S      `forLoop` over `(b - a).toNat` iterations, state = the variables S assigns that are
                     live around the loop; `return` in S is the early exit `.inr`, `continue` ends the iteration

Conventions of the emitted text (so that re-formatting, comments, renamed locals do not change it):
  * parameters keep their C names, locals are `v0, v1, …` in declaration order, temporaries `t1, t2, …`;
  * pointer parameters are `List Int` (extent = length); a function that writes through pointer parameters returns
    `(value, new contents of each written parameter in parameter order)`, otherwise just the value;
  * local arrays with an initialiser are list literals (missing trailing elements are 0, as in C); without an
    initialiser they start as `CSem.uninit junk off n` — arbitrary contents taken from the oracle parameter `junk`
    that such a function (and every function calling it) gets as FIRST parameter;
  * `return BASE + __LINE__` (the error returns of the kernels) is abstracted to the code class `1`; the numeric codes
    of each function are recorded in the metadata (`errcodes`) so that the ctypes correspondence can check that the
    compiled kernel returned one of them;
  * buffers are named in faults by position: `.arg k` = k-th parameter, `.loc k` = k-th local array.

Everything else is refused with `CError` (a `common.TranslatorError`): `while`, `do`, `break`, `goto`, `switch`,
floating point, unsigned or narrower integer types, bit operations, pointer arithmetic, `&x`, assignments used as values, a call that
writes through a pointer in a conditionally evaluated operand, loops that
are not counted loops (`i < e` / `i <= e` with an invariant bound and `i++`), a scalar local that may be read before
it is assigned, a call outside the whitelist, recursion, aliased buffer arguments, `__LINE__` outside a return.

`regen(ctx)` rewrites the target only when its text changes and raises `CError` when the source cannot be translated
(the previously generated file is then kept and the run reports the proof obligations as broken).
"""
import hashlib
import json
import subprocess
from pathlib import Path

from . import common as C

TARGET = C.LEAN / "HydroVerif" / "Generated" / "CKernels.lean"
WHITELIST = [
    ("data/c_dateutils.c", ["c_dateutils_isleapyear", "c_dateutils_daysinmonth", "c_dateutils_dayofyear",
                            "c_dateutils_comparedates", "c_dateutils_add1month", "c_dateutils_add1day"]),
    ("data/c_dutils.c", ["c_combi"]),
    ("gis/c_grid.c", ["clipi", "getnxy", "c_cell2rowcol", "c_neighbours", "c_upstream", "c_downstream"]),
]
BITS = {"int": 32, "long long": 64}
RANGE = {32: (-2 ** 31, 2 ** 31 - 1), 64: (-2 ** 63, 2 ** 63 - 1)}
RESERVED = {"junk", "rd", "wr", "i32", "i64", "ci32", "ci64", "div32", "div64", "mod32", "mod64", "forLoop", "pure", "uninit", "x",
            "fun", "do", "let", "if", "then", "else", "match", "with", "at", "from", "end", "open", "in", "show", "have",
            "where", "by", "def", "instance", "structure", "class", "namespace", "section", "import", "return", "for",
            "mut", "Type", "Prop", "Int", "Nat", "List", "R", "Empty", "Unit", "true", "false", "decide", "not", "and", "or"}


class CError(C.TranslatorError):
    pass


# ---------------------------------------------------------------------------------------------
# intermediate form
class Stmt:
    live_after = frozenset()


class Assign(Stmt):
    def __init__(self, var, e):
        self.var, self.e = var, e


class Store(Stmt):
    """buf[idx] = e   or   buf[idx] = buf[idx] op e   (op = (symbol, bits))"""

    def __init__(self, buf, idx, e, op=None):
        self.buf, self.idx, self.e, self.op = buf, idx, e, op


class CallS(Stmt):
    """a call at statement level: `target = f(...)` or `f(...);`"""

    def __init__(self, call, target=None):
        self.call, self.target = call, target


class ArrDecl(Stmt):
    def __init__(self, buf, n, init):
        self.buf, self.n, self.init = buf, n, init


class If(Stmt):
    def __init__(self, c, then, els):
        self.c, self.then, self.els = c, then, els


class For(Stmt):
    def __init__(self, counter, lo, strict, hi, body, extras, bits):
        self.counter, self.lo, self.strict, self.hi, self.body, self.extras, self.bits = \
            counter, lo, strict, hi, body, extras, bits
        self.head_live = frozenset()


class Return(Stmt):
    def __init__(self, e):
        self.e = e


class Continue(Stmt):
    pass


def lit(v):
    return ("lit", int(v))


def fold(op, a, b, bits):
    """C arithmetic on two literals; None when the result is not defined / leaves the type"""
    lo, hi = RANGE[bits]
    if op == "+":
        r = a + b
    elif op == "-":
        r = a - b
    elif op == "*":
        r = a * b
    elif op in ("/", "%"):
        if b == 0:
            return None
        q = abs(a) // abs(b) * (1 if (a >= 0) == (b >= 0) else -1)
        if not lo <= q <= hi:
            return None
        r = q if op == "/" else a - q * b
    else:
        return None
    return r if lo <= r <= hi else None


def uses(e, out=None):
    """names (scalars and buffers) an expression / condition reads"""
    out = set() if out is None else out
    k = e[0]
    if k == "var":
        out.add(e[1])
    elif k == "load":
        out.add(e[1])
        uses(e[2], out)
    elif k == "call":
        for kind, a in e[2]:
            if kind == "b":
                out.add(a)
            else:
                uses(a, out)
    elif k in ("lit", "err", "line"):
        pass
    else:
        for a in e[1:]:
            if isinstance(a, tuple):
                uses(a, out)
    return out


def has_kind(e, kinds):
    if e[0] in kinds:
        return True
    if e[0] == "call":
        return any(kind == "s" and has_kind(a, kinds) for kind, a in e[2])
    return any(isinstance(a, tuple) and has_kind(a, kinds) for a in e[1:])


def subst_line(e):
    """the expression with every `__LINE__` literal replaced by its value"""
    if e[0] == "line":
        return lit(e[1])
    if e[0] in ("lit", "var", "err"):
        return e
    if e[0] == "call":
        return e
    return tuple(subst_line(a) if isinstance(a, tuple) else a for a in e)


def const_value(e):
    """value of a constant expression, or None"""
    if e[0] == "lit":
        return e[1]
    if e[0] == "arith" and e[1] in "+-*/%":
        a, b = const_value(e[2]), const_value(e[3])
        if a is None or b is None:
            return None
        return fold(e[1], a, b, e[4])
    if e[0] == "neg":
        a = const_value(e[1])
        return None if a is None else fold("-", 0, a, e[2])
    if e[0] == "narrow":
        a = const_value(e[1])
        return a if a is not None and RANGE[32][0] <= a <= RANGE[32][1] else None
    return None


# ---------------------------------------------------------------------------------------------
def clang_ast(path):
    cmd = ["clang", "-Xclang", "-ast-dump=json", "-fsyntax-only", "-w", f"-I{path.parent}", str(path)]
    try:
        p = subprocess.run(cmd, stdout=subprocess.PIPE, stderr=subprocess.PIPE, text=True, timeout=300)
    except (OSError, subprocess.SubprocessError) as e:
        raise CError(f"clang could not be run on {path.name}: {e}")
    if p.returncode != 0:
        raise CError(f"clang does not accept {path.name}: {p.stderr.strip()[-400:]}")
    try:
        return json.loads(p.stdout)
    except ValueError as e:
        raise CError(f"clang's AST dump of {path.name} is not JSON: {e}")


class Fn:
    """one C function: parsed into the intermediate form, then emitted"""

    def __init__(self, node, rel, src, tr):
        self.node, self.rel, self.src, self.tr = node, rel, src, tr
        self.name = node["name"]
        self.decls = {}          # clang decl id -> (lean name, kind 'int'|'buf', bits)
        self.order = []          # lean names in declaration order (parameters first)
        self.bufref = {}         # buffer lean name -> `.arg k` / `.loc k`
        self.params = []         # (C name, lean name, kind, bits)
        self.nloc = 0
        self.narr = 0
        self.junk_off = 0
        self.needs_junk = False
        self.errcodes = []
        self.const_returns = []
        self.callees = []
        self.ntmp = 0
        self.guarded = 0
        self.cname = {}

    def fail(self, msg, node=None):
        where = ""
        if node is not None:
            loc = node.get("range", {}).get("begin", {})
            loc = loc.get("expansionLoc", loc)
            if "offset" in loc:
                where = f" (line {self.src.count(chr(10), 0, loc['offset']) + 1} of {self.rel})"
        raise CError(f"{self.name}: {msg}{where}")

    # ---- declarations ----------------------------------------------------------------------
    def ctype(self, node, what):
        q = node["type"]["qualType"].strip()
        if q in BITS:
            return "int", BITS[q], None
        if q.endswith("*") and q[:-1].strip() in BITS:
            return "buf", BITS[q[:-1].strip()], None
        if q.endswith("]") and "[" in q:
            base, n = q[:-1].split("[", 1)
            if base.strip() in BITS and n.strip().isdigit():
                return "arr", BITS[base.strip()], int(n)
        self.fail(f"type `{q}` of {what} is not handled (only int, long long, pointers to and arrays of them)", node)

    def sanitize(self, name):
        import re
        if name in RESERVED or re.fullmatch(r"[vtrs]\d+", name) or not re.fullmatch(r"[A-Za-z_][A-Za-z0-9_]*", name):
            return name + "_"
        return name

    def parse(self):
        n = self.node
        rt = n["type"]["qualType"].split("(")[0].strip()
        if rt not in BITS:
            self.fail(f"return type `{rt}` is not handled")
        self.ret_bits = BITS[rt]
        self.ret_ctype = rt
        body = None
        for k, c in enumerate(ch for ch in n.get("inner", []) if ch.get("kind") == "ParmVarDecl"):
            kind, bits, _ = self.ctype(c, f"parameter {c.get('name')}")
            if kind == "arr":
                kind = "buf"
            if "name" not in c:
                self.fail("unnamed parameter")
            ln = self.sanitize(c["name"])
            if ln in self.order:
                ln += "_"
            self.decls[c["id"]] = (ln, kind, bits)
            self.order.append(ln)
            self.params.append((c["name"], ln, kind, bits, c["type"]["qualType"].strip()))
            if kind == "buf":
                self.bufref[ln] = f"(.arg {k})"
        for c in n.get("inner", []):
            if c.get("kind") == "CompoundStmt":
                body = c
            elif c.get("kind") not in ("ParmVarDecl",):
                self.fail(f"unexpected {c.get('kind')} in the function declaration", c)
        self.body = self.block(body)
        self.written = [p[1] for p in self.params if p[2] == "buf" and p[1] in self.assigned(self.body)]
        if not self.always_escapes(self.body):
            self.fail("control can reach the end of the function without a `return`")
        live_in = self.annotate(self.body, set(), None)
        bad = sorted(live_in - {p[1] for p in self.params})
        if bad:
            self.fail("a local may be read before it is assigned: " + ", ".join(self.cname.get(b, b) for b in bad))
        if self.errcodes and any(v == 1 for v in self.const_returns):
            self.fail("the function returns both `BASE + __LINE__` codes and the constant 1: the error class cannot be abstracted")

    def declare_local(self, c):
        kind, bits, n = self.ctype(c, f"local {c.get('name')}")
        if c.get("storageClass"):
            self.fail(f"storage class `{c['storageClass']}` of a local is not handled", c)
        if kind == "buf":
            self.fail("local pointer variables are not handled", c)
        init = [x for x in c.get("inner", []) if isinstance(x, dict) and x.get("kind")]
        if len(init) > 1:
            self.fail("declaration with more than one initialiser node", c)
        out = []
        if kind == "int":
            ln = f"v{self.nloc}"
            self.nloc += 1
            self.decls[c["id"]] = (ln, "int", bits)
            self.order.append(ln)
            self.cname[ln] = c.get("name", ln)
            if init:
                out.append(Assign(ln, self.convert(self.val(init[0]), self.bits_of(init[0]), bits)))
        else:
            ln = f"v{self.nloc}"
            self.nloc += 1
            self.decls[c["id"]] = (ln, "buf", bits)
            self.order.append(ln)
            self.bufref[ln] = f"(.loc {self.narr})"
            self.narr += 1
            vals = None
            if init:
                il = init[0]
                if il.get("kind") != "InitListExpr":
                    self.fail("array initialiser is not a brace list", c)
                vals = []
                for x in il.get("inner", []):
                    if x.get("kind") == "ImplicitValueInitExpr":
                        continue
                    v = const_value(self.val(x))
                    if v is None:
                        self.fail("array initialiser element is not an integer constant", x)
                    lo, hi = RANGE[bits]
                    if not lo <= v <= hi:
                        self.fail("array initialiser element does not fit the element type", x)
                    vals.append(v)
                if len(vals) > n:
                    self.fail("more initialisers than elements", c)
                vals += [0] * (n - len(vals))
            out.append(ArrDecl(ln, n, vals))
        return out

    # ---- expressions -----------------------------------------------------------------------
    def bits_of(self, n):
        q = n.get("type", {}).get("qualType", "").strip()
        if q not in BITS:
            self.fail(f"expression of type `{q}` is not handled (integer kernels only)", n)
        return BITS[q]

    def convert(self, e, frm, to):
        if frm == to or frm < to:
            return e
        if e[0] == "lit" and RANGE[to][0] <= e[1] <= RANGE[to][1]:
            return e
        return ("narrow", e)

    def is_line(self, n):
        b = n.get("range", {}).get("begin", {})
        if "spellingLoc" not in b:
            return False
        if b["spellingLoc"].get("file") == "<scratch space>":
            return True
        ex = b.get("expansionLoc", {})
        off = ex.get("offset")
        return off is not None and self.src[off:off + 8] == "__LINE__"

    def ref(self, n):
        """DeclRefExpr -> (lean name, kind, bits)"""
        d = n.get("referencedDecl", {})
        if d.get("id") not in self.decls:
            self.fail(f"reference to `{d.get('name')}`, which is not a parameter or local of the function "
                      "(globals, enumerators and functions used as values are not handled)", n)
        return self.decls[d["id"]]

    def strip(self, n):
        while n.get("kind") in ("ParenExpr", "ConstantExpr") or \
                (n.get("kind") in ("ImplicitCastExpr", "CStyleCastExpr") and n.get("castKind") == "NoOp"):
            n = n["inner"][0]
        return n

    def lvalue(self, n):
        """-> ('var', name, bits) | ('elem', buf, idx expr, bits)"""
        n = self.strip(n)
        if n.get("kind") == "DeclRefExpr":
            name, kind, bits = self.ref(n)
            if kind != "int":
                self.fail("a pointer / array used as a scalar", n)
            return ("var", name, bits)
        if n.get("kind") == "ArraySubscriptExpr":
            base, idx = self.strip(n["inner"][0]), n["inner"][1]
            if base.get("kind") == "ImplicitCastExpr" and base.get("castKind") in ("ArrayToPointerDecay", "LValueToRValue"):
                base = self.strip(base["inner"][0])
            if base.get("kind") != "DeclRefExpr":
                self.fail("subscript of something that is not a parameter or local array (pointer arithmetic is not handled)", n)
            name, kind, bits = self.ref(base)
            if kind != "buf":
                self.fail("subscript of a scalar", n)
            self.bits_of(idx)
            return ("elem", name, self.val(idx), bits)
        self.fail(f"{n.get('kind')} is not handled as the target of an assignment / an lvalue", n)

    BOOL_OPS = ("<", ">", "<=", ">=", "==", "!=", "&&", "||")

    def val(self, n):
        """integer-valued expression"""
        n = self.strip(n)
        k = n.get("kind")
        if k == "IntegerLiteral":
            self.bits_of(n)
            return ("line", int(n["value"])) if self.is_line(n) else lit(n["value"])
        if k in ("ImplicitCastExpr", "CStyleCastExpr"):
            ck = n.get("castKind")
            inner = n["inner"][0]
            if ck == "LValueToRValue":
                lv = self.lvalue(inner)
                return ("var", lv[1]) if lv[0] == "var" else ("load", lv[1], lv[2])
            if ck == "IntegralCast":
                return self.convert(self.val(inner), self.bits_of(self.strip(inner)), self.bits_of(n))
            self.fail(f"conversion `{ck}` is not handled", n)
        if k == "UnaryOperator":
            op = n["opcode"]
            if op == "-":
                e = self.val(n["inner"][0])
                bits = self.bits_of(n)
                if e[0] == "lit" and fold("-", 0, e[1], bits) is not None:
                    return lit(-e[1])
                return ("neg", e, bits)
            if op == "+":
                return self.val(n["inner"][0])
            if op == "!":
                return ("b2i", self.cond(n))
            self.fail(f"unary `{op}` is not handled in a value (`++`/`--` only as statements, no `&`, `*`, `~`)", n)
        if k == "BinaryOperator":
            op = n["opcode"]
            if op in self.BOOL_OPS:
                return ("b2i", self.cond(n))
            if op in ("+", "-", "*", "/", "%"):
                a, b = self.val(n["inner"][0]), self.val(n["inner"][1])
                bits = self.bits_of(n)
                if self.bits_of(self.strip(n["inner"][0])) != bits or self.bits_of(self.strip(n["inner"][1])) != bits:
                    self.fail("operands of an arithmetic operator do not have the type of the result", n)
                if a[0] == "lit" and b[0] == "lit" and fold(op, a[1], b[1], bits) is not None:
                    return lit(fold(op, a[1], b[1], bits))
                return ("arith", op, a, b, bits)
            self.fail(f"binary `{op}` is not handled in a value (assignments only as statements; no bit operations)", n)
        if k == "ConditionalOperator":
            c, a, b = n["inner"]
            bits = self.bits_of(n)
            return ("tern", self.cond(c), self.convert(self.val(a), self.bits_of(self.strip(a)), bits),
                    self.convert(self.val(b), self.bits_of(self.strip(b)), bits))
        if k == "CallExpr":
            return self.call(n)
        if k == "DeclRefExpr":
            self.fail("an lvalue used without conversion", n)
        self.fail(f"{k} is not handled in an integer expression", n)

    def cond(self, n):
        """condition (C truth value)"""
        n = self.strip(n)
        k = n.get("kind")
        if k == "BinaryOperator" and n["opcode"] in ("<", ">", "<=", ">=", "==", "!="):
            a, b = n["inner"]
            if self.bits_of(self.strip(a)) != self.bits_of(self.strip(b)):
                self.fail("operands of a comparison do not have the same type", n)
            return ("cmp", n["opcode"], self.val(a), self.val(b))
        if k == "BinaryOperator" and n["opcode"] in ("&&", "||"):
            return ("and" if n["opcode"] == "&&" else "or", self.cond(n["inner"][0]), self.cond(n["inner"][1]))
        if k == "UnaryOperator" and n["opcode"] == "!":
            return ("not", self.cond(n["inner"][0]))
        e = self.val(n)
        if e[0] == "b2i":
            return e[1]
        return ("nz", e)

    def call(self, n):
        f = self.strip(n["inner"][0])
        if f.get("kind") == "ImplicitCastExpr" and f.get("castKind") == "FunctionToPointerDecay":
            f = self.strip(f["inner"][0])
        if f.get("kind") != "DeclRefExpr" or f.get("referencedDecl", {}).get("kind") != "FunctionDecl":
            self.fail("call through something that is not a function name", n)
        name = f["referencedDecl"]["name"]
        callee = self.tr.fn(name, self)          # CError when not in the whitelist / recursive
        args = []
        actuals = n["inner"][1:]
        if len(actuals) != len(callee.params):
            self.fail(f"`{name}` called with {len(actuals)} arguments, it has {len(callee.params)} parameters", n)
        seen = set()
        for a, p in zip(actuals, callee.params):
            a = self.strip(a)
            if p[2] == "buf":
                b = a
                if b.get("kind") == "ImplicitCastExpr" and b.get("castKind") in ("ArrayToPointerDecay", "LValueToRValue"):
                    b = self.strip(b["inner"][0])
                if b.get("kind") != "DeclRefExpr":
                    self.fail(f"pointer argument of `{name}` is not the name of a parameter or local array", a)
                bn, kind, bits = self.ref(b)
                if kind != "buf" or bits != p[3]:
                    self.fail(f"pointer argument of `{name}` has the wrong element type", a)
                if bn in seen:
                    self.fail(f"the same buffer is passed twice to `{name}` (aliasing is not modelled)", a)
                seen.add(bn)
                args.append(("b", bn))
            else:
                args.append(("s", self.convert(self.val(a), self.bits_of(a), p[3])))
        if name not in self.callees:
            self.callees.append(name)
        if callee.needs_junk:
            self.needs_junk = True
        return ("call", name, args)

    # ---- statements ------------------------------------------------------------------------
    def effect(self, n):
        """an expression evaluated for its effect -> list of statements"""
        n = self.strip(n)
        k = n.get("kind")
        if k == "BinaryOperator" and n["opcode"] == ",":
            return self.effect(n["inner"][0]) + self.effect(n["inner"][1])
        if k == "BinaryOperator" and n["opcode"] == "=":
            lv = self.lvalue(n["inner"][0])
            rhs = self.strip(n["inner"][1])
            rb = self.bits_of(rhs)
            if lv[0] == "var" and rhs.get("kind") == "CallExpr":
                call = self.call(rhs)
                if rb != lv[2]:
                    self.fail("result of a call assigned to a variable of another type", n)
                return [CallS(call, lv[1])]
            e = self.convert(self.val(rhs), rb, lv[-1])
            return [Assign(lv[1], e)] if lv[0] == "var" else [Store(lv[1], lv[2], e)]
        if k == "CompoundAssignOperator":
            op = n["opcode"][:-1]
            if op not in ("+", "-", "*", "/", "%"):
                self.fail(f"`{n['opcode']}` is not handled", n)
            lv = self.lvalue(n["inner"][0])
            rb = BITS.get(n["computeResultType"]["qualType"])
            lb = BITS.get(n["computeLHSType"]["qualType"])
            if rb is None or lb != rb:
                self.fail("compound assignment computed in a type that is not handled", n)
            rhs = self.convert(self.val(n["inner"][1]), self.bits_of(self.strip(n["inner"][1])), rb)
            if lv[0] == "var":
                return [Assign(lv[1], self.convert(("arith", op, ("var", lv[1]), rhs, rb), rb, lv[2]))]
            if rb != lv[3]:
                self.fail("compound assignment to an element computed in another type", n)
            return [Store(lv[1], lv[2], rhs, (op, rb))]
        if k == "UnaryOperator" and n["opcode"] in ("++", "--"):
            op = "+" if n["opcode"] == "++" else "-"
            lv = self.lvalue(n["inner"][0])
            if lv[0] == "var":
                return [Assign(lv[1], ("arith", op, ("var", lv[1]), lit(1), lv[2]))]
            return [Store(lv[1], lv[2], lit(1), (op, lv[3]))]
        if k == "CallExpr":
            return [CallS(self.call(n), None)]
        self.fail(f"{k}{' `' + n['opcode'] + '`' if 'opcode' in n else ''} as a statement is not handled "
                  "(assignments, `++`/`--`, calls)", n)

    def block(self, n):
        """statement node -> list of statements"""
        if n is None or n == {}:
            return []
        k = n.get("kind")
        if k == "CompoundStmt":
            out = []
            for c in n.get("inner", []):
                out += self.block(c)
            return out
        if k == "NullStmt":
            return []
        if k == "DeclStmt":
            out = []
            for c in n.get("inner", []):
                if c.get("kind") != "VarDecl":
                    self.fail(f"{c.get('kind')} in a declaration is not handled", c)
                out += self.declare_local(c)
            return out
        if k == "IfStmt":
            inner = n["inner"]
            if len(inner) not in (2, 3):
                self.fail("`if` with an init statement / condition variable is not handled", n)
            return [If(self.cond(inner[0]), self.block(inner[1]), self.block(inner[2]) if len(inner) == 3 else [])]
        if k == "ReturnStmt":
            if not n.get("inner"):
                self.fail("`return` without a value", n)
            x = n["inner"][0]
            e = self.convert(self.val(x), self.bits_of(self.strip(x)), self.ret_bits)
            if has_kind(e, ("line",)):
                v = const_value(subst_line(e))
                if v is None or v == 0:
                    self.fail("`__LINE__` in a return value that is not a non-zero constant `BASE + __LINE__`", n)
                self.errcodes.append(v)
                e = ("err",)
            elif const_value(e) is not None:
                self.const_returns.append(const_value(e))
            return [Return(e)]
        if k == "ContinueStmt":
            return [Continue()]
        if k == "ForStmt":
            return self.for_stmt(n)
        if k in ("WhileStmt", "DoStmt", "BreakStmt", "GotoStmt", "SwitchStmt", "LabelStmt"):
            self.fail(f"{k} is not handled (only counted `for` loops, `if`, `return`, `continue`)", n)
        sts = self.effect(n)
        return sts

    def for_stmt(self, n):
        init, condvar, cond, inc, body = n["inner"]
        if condvar not in ({}, None):
            self.fail("`for` with a condition variable", n)
        if cond in ({}, None):
            self.fail("`for` without a condition is not a counted loop", n)
        c = self.strip(cond)
        if c.get("kind") != "BinaryOperator" or c["opcode"] not in ("<", "<="):
            self.fail("the loop condition is not `counter < bound` / `counter <= bound`", cond)
        lhs = self.strip(c["inner"][0])
        if not (lhs.get("kind") == "ImplicitCastExpr" and lhs.get("castKind") == "LValueToRValue"
                and self.strip(lhs["inner"][0]).get("kind") == "DeclRefExpr"):
            self.fail("the left side of the loop condition is not a plain variable of the type of the bound", cond)
        counter, kind, bits = self.ref(self.strip(lhs["inner"][0]))
        if kind != "int" or self.bits_of(self.strip(c["inner"][1])) != bits:
            self.fail("loop counter and bound do not have the same integer type", cond)
        hi = self.val(c["inner"][1])
        if has_kind(hi, ("load", "call")):
            self.fail("the loop bound reads memory or calls a function (not an invariant bound)", cond)
        pre = []
        if init in ({}, None):
            lo = None
        else:
            if init.get("kind") == "DeclStmt":
                self.fail("declaration in the `for` header is not handled", init)
            sts = self.effect(init)
            if len(sts) != 1 or not isinstance(sts[0], Assign) or sts[0].var != counter:
                self.fail("the `for` initialisation is not a single assignment to the loop counter", init)
            lo = sts[0].e
        incs = self.effect(inc) if inc not in ({}, None) else []
        step = [s for s in incs if isinstance(s, Assign) and s.var == counter]
        extras = [s for s in incs if s not in step]
        if len(step) != 1 or step[0].e != ("arith", "+", ("var", counter), lit(1), bits):
            self.fail("the loop counter is not incremented by exactly one (`i++`, `++i`, `i += 1`) in the `for` header", n)
        bstmts = self.block(body)
        asg = self.assigned(bstmts + extras)
        if counter in asg:
            self.fail("the loop counter is assigned in the body of the loop", n)
        if uses(hi) & asg:
            self.fail("the loop bound depends on a variable the loop assigns", n)
        for s in extras:
            if counter in self.stmt_uses(s):
                self.fail("an update expression of the `for` header reads the loop counter", n)
        return pre + [For(counter, lo, c["opcode"] == "<", hi, bstmts, extras, bits)]

    # ---- analyses --------------------------------------------------------------------------
    def stmt_uses(self, s):
        if isinstance(s, Assign):
            return uses(s.e)
        if isinstance(s, Store):
            return uses(s.idx) | uses(s.e) | {s.buf}
        if isinstance(s, CallS):
            return uses(s.call)
        return set()

    def call_written(self, call):
        callee = self.tr.fn(call[1])
        return [a for (kind, a), p in zip(call[2], callee.params) if kind == "b" and p[1] in callee.written]

    def assigned(self, stmts, out=None):
        out = set() if out is None else out
        for s in stmts:
            if isinstance(s, Assign):
                out.add(s.var)
                self._calls_written(s.e, out)
            elif isinstance(s, Store):
                out.add(s.buf)
                self._calls_written(s.idx, out)
                self._calls_written(s.e, out)
            elif isinstance(s, CallS):
                if s.target:
                    out.add(s.target)
                out.update(self.call_written(s.call))
                self._calls_written(s.call, out)
            elif isinstance(s, ArrDecl):
                out.add(s.buf)
            elif isinstance(s, If):
                self._calls_written(s.c, out)
                self.assigned(s.then, out)
                self.assigned(s.els, out)
            elif isinstance(s, For):
                out.add(s.counter)
                self._calls_written(s.lo, out)
                self.assigned(s.body, out)
                self.assigned(s.extras, out)
            elif isinstance(s, Return):
                self._calls_written(s.e, out)
        return out

    def _calls_written(self, e, out):
        """buffers written by the calls inside an expression / condition"""
        if e is None:
            return
        if e[0] == "call":
            out.update(self.call_written(e))
            for kind, a in e[2]:
                if kind == "s":
                    self._calls_written(a, out)
            return
        for a in e[1:]:
            if isinstance(a, tuple):
                self._calls_written(a, out)

    def has_return(self, stmts):
        for s in stmts:
            if isinstance(s, Return):
                return True
            if isinstance(s, If) and (self.has_return(s.then) or self.has_return(s.els)):
                return True
            if isinstance(s, For) and self.has_return(s.body):
                return True
        return False

    def escapes(self, stmts):
        """a `return` anywhere inside, or a `continue` of the enclosing loop"""
        for s in stmts:
            if isinstance(s, (Return, Continue)):
                return True
            if isinstance(s, If) and (self.escapes(s.then) or self.escapes(s.els)):
                return True
            if isinstance(s, For) and self.has_return(s.body):
                return True
        return False

    def always_escapes(self, stmts):
        for s in stmts:
            if isinstance(s, (Return, Continue)):
                return True
            if isinstance(s, If) and self.always_escapes(s.then) and self.always_escapes(s.els):
                return True
        return False

    def annotate(self, stmts, out, cont):
        live = set(out)
        for s in reversed(stmts):
            s.live_after = frozenset(live)
            live = self.live_before(s, live, cont)
        return live

    def live_before(self, s, live, cont):
        if isinstance(s, Assign):
            return (live - {s.var}) | uses(s.e)
        if isinstance(s, Store):
            return live | {s.buf} | uses(s.idx) | uses(s.e)
        if isinstance(s, CallS):
            return (live - ({s.target} if s.target else set())) | uses(s.call)
        if isinstance(s, ArrDecl):
            return live - {s.buf}
        if isinstance(s, If):
            return uses(s.c) | self.annotate(s.then, live, cont) | self.annotate(s.els, live, cont)
        if isinstance(s, Return):
            return uses(s.e) | set(self.written)
        if isinstance(s, Continue):
            if cont is None:
                self.fail("`continue` outside a loop")
            return set(cont)
        if isinstance(s, For):
            after = set(live) - {s.counter}
            head = set(after)
            while True:
                ext_in = self.annotate(s.extras, head | {s.counter}, None)
                body_in = self.annotate(s.body, ext_in, ext_in)
                new = (after | body_in) - {s.counter}
                if new == head:
                    break
                head = new
            s.head_live = frozenset(head)
            s.counter_live_after = s.counter in live
            return head | uses(s.hi) | (uses(s.lo) if s.lo is not None else {s.counter})
        raise AssertionError(s)

    def ordered(self, names):
        return [x for x in self.order if x in names]

    # ---- emission --------------------------------------------------------------------------
    def fresh(self, p="t"):
        self.ntmp += 1
        return f"{p}{self.ntmp}"

    @staticmethod
    def L(v):
        return str(v) if v >= 0 else f"({v})"

    def ev(self, e, ind):
        """-> (lines, atom)"""
        k = e[0]
        if k == "lit":
            return [], self.L(e[1])
        if k == "err":
            return [], "1"
        if k == "var":
            return [], e[1]
        if k == "load":
            li, i = self.ev(e[2], ind)
            t = self.fresh()
            return li + [f"{ind}let {t} ← rd {self.bufref[e[1]]} {e[1]} {i}"], t
        if k == "neg":
            la, a = self.ev(e[1], ind)
            t = self.fresh()
            return la + [f"{ind}let {t} ← ci{e[2]} (-{a})"], t
        if k == "narrow":
            la, a = self.ev(e[1], ind)
            t = self.fresh()
            return la + [f"{ind}let {t} ← ci32 {a}"], t
        if k == "arith":
            _, op, a, b, bits = e
            la, x = self.ev(a, ind)
            lb, y = self.ev(b, ind)
            t = self.fresh()
            if op == "/":
                line = f"{ind}let {t} ← div{bits} {x} {y}"
            elif op == "%":
                line = f"{ind}let {t} ← mod{bits} {x} {y}"
            else:
                line = f"{ind}let {t} ← ci{bits} ({x} {op} {y})"
            return la + lb + [line], t
        if k == "b2i":
            lc, c, _ = self.evc(e[1], ind)
            return lc, f"(if {c} then 1 else 0)"
        if k == "tern":
            lc, c, _ = self.evc(e[1], ind)
            self.guarded += 1
            la, a = self.ev(e[2], ind + "    ")
            lb, b = self.ev(e[3], ind + "    ")
            self.guarded -= 1
            if not la and not lb:
                return lc, f"(if {c} then {a} else {b})"
            t = self.fresh()
            lines = lc + [f"{ind}let {t} ← (if {c} then do"] + la + [f"{ind}    pure {a}", f"{ind}  else do"] + lb + \
                [f"{ind}    pure {b})"]
            return lines, t
        if k == "call":
            lines, term = self.ev_call(e, ind)
            wr = self.call_written(e)
            if not wr:
                t = self.fresh()
                return lines + [f"{ind}let {t} ← {term}"], t
            if self.guarded:
                self.fail(f"call of `{e[1]}`, which writes through a pointer, in an operand that C evaluates conditionally "
                          "(second operand of `&&` / `||`, arm of `?:`)")
            r = self.fresh("r")
            lines.append(f"{ind}let {r} ← {term}")
            for j, b in enumerate(wr):
                lines.append(f"{ind}let {b} := {self.proj(r, j + 1, len(wr) + 1)}")
            return lines, f"{r}.1"
        if k == "line":
            self.fail("`__LINE__` outside a return value")
        raise AssertionError(e)

    def ev_call(self, call, ind):
        callee = self.tr.fn(call[1])
        lines, terms = [], []
        if callee.needs_junk:
            terms.append("junk")
        for kind, a in call[2]:
            if kind == "b":
                terms.append(a)
            else:
                la, x = self.ev(a, ind)
                lines += la
                terms.append(x)
        return lines, " ".join([call[1]] + terms)

    CMP = {"<": "<", ">": ">", "<=": "≤", ">=": "≥", "==": "=", "!=": "≠"}

    def evc(self, c, ind):
        """-> (lines, proposition, kind) ; kind in cmp / and / or / not / bool"""
        k = c[0]
        if k == "cmp":
            la, a = self.ev(c[2], ind)
            lb, b = self.ev(c[3], ind)
            return la + lb, f"{a} {self.CMP[c[1]]} {b}", "cmp"
        if k == "nz":
            la, a = self.ev(c[1], ind)
            return la, f"{a} ≠ 0", "cmp"
        if k == "not":
            la, a, _ = self.evc(c[1], ind)
            return la, f"¬ ({a})", "not"
        if k in ("and", "or"):
            l1, p1, k1 = self.evc(c[1], ind)
            self.guarded += 1
            l2, p2, k2 = self.evc(c[2], ind + "    ")
            self.guarded -= 1
            if not l2:
                a = f"({p1})" if k1 in ("and", "or") and k1 != k else p1
                b = f"({p2})" if k2 in ("and", "or") else p2
                return l1, f"{a} {'∧' if k == 'and' else '∨'} {b}", k
            t = self.fresh()
            last = p2[:-7] if k2 == "bool" else f"decide ({p2})"
            last = last if last.isidentifier() else f"({last})"
            if k == "and":
                lines = l1 + [f"{ind}let {t} ← (if {p1} then do"] + l2 + [f"{ind}    pure {last}", f"{ind}  else pure false)"]
            else:
                lines = l1 + [f"{ind}let {t} ← (if {p1} then pure true else do"] + l2 + [f"{ind}    pure {last})"]
            return lines, f"{t} = true", "bool"
        raise AssertionError(c)

    def tuple_of(self, names):
        return "()" if not names else names[0] if len(names) == 1 else "(" + ", ".join(names) + ")"

    @staticmethod
    def proj(s, j, n):
        return s if n == 1 else s + ".2" * j + (".1" if j < n - 1 else "")

    def type_of(self, name):
        kind = next(v[1] for v in self.decls.values() if v[0] == name)
        return "Int" if kind == "int" else "List Int"

    def payload_type(self):
        return " × ".join(["Int"] + ["List Int"] * len(self.written))

    def emit_block(self, stmts, i, ind, k, ctx):
        """lines of `stmts[i:]` followed by the continuation `k(ind)`"""
        if i == len(stmts):
            return k(ind)
        s = stmts[i]

        def rest(ind2):
            return self.emit_block(stmts, i + 1, ind2, k, ctx)
        if isinstance(s, Assign):
            la, a = self.ev(s.e, ind)
            if la and la[-1].startswith(f"{ind}let {a} ←") and a.startswith("t"):
                la[-1] = la[-1].replace(f"let {a} ←", f"let {s.var} ←", 1)      # bind the result directly
                return la + rest(ind)
            return la + [f"{ind}let {s.var} := {a}"] + rest(ind)
        if isinstance(s, Store):
            li, idx = self.ev(s.idx, ind)
            le, v = self.ev(s.e, ind)
            lines = li + le
            if s.op is not None:
                op, bits = s.op
                t1, t2 = self.fresh(), self.fresh()
                lines.append(f"{ind}let {t1} ← rd {self.bufref[s.buf]} {s.buf} {idx}")
                if op == "/":
                    lines.append(f"{ind}let {t2} ← div{bits} {t1} {v}")
                elif op == "%":
                    lines.append(f"{ind}let {t2} ← mod{bits} {t1} {v}")
                else:
                    lines.append(f"{ind}let {t2} ← ci{bits} ({t1} {op} {v})")
                v = t2
            lines.append(f"{ind}let {s.buf} ← wr {self.bufref[s.buf]} {s.buf} {idx} {v}")
            return lines + rest(ind)
        if isinstance(s, CallS):
            lines, term = self.ev_call(s.call, ind)
            wr = self.call_written(s.call)
            if not wr:
                lines.append(f"{ind}let {s.target or '_'} ← {term}")
            else:
                r = self.fresh("r")
                lines.append(f"{ind}let {r} ← {term}")
                if s.target:
                    lines.append(f"{ind}let {s.target} := {r}.1")
                for j, b in enumerate(wr):
                    lines.append(f"{ind}let {b} := {self.proj(r, j + 1, len(wr) + 1)}")
            return lines + rest(ind)
        if isinstance(s, ArrDecl):
            if s.init is not None:
                line = f"{ind}let {s.buf} : List Int := [" + ", ".join(str(v) for v in s.init) + "]"
            else:
                line = f"{ind}let {s.buf} := uninit junk {self.junk_off} {s.n}"
                self.junk_off += s.n
            return [line] + rest(ind)
        if isinstance(s, Return):
            le, v = self.ev(s.e, ind)
            payload = v if not self.written else "(" + ", ".join([v] + self.written) + ")"
            return le + [f"{ind}pure {payload}" if not ctx["loop"] else f"{ind}pure (.inr {payload})"]
        if isinstance(s, Continue):
            return ctx["cont"](ind)
        if isinstance(s, If):
            lc, c, _ = self.evc(s.c, ind)
            if self.escapes(s.then) or self.escapes(s.els):
                then = self.emit_block(s.then, 0, ind + "  ", rest, ctx)
                els = self.emit_block(s.els, 0, ind + "  ", rest, ctx)
                return lc + [f"{ind}if {c} then do"] + then + [f"{ind}else do"] + els
            mod = self.ordered((self.assigned(s.then) | self.assigned(s.els)) & s.live_after)
            tup = self.tuple_of(mod)

            def join(ind2):
                return [f"{ind2}pure {tup}"]
            then = self.emit_block(s.then, 0, ind + "    ", join, ctx)
            els = self.emit_block(s.els, 0, ind + "    ", join, ctx)
            if not mod:
                head = f"{ind}("
                after = []
            elif len(mod) == 1:
                head = f"{ind}let {mod[0]} ← ("
                after = []
            else:
                r = self.fresh("r")
                head = f"{ind}let {r} ← ("
                after = [f"{ind}let {m} := {self.proj(r, j, len(mod))}" for j, m in enumerate(mod)]
            lines = lc + [head + f"if {c} then do"] + then + [f"{ind}  else do"] + els
            lines[-1] += ")"
            return lines + after + rest(ind)
        if isinstance(s, For):
            return self.emit_for(s, ind, rest, ctx)
        raise AssertionError(s)

    def emit_for(self, s, ind, rest, ctx):
        lines = []
        if s.lo is not None:
            ll, lo = self.ev(s.lo, ind)
            lines += ll
        else:
            lo = s.counter
        lh, hi = self.ev(s.hi, ind)
        lines += lh

        def num(t):
            try:
                return int(t.strip("()"))
            except ValueError:
                return None
        if s.strict:
            if num(lo) is not None and num(hi) is not None:
                trips = str(max(num(hi) - num(lo), 0))
                final = self.L(max(num(hi), num(lo)))
            else:
                trips = f"{hi}.toNat" if lo == "0" and hi.isidentifier() else f"({hi} - {lo}).toNat"
                final = f"(if {lo} < {hi} then {hi} else {lo})"
        else:
            h1 = self.fresh()
            lines.append(f"{ind}let {h1} ← (if {lo} ≤ {hi} then ci{s.bits} ({hi} + 1) else pure {lo})")
            trips = f"({h1} - {lo}).toNat"
            final = h1
        state = self.ordered(self.assigned(s.body + s.extras) & s.head_live)
        sigma = " × ".join(self.type_of(x) for x in state) if state else "Unit"
        ret_inside = self.has_return(s.body)
        rho = self.payload_type() if ret_inside else "Empty"
        r, sv = self.fresh("r"), self.fresh("s")
        tup = self.tuple_of(state)
        bind = ind + "    "
        lines.append(f"{ind}let {r} ← forLoop (σ := {sigma}) (ρ := {rho}) (fun {s.counter} {sv} => do")
        unpack = [f"{bind}let {x} := {self.proj(sv, j, len(state))}" for j, x in enumerate(state)]

        def end(ind2):
            return self.emit_block(s.extras, 0, ind2, lambda ind3: [f"{ind3}pure (.inl {tup})"], inner)
        inner = {"loop": True, "cont": end}
        body = self.emit_block(s.body, 0, bind, end, inner)
        lines += unpack + body
        lines.append(f"{ind}  ) {trips} {lo} {tup}")
        lines.append(f"{ind}match {r} with")
        if ret_inside:
            lines.append(f"{ind}| .inr x => pure {'(.inr x)' if ctx['loop'] else 'x'}")
        else:
            lines.append(f"{ind}| .inr x => nomatch x")
        lines.append(f"{ind}| .inl {sv} => do")
        lines += [f"{ind}  let {x} := {self.proj(sv, j, len(state))}" for j, x in enumerate(state)]
        if getattr(s, "counter_live_after", False):
            lines.append(f"{ind}  let {s.counter} := {final}")
        return lines + rest(ind + "  ")

    def emit(self):
        self.ntmp = 0
        self.junk_off = 0
        proto = f"{self.ret_ctype} {self.name}(" + ", ".join(f"{p[4]} {p[0]}" for p in self.params) + ")"
        args = ["(junk : Nat → Int)"] if self.needs_junk else []
        args += [f"({p[1]} : {'Int' if p[2] == 'int' else 'List Int'})" for p in self.params]
        rtype = f"R ({self.payload_type()})" if self.written else "R Int"
        head = [f"def {self.name} " + " ".join(args) + (" " if args else "") + f": {rtype} := do"]
        if len(head[0]) > 110:              # one line per group of parameters
            head, cur = [], f"def {self.name}"
            for a in args:
                if len(cur) + 1 + len(a) > 106:
                    head.append(cur)
                    cur = "    " + a
                else:
                    cur += " " + a
            head += [cur + " :", f"    {rtype} := do"]
        body = self.emit_block(self.body, 0, "  ", lambda ind: self.fail("internal: fell off the end"), {"loop": False, "cont": None})
        doc = f"/-- `{proto}` ({self.rel}) -/"
        if len(doc) > 118:
            doc = f"/-- `{self.ret_ctype} {self.name}(…{len(self.params)} parameters…)` ({self.rel}):\n" + \
                "\n".join("  `" + f"{p[4]} {p[0]}" + "`" for p in self.params) + " -/"
        return [doc] + head + body


class Translator:
    def __init__(self, repo):
        self.repo = Path(repo)
        self.nodes, self.fns, self.active, self.hashes = {}, {}, [], {}
        self.order = []

    def load(self):
        for rel, names in WHITELIST:
            path = self.repo / "src" / "hydrodiy" / rel
            try:
                raw = path.read_bytes()
            except OSError as e:
                raise CError(f"cannot read {rel}: {e}")
            self.hashes[rel] = hashlib.sha256(raw).hexdigest()
            ast = clang_ast(path)
            src = raw.decode("utf-8", errors="replace")
            found = {}
            for n in ast.get("inner", []):
                if n.get("kind") == "FunctionDecl" and n.get("name") in names and \
                        any(c.get("kind") == "CompoundStmt" for c in n.get("inner", [])):
                    if n["name"] in found:
                        raise CError(f"{n['name']} is defined twice in {rel}")
                    found[n["name"]] = n
            for name in names:
                if name not in found:
                    raise CError(f"{name}: no definition found in {rel}")
                if name in self.nodes:
                    raise CError(f"{name} is listed twice in the whitelist")
                self.nodes[name] = (found[name], rel, src)

    def fn(self, name, caller=None):
        if name in self.fns:
            return self.fns[name]
        if name not in self.nodes:
            who = f"{caller.name}: " if caller is not None else ""
            raise CError(f"{who}call of `{name}`, which is not in the whitelist of translated functions")
        if name in self.active:
            raise CError(f"{name}: recursion is not handled")
        self.active.append(name)
        node, rel, src = self.nodes[name]
        f = Fn(node, rel, src, self)
        f.parse()
        if any(isinstance(s, ArrDecl) and s.init is None for s in self._all(f.body)):
            f.needs_junk = True
        self.active.pop()
        self.fns[name] = f
        self.order.append(name)
        return f

    def _all(self, stmts):
        for s in stmts:
            yield s
            if isinstance(s, If):
                yield from self._all(s.then)
                yield from self._all(s.els)
            elif isinstance(s, For):
                yield from self._all(s.body)
                yield from self._all(s.extras)

    def run(self):
        self.load()
        for _, names in WHITELIST:
            for name in names:
                self.fn(name)
        return self


def render(repo=None):
    """-> (Lean text, metadata)"""
    tr = Translator(repo if repo is not None else C.REPO).run()
    L = ["/-",
         "GENERATED by harness/c2lean.py from the C text of the integer kernels — do not edit.",
         "Regenerated on every run of `./check C05`; the committed copy is only a cache (it must equal what the translator",
         "emits on the current tree). Semantics of the primitives: `HydroVerif/Model/CSem.lean`.",
         "Sources: " + ", ".join(f"src/hydrodiy/{rel}" for rel, _ in WHITELIST),
         "-/",
         "import HydroVerif.Model.CSem",
         "set_option linter.unusedVariables false",
         "namespace HydroVerif.CGen",
         "open HydroVerif.C05 HydroVerif.CSem",
         ""]
    meta = {"functions": {}, "order": list(tr.order), "sources": tr.hashes}
    for name in tr.order:
        f = tr.fns[name]
        L += f.emit()
        L.append("")
        meta["functions"][name] = {
            "file": f.rel, "ret": f.ret_ctype, "junk": f.needs_junk,
            "params": [{"name": p[0], "kind": p[2], "ctype": "int" if p[3] == 32 else "long long"} for p in f.params],
            "written": [i for i, p in enumerate(f.params) if p[1] in f.written],
            "errcodes": sorted(set(f.errcodes)), "calls": list(f.callees)}
    # uniform entry point for the model driver
    L.append("/-- uniform entry for the model driver: scalar arguments in order, buffer arguments in order ->")
    L.append("(value, new contents of the written buffers); `none` = unknown function or wrong number of arguments -/")
    L.append("def run (junk : Nat → Int) (name : String) (xs : List Int) (bs : List (List Int)) :")
    L.append("    Option (R (Int × List (List Int))) :=")
    L.append("  match name, xs, bs with")
    for name in tr.order:
        f = tr.fns[name]
        sc = [p[1] for p in f.params if p[2] == "int"]
        bf = [p[1] for p in f.params if p[2] == "buf"]
        call = " ".join([name] + (["junk"] if f.needs_junk else []) + [p[1] for p in f.params])
        if f.written:
            outs = ", ".join(Fn.proj("r", j + 1, len(f.written) + 1) for j in range(len(f.written)))
            res = f"some (({call}).map fun r => (r.1, [{outs}]))"
        else:
            res = f"some (({call}).map fun r => (r, []))"
        L.append(f'  | "{name}", [{", ".join(sc)}], [{", ".join(bf)}] => {res}')
    L.append("  | _, _, _ => none")
    L.append("")
    L.append("/-- the translated functions, in dependency order -/")
    L.append("def functions : List String := [" + ", ".join(f'"{n}"' for n in tr.order) + "]")
    L.append("")
    L.append("/- kept opaque to the elaborator's unifier (proofs go through `unfold` and the specification lemmas) -/")
    L.append("attribute [irreducible] " + " ".join(tr.order))
    L.append("")
    L.append("end HydroVerif.CGen")
    return "\n".join(L) + "\n", meta


def regen(ctx=None, repo=None):
    """rewrite Generated/CKernels.lean when (and only when) its text changes; returns True if it was rewritten.
    Raises `CError` (a `common.TranslatorError`) when the C text cannot be translated: the file is left as it is and
    `run_check` reports the tie between model and source as lost."""
    try:
        text, meta = render(repo)
    except CError as e:
        if ctx is not None:
            ctx.extra["c2lean"] = {"error": str(e)}
        raise
    old = TARGET.read_text() if TARGET.exists() else None
    changed = old != text
    if changed:
        TARGET.parent.mkdir(parents=True, exist_ok=True)
        TARGET.write_text(text)
    if ctx is not None:
        ctx.extra["c2lean"] = {"file": str(TARGET.relative_to(C.ROOT)), "rewritten": changed,
                               "regenerated_from_source": meta["order"], "source_sha256": meta["sources"],
                               "text_sha256": hashlib.sha256(text.encode()).hexdigest()}
    return changed


if __name__ == "__main__":
    import sys
    args = [a for a in sys.argv[1:] if not a.startswith("--")]
    t, m = render(args[0] if args else None)
    if "--print" in sys.argv:
        print(t)
    elif "--meta" in sys.argv:
        print(json.dumps(m, indent=1))
    else:
        print(f"{len(m['order'])} functions: {', '.join(m['order'])};",
              "rewritten" if regen(repo=args[0] if args else None) else "unchanged")
