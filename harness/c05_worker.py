"""C05 probe worker — runs INSIDE an interpreter started under the ASan/UBSan runtime.

Never imported by the check process: `harness/c05.py` starts it as

    LD_PRELOAD=<libclang_rt.asan> ASAN_OPTIONS=...:log_path=<dir>/asan UBSAN_OPTIONS=... \
        /venv/bin/python harness/c05_worker.py <native_dir> <repo> <probes.json> <status> <start>

with stdout/stderr redirected to files (never a pipe). For every probe it appends

    B <index>                      before the call (flushed + fsync'ed)
    E <index> <json outcome>       after it

to <status>; the sanitizer reports go to <dir>/asan.<pid> and the part of that file written while a
probe was running is attributed to that probe (returned in the outcome). A probe that kills the
interpreter (SIGSEGV / SIGFPE / SIGABRT, UBSan's abort) leaves a `B` line without `E`: the parent
attributes the death to that probe and restarts the worker after it.

Two kinds of probes:
  {"kind": "api", "entry": name, "a": {...}}     call the real Python API of hydrodiy (extension modules
                                                  of the ASan build) — the outcome oracle
  an array spec of an api probe may carry "ro": "flag" | "bytes" | "memmap": the array is handed over READ-ONLY (see
  `readonly`); a call that modifies it is reported (`readonly-write`), a write into a read-only mapping kills the worker
  {"kind": "kern", "fn": "c_xxx", "args": [...]} call a kernel of the ASan libhykern.so through ctypes with
                                                  every buffer malloc'ed at a prescribed extent — the
                                                  tightness probes; reports are mapped back to the buffer
                                                  whose region the faulting address is adjacent to
"""
import ctypes
import json
import os
import re
import sys
import warnings


MARK = [lambda label: None]      # set by main(): notes the step of a history that is about to run


def fl(x):
    if isinstance(x, str):
        return float(x)
    return x


def deep(v):
    if isinstance(v, list):
        return [deep(u) for u in v]
    return fl(v)


# read-only inputs: arrays the caller hands over for READING only (`"ro"` in the array spec). Each is tracked with a
# snapshot of its bytes; after the call `readonly_reports` says which ones were modified — a kernel that writes into
# (or sorts) memory it was only given to read. A write into a read-only mapping is a SIGSEGV: the worker dies and the
# death is attributed to the probe by the parent.
RO = {"dir": None, "track": [], "n": 0}


def readonly(a, kind, name, np):
    """kind: "flag" (`writeable=False` on ordinary memory), "bytes" (`np.frombuffer` over an immutable bytes object),
    "memmap" (`np.memmap(mode="r")` of a scratch file: pages mapped PROT_READ)"""
    a = np.ascontiguousarray(a)
    snap = a.tobytes()
    keep, path = None, None
    if kind == "memmap" and a.size > 0 and RO["dir"]:
        os.makedirs(RO["dir"], exist_ok=True)
        path = os.path.join(RO["dir"], f"ro{os.getpid()}_{RO['n']}.bin")
        RO["n"] += 1
        a.tofile(path)
        r = np.memmap(path, dtype=a.dtype, mode="r", shape=a.shape)
    elif kind == "bytes" and a.size > 0:
        keep = a.tobytes()
        r = np.frombuffer(keep, dtype=a.dtype).reshape(a.shape)
    else:
        r = a.copy()
        r.setflags(write=False)
    RO["track"].append({"name": name or "?", "kind": kind, "arr": r, "snap": snap, "keep": keep, "path": path})
    return r


def readonly_reports(np):
    """-> reports for the read-only arrays of the probe that just ran whose content changed; forgets them"""
    out = []
    for t in RO["track"]:
        try:
            now = np.asarray(t["arr"]).tobytes()
        except Exception:       # noqa
            now = t["snap"]
        if now != t["snap"]:
            n = sum(1 for x, y in zip(now, t["snap"]) if x != y)
            out.append({"kind": "readonly-write", "access": "", "func": "?", "where": "?", "line": "?", "buf": t["name"],
                        "msg": f"the read-only array passed as `{t['name']}` ({t['kind']}) was modified by the call "
                               f"({n} bytes differ)"})
        if t["path"]:
            try:
                del t["arr"]
                os.unlink(t["path"])
            except Exception:       # noqa
                pass
    RO["track"] = []
    return out


def arr(spec, np):
    """{"d": dtype, "v": nested list (floats may be "nan"/"inf"/"-inf"), "shape": optional, "ro": optional kind of
    read-only array (see `readonly`), "name": argument name for the report}"""
    if spec is None:
        return None
    a = np.array(deep(spec["v"]), dtype=spec.get("d", "float64"))
    if "shape" in spec:
        a = a.reshape(spec["shape"])
    if spec.get("ro"):
        a = readonly(a, spec["ro"], spec.get("name"), np)
    return a


# --------------------------------------------------------------------------------------------
# API entries
def build_entries():
    import numpy as np
    import pandas as pd
    from hydrodiy.data import dutils, qualitycontrol, signatures
    from hydrodiy.stat import metrics, armodels, sutils
    from hydrodiy.gis import grid as hgrid, gutils
    import c_hydrodiy_data as cd
    import c_hydrodiy_stat as cs
    import c_hydrodiy_gis as cg
    loaded = {m.__name__: m.__file__ for m in (cd, cs, cg)}

    E = {}

    def entry(name):
        def deco(f):
            E[name] = f
            return f
        return deco

    def mkgrid(g, dtype=None):
        dt = np.dtype(dtype or g.get("dtype", "float64")).type
        gr = hgrid.Grid(g.get("name", "g"), ncols=g["ncols"], nrows=g["nrows"], cellsize=fl(g.get("csz", 1.0)),
                        xllcorner=fl(g.get("xll", 0.0)), yllcorner=fl(g.get("yll", 0.0)), dtype=dt,
                        nodata=g.get("nodata", 0))
        if g.get("data") is not None:
            gr.data = np.array(deep(g["data"]), dtype=dt).reshape((g["nrows"], g["ncols"]))
        return gr

    def mkcatch(a):
        """catchment either delineated from (fd, outlet, inlets, nval) or injected from explicit cell lists
        through the public Catchment.from_dict"""
        fd = mkgrid(a["fd"], "int64")
        if "area" in a:
            dic = {"name": "c", "idxcell_outlet": a.get("outlet", 0), "idxinlets": a.get("inlets"),
                   "idxcells_area": a["area"], "idxcells_area_filled": a.get("filled", a["area"]),
                   "flowdir": fd.to_dict()}
            c = hgrid.Catchment.from_dict(dic)
            c.flowdir.data = fd.data        # Grid.from_dict restores the geometry only
            return c
        c = hgrid.Catchment("c", fd)
        c.delineate_area(a["outlet"], a.get("inlets"), a.get("nval", 1000))
        return c

    # ---- data
    @entry("aggregate")
    def _(a):
        return dutils.aggregate(arr(a["aggindex"], np), arr(a["inputs"], np), a.get("operator", 0), a.get("maxnan", 0))

    @entry("flathomogen")
    def _(a):
        return dutils.flathomogen(arr(a["aggindex"], np), arr(a["inputs"], np), a.get("maxnan", 0))

    @entry("islinear")
    def _(a):
        return qualitycontrol.islinear(arr(a["data"], np), a.get("npoints", 3), fl(a.get("tol", 1e-6)),
                                       fl(a.get("thresh", 0.0)))

    @entry("var2h")
    def _(a):
        secs = np.array(a["secs"], dtype="int64")
        idx = pd.DatetimeIndex(secs.astype("datetime64[s]").astype("datetime64[%s]" % a.get("unit", "ns")))
        se = pd.Series(arr(a["values"], np), index=idx)
        return dutils.var2h(se, nbsec_per_period=a.get("nbsec", 3600), maxgapsec=a.get("maxgapsec", 5 * 86400),
                            rainfall=a.get("rainfall", False), display=a.get("display", False))

    @entry("eckhardt")
    def _(a):
        return signatures.eckhardt(arr(a["flow"], np), fl(a.get("thresh", 0.95)), fl(a.get("tau", 20)),
                                   fl(a.get("BFI_max", 0.8)), a.get("timestep_type", 1))

    @entry("cd.isleapyear")
    def _(a):
        return cd.isleapyear(a["year"])

    @entry("cd.daysinmonth")
    def _(a):
        return cd.daysinmonth(a["year"], a["month"])

    @entry("cd.dayofyear")
    def _(a):
        return cd.dayofyear(a["month"], a["day"])

    @entry("cd.add1month")
    def _(a):
        return cd.add1month(arr(a["date"], np))

    @entry("cd.add1day")
    def _(a):
        return cd.add1day(arr(a["date"], np))

    @entry("cd.comparedates")
    def _(a):
        return cd.comparedates(arr(a["date1"], np), arr(a["date2"], np))

    @entry("cd.getdate")
    def _(a):
        return cd.getdate(fl(a["day"]), arr(a["date"], np))

    @entry("cd.combi")
    def _(a):
        return cd.combi(a["n"], a["k"])

    # ---- stat
    @entry("crps")
    def _(a):
        return metrics.crps(arr(a["obs"], np), arr(a["ens"], np))

    @entry("dscore")
    def _(a):
        return metrics.dscore(arr(a["obs"], np), arr(a["sim"], np), fl(a.get("eps", 1e-6)))

    @entry("anderson_darling_test")
    def _(a):
        return metrics.anderson_darling_test(arr(a["u"], np))

    @entry("armodel_sim")
    def _(a):
        return armodels.armodel_sim(arr(a["params"], np), arr(a["x"], np), fl(a.get("sim_mean", 0.0)),
                                    None if a.get("sim_ini") is None else fl(a["sim_ini"]))

    @entry("armodel_residual")
    def _(a):
        return armodels.armodel_residual(arr(a["params"], np), arr(a["x"], np),
                                         None if a.get("sim_mean") is None else fl(a["sim_mean"]),
                                         None if a.get("sim_ini") is None else fl(a["sim_ini"]))

    @entry("pareto_front")
    def _(a):
        return sutils.pareto_front(arr(a["data"], np), a.get("orientation", 1))

    @entry("cs.olsleverage")
    def _(a):
        return cs.olsleverage(arr(a["predictors"], np), arr(a["tXXinv"], np), arr(a["leverages"], np))

    # ---- gis
    @entry("coord2cell")
    def _(a):
        return mkgrid(a["g"]).coord2cell(arr(a["xy"], np))

    @entry("cell2coord")
    def _(a):
        return mkgrid(a["g"]).cell2coord(arr(a["cells"], np))

    @entry("cell2rowcol")
    def _(a):
        return mkgrid(a["g"]).cell2rowcol(arr(a["cells"], np))

    @entry("neighbours")
    def _(a):
        return mkgrid(a["g"]).neighbours(a["cell"])

    @entry("slice")
    def _(a):
        return mkgrid(a["g"]).slice(arr(a["xy"], np))

    @entry("cells_inside_polygon")
    def _(a):
        return mkgrid(a["g"]).cells_inside_polygon(arr(a["polygon"], np))

    @entry("points_inside_polygon")
    def _(a):
        inside = arr(a.get("inside"), np)
        return gutils.points_inside_polygon(arr(a["points"], np), arr(a["polygon"], np), inside,
                                            fl(a.get("atol", 1e-10)), a.get("nprint", 0))

    @entry("upstream")
    def _(a):
        return hgrid.Catchment("c", mkgrid(a["fd"], "int64")).upstream(arr(a["cells"], np))

    @entry("downstream")
    def _(a):
        return hgrid.Catchment("c", mkgrid(a["fd"], "int64")).downstream(arr(a["cells"], np))

    @entry("delineate_area")
    def _(a):
        c = hgrid.Catchment("c", mkgrid(a["fd"], "int64"))
        c.delineate_area(a["outlet"], a.get("inlets"), a.get("nval", 1000))
        return c.idxcells_area

    @entry("delineate_boundary")
    def _(a):
        c = mkcatch(a)
        c.delineate_boundary(arr(a.get("mask"), np))
        return c.idxcells_boundary

    @entry("compute_flowpathlengths")
    def _(a):
        c = mkcatch(a)
        c.compute_flowpathlengths()
        return c.flowpathlengths

    @entry("intersect")
    def _(a):
        c = mkcatch(a)
        with warnings.catch_warnings():
            warnings.simplefilter("ignore")
            return c.intersect(mkgrid(a["g"]), a.get("filled", False))

    @entry("voronoi")
    def _(a):
        return hgrid.voronoi(mkcatch(a), arr(a["xy"], np))

    @entry("delineate_river")
    def _(a):
        return hgrid.delineate_river(mkgrid(a["fd"], "int64"), a["cell"], a.get("nval", 1000))

    @entry("accumulate")
    def _(a):
        fd = mkgrid(a["fd"], "int64")
        to_acc = None if a.get("field") is None else mkgrid(a["field"], "float64")
        return hgrid.accumulate(fd, to_acc, a.get("nprint", 100), a.get("maxcells", -1))

    @entry("slope")
    def _(a):
        return hgrid.slope(mkgrid(a["fd"], "int64"), mkgrid(a["alt"], "float64"), a.get("nprint", 100))

    # ---- histories: several calls on ONE set of objects / buffers (in-place edits, views, sizes changing between
    # calls, public attributes re-assigned, clone / pickle / dict round trips). Every step may raise (an exception is
    # an allowed answer); `mark` notes the step so that a sanitizer report or a crash is attributed to it.
    import copy
    import pickle

    def run_steps(steps):
        out = []
        for label, fn in steps:
            MARK[0](label)
            try:
                fn()
                out.append(label + ":ok")
            except Exception as e:      # noqa
                out.append(label + ":" + type(e).__name__)
        return out

    @entry("h.series")
    def _(a):
        x = arr(a["x"], np)
        idx = arr(a["idx"], np)
        k = a.get("k", max(len(x) // 2, 0))
        st = []
        for name, f in (("aggregate", lambda i, v: dutils.aggregate(i, v, a.get("operator", 0), a.get("maxnan", 0))),
                        ("flathomogen", lambda i, v: dutils.flathomogen(i, v, a.get("maxnan", 0)))):
            st += [(name + "/first", lambda f=f: f(idx, x)),
                   (name + "/strided_views", lambda f=f: f(idx[::2], x[::2])),
                   (name + "/shorter", lambda f=f: f(idx[:k], x[:k])),
                   (name + "/empty_view", lambda f=f: f(idx[:0], x[:0])),
                   (name + "/float32", lambda f=f: f(idx, x.astype(np.float32))),
                   (name + "/reversed_view", lambda f=f: f(idx[::-1], x[::-1])),
                   (name + "/again", lambda f=f: f(idx, x))]
        st.append(("edit_inputs_in_place", lambda: x.__setitem__(slice(None, None, 3), np.nan)))
        st += [("aggregate/after_edit", lambda: dutils.aggregate(idx, x, 1, 1)),
               ("islinear/first", lambda: qualitycontrol.islinear(x)),
               ("islinear/strided_view", lambda: qualitycontrol.islinear(x[::2])),
               ("islinear/one", lambda: qualitycontrol.islinear(x[:1])),
               ("islinear/empty_view", lambda: qualitycontrol.islinear(x[:0])),
               ("islinear/float32", lambda: qualitycontrol.islinear(x.astype(np.float32))),
               ("islinear/2d_column", lambda: qualitycontrol.islinear(x.reshape((-1, 1))[:, 0])),
               ("islinear/again", lambda: qualitycontrol.islinear(x, npoints=1)),
               ("eckhardt/first", lambda: signatures.eckhardt(x)),
               ("eckhardt/strided_view", lambda: signatures.eckhardt(x[::2])),
               ("eckhardt/empty_view", lambda: signatures.eckhardt(x[:0])),
               ("eckhardt/again", lambda: signatures.eckhardt(x, timestep_type=0))]
        return run_steps(st)

    @entry("h.var2h")
    def _(a):
        secs = np.array(a["secs"], dtype="int64")
        se = pd.Series(arr(a["values"], np), index=pd.DatetimeIndex(secs.astype("datetime64[s]").astype("datetime64[ns]")))
        f = lambda s, **kw: dutils.var2h(s, **kw)       # noqa
        return run_steps([
            ("first", lambda: f(se)), ("half_hourly", lambda: f(se, nbsec_per_period=1800)),
            ("every_other", lambda: f(se.iloc[::2])), ("one_stamp", lambda: f(se.iloc[:1])),
            ("empty", lambda: f(se.iloc[:0])), ("two_stamps", lambda: f(se.iloc[:2], rainfall=True)),
            ("edit_values", lambda: se.values.__setitem__(slice(None, None, 2), np.nan)),
            ("after_edit", lambda: f(se)), ("reversed", lambda: f(se.iloc[::-1])),
            ("again", lambda: f(se, rainfall=True))])

    @entry("h.stat")
    def _(a):
        ens = arr(a["ens"], np)
        obs = arr(a["obs"], np)
        params = arr(a["params"], np)
        u = arr(a["u"], np)
        st = [("crps/first", lambda: metrics.crps(obs, ens)),
              ("crps/fortran_order", lambda: metrics.crps(obs, np.asfortranarray(ens))),
              ("crps/strided", lambda: metrics.crps(obs[::2], ens[::2])),
              ("crps/column_subset", lambda: metrics.crps(obs, ens[:, ::2])),
              ("crps/no_member", lambda: metrics.crps(obs, ens[:, :0])),
              ("crps/empty", lambda: metrics.crps(obs[:0], ens[:0])),
              ("dscore/first", lambda: metrics.dscore(obs, ens)),
              ("dscore/transposed", lambda: metrics.dscore(obs, ens.T)),
              ("dscore/strided", lambda: metrics.dscore(obs[::2], ens[::2])),
              ("dscore/no_member", lambda: metrics.dscore(obs, ens[:, :0])),
              ("pareto/first", lambda: sutils.pareto_front(ens)),
              ("pareto/transposed", lambda: sutils.pareto_front(ens.T)),
              ("pareto/strided", lambda: sutils.pareto_front(ens[::2, ::2])),
              ("pareto/no_column", lambda: sutils.pareto_front(ens[:, :0])),
              ("edit_ens_in_place", lambda: ens.__setitem__((slice(None, None, 2), 0), np.nan)),
              ("crps/after_edit", lambda: metrics.crps(obs, ens)),
              ("pareto/after_edit", lambda: sutils.pareto_front(ens, -1)),
              ("armodel_sim/first", lambda: armodels.armodel_sim(params, obs)),
              ("armodel_sim/reversed_params", lambda: armodels.armodel_sim(params[::-1], obs[::2])),
              ("armodel_sim/order_grows", lambda: armodels.armodel_sim(np.resize(params, 10), obs)),
              ("armodel_sim/order_11", lambda: armodels.armodel_sim(np.resize(params, 11), obs)),
              ("armodel_sim/no_param", lambda: armodels.armodel_sim(params[:0], obs)),
              ("armodel_residual/first", lambda: armodels.armodel_residual(params, obs)),
              ("armodel_residual/strided", lambda: armodels.armodel_residual(params[::2], obs[::3], 0.0)),
              ("armodel_residual/empty", lambda: armodels.armodel_residual(params, obs[:0], 0.0)),
              ("armodel_residual/order_10", lambda: armodels.armodel_residual(np.resize(params, 10), obs, 0.0)),
              ("ad/first", lambda: metrics.anderson_darling_test(u)),
              ("ad/strided", lambda: metrics.anderson_darling_test(u[::2])),
              ("ad/empty", lambda: metrics.anderson_darling_test(u[:0])),
              ("ad/edit", lambda: u.__setitem__(0, 2.0)),
              ("ad/after_edit", lambda: metrics.anderson_darling_test(u)),
              ("crps/again", lambda: metrics.crps(obs, ens))]
        return run_steps(st)

    @entry("h.dates")
    def _(a):
        d = arr(a["date"], np)
        d2 = arr(a["date2"], np)
        st = []
        for i in range(a.get("ndays", 35)):
            st.append((f"add1day", lambda: cd.add1day(d)))
        for i in range(a.get("nmonths", 14)):
            st.append((f"add1month", lambda: cd.add1month(d)))
        st += [("comparedates/aliased", lambda: cd.comparedates(d, d)),
               ("comparedates/other", lambda: cd.comparedates(d, d2)),
               ("comparedates/reversed_view", lambda: cd.comparedates(d, d2[::-1])),
               ("comparedates/int64", lambda: cd.comparedates(d.astype(np.int64), d2)),
               ("add1day/short_view", lambda: cd.add1day(d[:2])),
               ("add1day/empty_view", lambda: cd.add1day(d[:0])),
               ("add1month/strided", lambda: cd.add1month(np.zeros(6, dtype=np.int32)[::2]))]
        for day in a.get("days", []):
            st.append(("getdate/same_buffer", lambda day=day: cd.getdate(fl(day), d)))
            st.append(("add1day/after_getdate", lambda: cd.add1day(d)))
        return run_steps(st)

    @entry("h.grid")
    def _(a):
        g = mkgrid(a["g"])
        xy = arr(a["xy"], np)
        cells = [None]
        st = [("coord2cell/first", lambda: cells.__setitem__(0, g.coord2cell(xy))),
              ("coord2cell/strided_rows", lambda: g.coord2cell(xy[::2])),
              ("coord2cell/swapped_columns_view", lambda: g.coord2cell(xy[:, ::-1])),
              ("coord2cell/empty_view", lambda: g.coord2cell(xy[:0])),
              ("coord2cell/transposed", lambda: g.coord2cell(xy.T)),
              ("coord2cell/one_column_view", lambda: g.coord2cell(xy[:, :1])),
              ("coord2cell/float32", lambda: g.coord2cell(xy.astype(np.float32))),
              ("slice/first", lambda: g.slice(xy)),
              ("slice/strided", lambda: g.slice(xy[::2])),
              ("slice/empty_view", lambda: g.slice(xy[:0])),
              ("edit_xy_in_place", lambda: xy.__setitem__((slice(None, None, 2), 0), np.nan)),
              ("coord2cell/after_edit", lambda: g.coord2cell(xy)),
              ("slice/after_edit", lambda: g.slice(xy)),
              ("cell2coord/first", lambda: g.cell2coord(cells[0])),
              ("cell2rowcol/strided", lambda: g.cell2rowcol(cells[0][::2])),
              ("edit_cells_in_place", lambda: cells[0].__setitem__(slice(None, None, 2), a.get("badcell", 10 ** 9))),
              ("cell2coord/after_edit", lambda: g.cell2coord(cells[0])),
              ("cell2rowcol/after_edit", lambda: g.cell2rowcol(cells[0])),
              ("neighbours/edited_cell", lambda: g.neighbours(cells[0][0] if len(cells[0]) else 0)),
              ("dtype_reassigned", lambda: setattr(g, "dtype", np.int32)),
              ("slice/after_dtype", lambda: g.slice(xy)),
              ("data_edit_in_place", lambda: g.data.__setitem__((0, 0), 7)),
              ("slice/after_data_edit", lambda: g.slice(xy)),
              ("ncols_reassigned", lambda: setattr(g, "ncols", np.int64(a.get("ncols2", 1)))),
              ("coord2cell/after_ncols", lambda: cells.__setitem__(0, g.coord2cell(xy))),
              ("cell2coord/after_ncols", lambda: g.cell2coord(cells[0])),
              ("cell2rowcol/after_ncols", lambda: g.cell2rowcol(np.arange(-2, 12))),
              ("neighbours/after_ncols", lambda: g.neighbours(1)),
              ("slice/after_ncols", lambda: g.slice(xy)),
              ("cellsize_reassigned", lambda: setattr(g, "cellsize", np.float64(fl(a.get("csz2", 0.0))))),
              ("coord2cell/after_cellsize", lambda: g.coord2cell(xy)),
              ("slice/after_cellsize", lambda: g.slice(xy)),
              ("clone", lambda: g.clone().slice(xy))]
        return run_steps(st)

    @entry("h.catchment")
    def _(a):
        fd = mkgrid(a["fd"], "int64")
        c = hgrid.Catchment("c", fd)
        g2 = mkgrid(a["g"])
        pts = arr(a["xy"], np)
        o1, o2 = a["outlet1"], a["outlet2"]
        NV = 2000       # (the default buffer of 10^6 cells is three 8 MB allocations per call)
        box = {"c": c}

        def allops(tag, cc=None):
            cc = (lambda: box["c"]) if cc is None else cc
            return [(tag + "/boundary", lambda: cc().delineate_boundary()),
                    (tag + "/flowpaths", lambda: cc().compute_flowpathlengths()),
                    (tag + "/intersect", lambda: cc().intersect(g2)),
                    (tag + "/intersect_filled", lambda: cc().intersect(g2, True)),
                    (tag + "/voronoi", lambda: hgrid.voronoi(cc(), pts)),
                    (tag + "/voronoi_fewer_points", lambda: hgrid.voronoi(cc(), pts[:1])),
                    (tag + "/upstream", lambda: cc().upstream(cc().idxcells_area)),
                    (tag + "/downstream", lambda: cc().downstream(cc().idxcells_area[::2]))]
        st = [("area/buffer_too_small", lambda: c.delineate_area(o1, nval=2)),
              ("area/buffer_one", lambda: c.delineate_area(o1, nval=1))]
        st += allops("after_failed_area")
        st += [("area/first", lambda: c.delineate_area(o1, nval=NV))] + allops("first")
        st += [("area/other_outlet", lambda: c.delineate_area(o2, a.get("inlets"), NV))] + allops("other_outlet")
        st += [("edit_area_in_place", lambda: c.idxcells_area.__setitem__(slice(0, None, 2), a.get("badcell", -3)))]
        st += allops("edited_area")
        st += [("edit_filled_in_place", lambda: c.idxcells_area_filled.__setitem__(0, a.get("badcell", -3)))]
        st += allops("edited_filled")
        st += [("area/again", lambda: c.delineate_area(o1, nval=NV)),
               ("flowdir_edit_in_place", lambda: c.flowdir.data.__setitem__((slice(None), 0), a.get("badcode", 999)))]
        st += [("area/after_flowdir_edit", lambda: c.delineate_area(o1, nval=NV))] + allops("after_flowdir_edit")
        st += [("clone", lambda: box.__setitem__("c", c.clone()))] + allops("clone")
        st += [("pickle", lambda: box.__setitem__("c", pickle.loads(pickle.dumps(c))))] + allops("pickle")

        def dict_round_trip():
            cc = hgrid.Catchment.from_dict(c.to_dict())
            cc.flowdir.data = c.flowdir.data
            box["c"] = cc
        st += [("dict_round_trip", dict_round_trip)] + allops("dict")
        st += [("flowdir_ncols_reassigned", lambda: setattr(c.flowdir, "ncols", np.int64(a.get("ncols2", 1)))),
               ("box_back", lambda: box.__setitem__("c", c))] + allops("after_ncols")
        for k in a.get("nvals", [0, 1, 2, 3, 50]):
            st.append((f"river/nval", lambda k=k: hgrid.delineate_river(fd, o1, k)))
            st.append((f"area/nval", lambda k=k: c.delineate_area(o2, nval=k)))
        return run_steps(st)

    @entry("h.fields")
    def _(a):
        fd = mkgrid(a["fd"], "int64")
        field = mkgrid(a["field"], "float64")
        alt = mkgrid(a["alt"], "float64")
        st = [("accumulate/default", lambda: hgrid.accumulate(fd, nprint=a.get("nprint", 0))),
              ("accumulate/field", lambda: hgrid.accumulate(fd, field, nprint=1)),
              ("field_edit_in_place", lambda: field.data.__setitem__((slice(None), slice(None, None, 2)), np.nan)),
              ("accumulate/after_edit", lambda: hgrid.accumulate(fd, field, nprint=a.get("nprint", 0), max_accumulated_cells=2)),
              ("slope/first", lambda: hgrid.slope(fd, alt, nprint=a.get("nprint", 0))),
              ("alt_edit_in_place", lambda: alt.data.__setitem__((0, slice(None)), np.inf)),
              ("slope/after_edit", lambda: hgrid.slope(fd, alt, nprint=-1)),
              ("flowdir_edit_in_place", lambda: fd.data.__setitem__((slice(None), -1), a.get("badcode", 5))),
              ("accumulate/after_flowdir_edit", lambda: hgrid.accumulate(fd, field, nprint=1)),
              ("slope/after_flowdir_edit", lambda: hgrid.slope(fd, alt, nprint=1)),
              ("flowdir_dtype_float", lambda: setattr(fd, "dtype", np.float64)),
              ("accumulate/after_dtype", lambda: hgrid.accumulate(fd, field, nprint=1)),
              ("slope/other_shape", lambda: hgrid.slope(fd, mkgrid(a["alt2"], "float64"), nprint=1)),
              ("accumulate/other_shape", lambda: hgrid.accumulate(fd, mkgrid(a["alt2"], "float64"), nprint=1)),
              ("flowdir_nrows_reassigned", lambda: setattr(fd, "nrows", np.int64(a.get("nrows2", 1)))),
              ("accumulate/after_nrows", lambda: hgrid.accumulate(fd, nprint=1)),
              ("slope/after_nrows", lambda: hgrid.slope(fd, alt, nprint=1))]
        return run_steps(st)

    @entry("h.polygon")
    def _(a):
        pts = arr(a["points"], np)
        poly = arr(a["polygon"], np)
        n = len(pts)
        inside = np.zeros(n, dtype=np.int32)
        pip = gutils.points_inside_polygon
        k = max(n - 2, 0)
        st = [("first", lambda: pip(pts, poly, inside)),
              ("same_buffer_again", lambda: pip(pts, poly, inside, nprint=1)),
              ("fewer_points_same_buffer", lambda: pip(pts[:k], poly, inside)),
              ("fewer_points_prefix_view", lambda: pip(pts[:k], poly, inside[:k])),
              ("strided_points_strided_buffer", lambda: pip(pts[::2], poly, inside[::2])),
              ("strided_points_fresh", lambda: pip(pts[::2], poly)),
              ("buffer_int64", lambda: pip(pts, poly, inside.astype(np.int64))),
              ("buffer_longer", lambda: pip(pts, poly, np.zeros(n + 3, dtype=np.int32))),
              ("empty_points", lambda: pip(pts[:0], poly, inside[:0])),
              ("polygon_reversed_view", lambda: pip(pts, poly[::-1], inside)),
              ("polygon_swapped_columns", lambda: pip(pts, poly[:, ::-1], inside)),
              ("polygon_one_vertex", lambda: pip(pts, poly[:1], inside)),
              ("polygon_empty", lambda: pip(pts, poly[:0], inside)),
              ("polygon_transposed", lambda: pip(pts, poly.T, inside)),
              ("edit_polygon_in_place", lambda: poly.__setitem__((0, 0), np.nan)),
              ("after_polygon_edit", lambda: pip(pts, poly, inside)),
              ("edit_points_in_place", lambda: pts.__setitem__((slice(None, None, 2), 1), np.inf)),
              ("after_points_edit", lambda: pip(pts, poly, inside)),
              ("cells_inside_polygon", lambda: mkgrid(a["g"]).cells_inside_polygon(poly))]
        return run_steps(st)

    return E, loaded, (cd, cs, cg)


def install_shims(mods, record):
    """replace every function of the three extension modules by a recorder that notes, BEFORE the call, the
    name, the integer scalars and — per array argument — dtype, shape and content (the kernel-call arguments
    as they cross the Cython boundary), then calls the original"""
    import numpy as np

    def enc_arr(a):
        if a.dtype.kind == "f":
            v = [("nan" if x != x else "inf" if x == np.inf else "-inf" if x == -np.inf else float(x))
                 for x in a.ravel().tolist()]
        else:
            v = [int(x) for x in a.ravel().tolist()]
        return {"d": a.dtype.str, "shape": list(a.shape), "v": v, "c": bool(a.flags["C_CONTIGUOUS"])}

    def enc(x):
        if isinstance(x, np.ndarray):
            return enc_arr(x)
        if isinstance(x, (bool, np.bool_)):
            return int(x)
        if isinstance(x, (int, np.integer)):
            return int(x)
        if isinstance(x, (float, np.floating)):
            x = float(x)
            return "nan" if x != x else "inf" if x == float("inf") else "-inf" if x == float("-inf") else x
        return repr(x)[:40]

    for mod in mods:
        for name in dir(mod):
            f = getattr(mod, name)
            if name.startswith("_") or not callable(f) or isinstance(f, type):
                continue

            def make(f=f, name=name, modname=mod.__name__):
                def shim(*args):
                    try:
                        record({"mod": modname, "fn": name, "args": [enc(a) for a in args]})
                    except Exception as e:      # noqa: recording must never change the behaviour
                        record({"mod": modname, "fn": name, "args": None, "err": repr(e)[:80]})
                    res = f(*args)
                    try:
                        record({"ret": int(res)})
                    except Exception:       # noqa
                        pass
                    return res
                return shim
            setattr(mod, name, make())


# --------------------------------------------------------------------------------------------
# kernel probes through ctypes with exact-extent malloc'ed buffers
CT = {"int": ctypes.c_int, "ll": ctypes.c_longlong, "double": ctypes.c_double}


class Kern:
    def __init__(self, native):
        self.native = native
        self.libs = {}
        self.libc = ctypes.CDLL(None)
        self.libc.malloc.restype = ctypes.c_void_p
        self.libc.malloc.argtypes = [ctypes.c_size_t]
        self.libc.free.argtypes = [ctypes.c_void_p]

    def run(self, p, announce=None):
        """args: {"t": "int"|"ll"|"double", "v": scalar}  or  {"buf": name, "t": ctype, "ext": n, "v": [...]}"""
        path = p.get("lib") or os.path.join(self.native, "libhykern.so")
        if path not in self.libs:
            self.libs[path] = ctypes.CDLL(path)
        fn = getattr(self.libs[path], p["fn"])
        fn.restype = CT[p.get("ret", "int")]
        cargs, ctys, regions, held = [], [], [], []
        for a in p["args"]:
            ct = CT[a["t"]]
            if "buf" in a:
                n = int(a["ext"])
                nbytes = n * ctypes.sizeof(ct)
                ptr = self.libc.malloc(nbytes if nbytes > 0 else 0) or 0
                if n > 0:
                    view = (ct * n).from_address(ptr)
                    vals = deep(a.get("v", []))
                    fill = a.get("fill", 0)
                    for i in range(n):
                        view[i] = vals[i] if i < len(vals) else fill
                regions.append((a["buf"], ptr, nbytes))
                held.append(ptr)
                cargs.append(ctypes.c_void_p(ptr))
                ctys.append(ctypes.c_void_p)
            else:
                v = fl(a["v"])
                cargs.append(ct(v if a["t"] == "double" else int(v)))
                ctys.append(ct)
        fn.argtypes = ctys
        if announce is not None:
            announce(regions)
        ret = fn(*cargs)
        for ptr in held:
            if ptr:
                self.libc.free(ptr)
        return int(ret), regions


def forked_kern(kern, p, logbase):
    """run one kernel probe in a forked child -> (outcome, regions, sanitizer log text of the child)"""
    import signal as _signal
    r, w = os.pipe()
    pid = os.fork()
    if pid == 0:
        code = 3
        try:
            os.close(r)

            def announce(regions):
                os.write(w, (json.dumps({"regions": regions}) + "\n").encode())
            ret, _ = kern.run(p, announce)
            os.write(w, (json.dumps({"ret": "ok", "val": ret}) + "\n").encode())
            code = 0
        except BaseException as e:      # noqa
            try:
                os.write(w, (json.dumps({"ret": "exc:" + type(e).__name__, "val": str(e)[:120]}) + "\n").encode())
            except Exception:
                pass
        finally:
            sys.stdout.flush()
            os._exit(code)
    os.close(w)
    data = b""
    while True:
        chunk = os.read(r, 65536)
        if not chunk:
            break
        data += chunk
    os.close(r)
    _, status = os.waitpid(pid, 0)
    regions, out = [], None
    for line in data.decode(errors="replace").splitlines():
        try:
            js = json.loads(line)
        except Exception:
            continue
        if "regions" in js:
            regions = [tuple(x) for x in js["regions"]]
        else:
            out = js
    if out is None:
        if os.WIFSIGNALED(status):
            try:
                sig = _signal.Signals(os.WTERMSIG(status)).name
            except Exception:
                sig = f"signal{os.WTERMSIG(status)}"
        else:
            sig = f"exit{os.WEXITSTATUS(status)}"
        out = {"ret": "died", "val": None, "childsignal": sig}
    text = ""
    if logbase:
        f = f"{logbase}.{pid}"
        if os.path.exists(f):
            with open(f, "r", errors="replace") as fh:
                text = fh.read()
            os.unlink(f)
    return out, regions, text


REPORT_RE = re.compile(r"ERROR: AddressSanitizer: (\S+) on address (0x[0-9a-f]+)")
ACCESS_RE = re.compile(r"^(READ|WRITE) of size (\d+) at", re.M)
FRAME_RE = re.compile(r"^\s*#\d+ 0x[0-9a-f]+ in (\S+) (\S+)", re.M)
UBSAN_RE = re.compile(r"^(\S+?):(\d+):(\d+): runtime error: (.*)$", re.M)
REGION_RE = re.compile(r"is located (\d+) bytes (?:to the )?(left|right|before|after|inside)(?: of)? (?:of )?(\d+)-byte region \[(0x[0-9a-f]+),(0x[0-9a-f]+)\)")


def parse_reports(text, regions=()):
    """-> list of {"kind", "access", "func", "where", "buf"} from the sanitizer log text of one probe"""
    out = []
    chunks = re.split(r"(?==+\d+==ERROR: AddressSanitizer)", text)
    for ch in chunks:
        m = REPORT_RE.search(ch)
        if not m:
            continue
        acc = ACCESS_RE.search(ch)
        func, where = "?", "?"
        for fm in FRAME_RE.finditer(ch):
            f, w = fm.group(1), fm.group(2)
            if f.startswith("__asan") or f.startswith("__interceptor") or f.startswith("__sanitizer"):
                continue
            func, where = f, os.path.basename(w)
            break
        rec = {"kind": m.group(1), "access": (acc.group(1) + acc.group(2)) if acc else "", "func": func,
               "where": re.sub(r":\d+$", "", where), "line": where, "addr": m.group(2)}
        rm = REGION_RE.search(ch)
        if rm:
            lo = int(rm.group(4), 16)
            side = {"left": "before", "before": "before", "right": "after", "after": "after", "inside": "inside"}[rm.group(2)]
            rec["side"] = side
            rec["dist"] = int(rm.group(1))
            for name, ptr, nbytes in regions:
                if ptr == lo:
                    rec["buf"] = name
        out.append(rec)
    for m in UBSAN_RE.finditer(text):
        out.append({"kind": "ubsan", "access": "", "func": "?", "where": os.path.basename(m.group(1)),
                    "line": f"{os.path.basename(m.group(1))}:{m.group(2)}", "msg": m.group(4)[:160]})
    return out


def brief(x):
    try:
        import numpy as np
        if isinstance(x, np.ndarray):
            return f"ndarray{list(x.shape)}"
        if isinstance(x, tuple):
            return "tuple(" + ",".join(brief(u) for u in x) + ")"
        if hasattr(x, "shape"):
            return f"{type(x).__name__}{list(x.shape)}"
        return repr(x)[:60]
    except Exception:
        return type(x).__name__


def main():
    native, repo, probes_file, status_file, start = sys.argv[1:6]
    start = int(start)
    skip = set(json.loads(sys.argv[6])) if len(sys.argv) > 6 else set()
    sys.path[:0] = [native, os.path.join(repo, "src")]
    os.environ.setdefault("MPLBACKEND", "Agg")
    warnings.simplefilter("ignore")
    probes = json.load(open(probes_file))
    logbase = None
    for part in os.environ.get("ASAN_OPTIONS", "").split(":"):
        if part.startswith("log_path="):
            logbase = part[len("log_path="):]
    logfile = f"{logbase}.{os.getpid()}" if logbase else None
    st = open(status_file, "a")
    RO["dir"] = os.path.join(os.path.dirname(os.path.abspath(status_file)), "readonly")

    def say(line):
        st.write(line + "\n")
        st.flush()          # into the OS: survives the death of this process

    cur = [start]
    say(f"P {os.getpid()}")
    MARK[0] = lambda label: say(f"S {cur[0]} {label}")
    entries, loaded, kern = None, {}, None
    childlog = ""
    pos = 0
    for i in range(start, len(probes)):
        p = probes[i]
        if p.get("entry", p.get("fn")) in skip:
            # this entry point already killed the interpreter several times in this batch: the finding is made
            say(f"E {i} " + json.dumps({"ret": "skipped", "val": None, "reports": []}))
            continue
        say(f"B {i}")
        out = {}
        regions = ()
        try:
            if p["kind"] == "api":
                if entries is None:
                    entries, loaded, mods = build_entries()
                    say("L " + json.dumps(loaded))
                    install_shims(mods, lambda rec: say(f"C {cur[0]} " + json.dumps(rec)))
                cur[0] = i
                RO["track"] = []
                r = entries[p["entry"]](p["a"])
                out["ret"] = "ok"
                out["val"] = brief(r)
            else:
                if kern is None:
                    kern = Kern(native)
                # every kernel probe runs in a forked child: a report (ASan keeps one per faulting instruction and
                # process) or a crash stays confined to it, the worker lives on
                fo, regions, childlog = forked_kern(kern, p, logbase)
                out.update(fo)
        except BaseException as e:      # noqa: the worker must survive every Python-level exception
            out["ret"] = "exc:" + type(e).__name__
            out["val"] = str(e)[:120]
        sys.stdout.flush()
        text = childlog if p["kind"] != "api" else ""
        childlog = ""
        if logfile and os.path.exists(logfile):
            with open(logfile, "r", errors="replace") as f:
                f.seek(pos)
                text += f.read()
                pos = f.tell()
        out["reports"] = parse_reports(text, regions) if text else []
        if text and not out["reports"]:
            out["reports"] = [{"kind": "unparsed", "access": "", "func": "?", "where": "?", "line": "?",
                               "msg": text[:200]}]
        if RO["track"]:
            import numpy as _np
            out["reports"] += readonly_reports(_np)
        say(f"E {i} " + json.dumps(out))
    say("Q")
    st.close()
    sys.stdout.flush()
    os._exit(0)      # skip interpreter teardown (nothing to learn from it, and it is slow under ASan)


if __name__ == "__main__":
    main()
