"""Translator: the three Cython wrapper files of hydrodiy -> lean/HydroVerif/Generated/PyxSpec.lean

    src/hydrodiy/data/c_hydrodiy_data.pyx, stat/c_hydrodiy_stat.pyx, gis/c_hydrodiy_gis.pyx

The files are regular: `cdef extern from '<h>':` blocks with C prototypes, then one `def f(typed args):` per
wrapper whose body is made of `cdef` declarations, comments, assignments of locals, `assert` lines over
`.shape`, (for one wrapper) statements taking `.min()/.max()` of a column, and ONE call of a C function with its
actual-argument expressions. Nothing is imported or executed; the text is parsed with a small tokenizer.

For every extern prototype `c_K` the Lean file gets `structure c_K.Args` (integer parameters as `Int`, pointer
parameters as the extent `Nat` — number of elements — of the buffer handed over; `double` parameters steer no
access and are dropped). For every wrapper `f`:

  f.Shapes        one `Nat` per axis of every buffer argument (`name_k` = `name.shape[k]`)
  f.Scalars       the integer-typed scalar arguments (`int`, `long long`) as `Int`
  f.bufs          [(name, C element type, ndim)] — what Cython's buffer check enforces (dtype, ndim, C-contiguity)
  f.scalarRange   the scalars fit their C type (Cython raises OverflowError otherwise)
  f.asserts       the conjunction of the `assert` lines, in order
  f.reductions    non-emptiness facts established by numpy reductions in the wrapper body (`x[:, 0].min()` raises
                  ValueError on an empty column)
  f.intFit        every `int` parameter of the kernel that receives a `.shape[k]` expression fits 32 bits (the C
                  conversion from `Py_ssize_t` is silent) — an assumption the theorems state explicitly
  f.callee        name of the kernel called
  f.call          the actual arguments as a `c_K.Args`

The theorems of `Props/C05.lean` are stated over these definitions: deleting or weakening an assert, changing
an actual argument or a prototype changes this file and the obligations are re-proved against the new text.
The file is rewritten only when its text changes.
"""
import hashlib
import re
from pathlib import Path

from . import common as C

TARGET = C.LEAN / "HydroVerif" / "Generated" / "PyxSpec.lean"
PYX = ["data/c_hydrodiy_data.pyx", "stat/c_hydrodiy_stat.pyx", "gis/c_hydrodiy_gis.pyx"]
INT_TYPES = {"int": 32, "long long": 64}


class PyxError(RuntimeError):
    pass


def _strip_comment(line):
    i = line.find("#")
    return line if i < 0 else line[:i]


def _logical_lines(text):
    """join physical lines until parentheses balance; drop comments; keep indentation of the first line"""
    out, cur, depth = [], "", 0
    for raw in text.replace("\r\n", "\n").replace("\t", "    ").split("\n"):
        line = _strip_comment(raw).rstrip()
        if not line.strip() and depth == 0:
            continue
        cur = (cur + " " + line.strip()) if cur else line
        depth += line.count("(") + line.count("[") - line.count(")") - line.count("]")
        if depth <= 0 and not cur.rstrip().endswith("\\"):
            out.append(cur.replace("\\", " "))
            cur, depth = "", 0
    if cur:
        out.append(cur)
    return out


def _split_args(s):
    """split on top-level commas"""
    out, cur, depth = [], "", 0
    for ch in s:
        if ch in "([":
            depth += 1
        elif ch in ")]":
            depth -= 1
        if ch == "," and depth == 0:
            out.append(cur.strip())
            cur = ""
        else:
            cur += ch
    if cur.strip():
        out.append(cur.strip())
    return out


def parse_pyx(text, fname):
    externs, wrappers = {}, []
    lines = _logical_lines(text)
    i = 0
    while i < len(lines):
        ln = lines[i]
        m = re.match(r"cdef extern from ['\"]([^'\"]+)['\"]\s*:", ln)
        if m:
            i += 1
            while i < len(lines) and lines[i].startswith(" "):
                pm = re.match(r"\s+([\w ]+?)\s+(\w+)\s*\((.*)\)\s*;?\s*$", lines[i])
                if not pm:
                    raise PyxError(f"{fname}: cannot parse extern prototype: {lines[i]!r}")
                params = []
                for a in _split_args(pm.group(3)):
                    am = re.match(r"([\w ]+?)\s*(\*?)\s*(\w+)$", a.strip())
                    if not am:
                        raise PyxError(f"{fname}: cannot parse parameter {a!r} of {pm.group(2)}")
                    params.append({"ctype": am.group(1).strip(), "ptr": am.group(2) == "*", "name": am.group(3)})
                externs[pm.group(2)] = {"ret": pm.group(1).strip(), "params": params, "header": m.group(1)}
                i += 1
            continue
        m = re.match(r"def (\w+)\((.*)\)\s*:\s*$", ln)
        if m:
            name, args = m.group(1), []
            for a in _split_args(m.group(2)):
                bm = re.match(r"np\.ndarray\[([\w ]+),\s*ndim=(\d+),\s*mode=['\"]c['\"]\]\s+(\w+)\s+not None$", a)
                if bm:
                    args.append({"kind": "buf", "ctype": bm.group(1).strip(), "ndim": int(bm.group(2)), "name": bm.group(3)})
                    continue
                sm = re.match(r"([\w ]+?)\s+(\w+)$", a)
                if sm:
                    args.append({"kind": "scalar", "ctype": sm.group(1).strip(), "name": sm.group(2)})
                    continue
                if a.strip() == "self":
                    args.append({"kind": "self", "name": "self"})
                    continue
                raise PyxError(f"{fname}: cannot parse argument {a!r} of {name}")
            body = []
            i += 1
            while i < len(lines) and lines[i].startswith(" "):
                body.append(lines[i].strip())
                i += 1
            wrappers.append({"name": name, "args": args, "body": body, "file": fname})
            continue
        if re.match(r"(import\s|cimport\s|from\s+\S+\s+c?import\s|np\.import_array\(\)\s*$)", ln):
            i += 1
            continue
        # anything else at top level (cdef / cpdef functions, classes, decorators, module-level statements) is not
        # part of the regular shape this translator understands: refuse loudly rather than skip it
        raise PyxError(f"{fname}: top-level statement not understood: {ln.strip()[:120]!r}")
    return externs, wrappers


# ---------------------------------------------------------------------------------------------
TOK = re.compile(r"\s*(?:(\d+)|(\w+(?:\.\w+)*)|(==|<=|>=|!=|[-+*/()\[\],<>:]))")


def _tokens(s):
    out, pos = [], 0
    s = s.strip()
    while pos < len(s):
        m = TOK.match(s, pos)
        if not m:
            raise PyxError(f"cannot tokenize {s[pos:]!r}")
        out.append(m.group(1) or m.group(2) or m.group(3))
        pos = m.end()
    return out


class Expr:
    """integer expressions over shapes / scalars / locals -> Lean `Int` terms (`py=True`: Python expressions over
    the dicts `S` (shape fields `name_k`) and `V` (scalar arguments), used by the harness to rebuild the kernel
    call of a recorded wrapper call from the CURRENT .pyx text)"""

    def __init__(self, w, locals_, py=False):
        self.py = py
        self.bufs = {a["name"]: a for a in w["args"] if a["kind"] == "buf"}
        self.scalars = {a["name"]: a for a in w["args"] if a["kind"] == "scalar"}
        self.locals = locals_
        self.wname = w["name"]

    def parse(self, s):
        self.toks, self.pos = _tokens(s), 0
        e = self.sum()
        if self.pos != len(self.toks):
            raise PyxError(f"{self.wname}: trailing tokens in expression {s!r}")
        return e

    def peek(self):
        return self.toks[self.pos] if self.pos < len(self.toks) else None

    def eat(self, t=None):
        tok = self.peek()
        if tok is None or (t is not None and tok != t):
            raise PyxError(f"{self.wname}: expected {t!r}, got {tok!r}")
        self.pos += 1
        return tok

    def sum(self):
        e = self.prod()
        while self.peek() in ("+", "-"):
            op = self.eat()
            e = f"({e} {op} {self.prod()})"
        return e

    def prod(self):
        e = self.atom()
        while self.peek() == "*":
            self.eat()
            e = f"({e} * {self.atom()})"
        return e

    def atom(self):
        tok = self.eat()
        if tok == "(":
            e = self.sum()
            self.eat(")")
            return e
        if tok.isdigit():
            return tok if self.py else f"({tok} : Int)"
        if tok.endswith(".shape"):
            b = tok[:-6]
            if b not in self.bufs:
                raise PyxError(f"{self.wname}: .shape of unknown buffer {b!r}")
            self.eat("[")
            k = int(self.eat())
            self.eat("]")
            if k >= self.bufs[b]["ndim"]:
                raise PyxError(f"{self.wname}: {b}.shape[{k}] beyond ndim")
            return f"S['{b}_{k}']" if self.py else f"(s.{b}_{k} : Int)"
        if tok in self.locals:
            return self.locals[tok]
        if tok in self.scalars:
            if self.scalars[tok]["ctype"] not in INT_TYPES:
                raise PyxError(f"{self.wname}: non-integer scalar {tok} in an integer expression")
            return f"V['{tok}']" if self.py else f"v.{tok}"
        raise PyxError(f"{self.wname}: unknown name {tok!r} in an integer expression")


def analyse(w, externs):
    """-> dict with everything the Lean text needs for wrapper `w` (None for wrappers without a kernel call)"""
    locals_, carrays, asserts, reductions, call = {}, {}, [], [], None
    pylocals, pyasserts = {}, []
    ex = Expr(w, locals_)
    pex = Expr(w, pylocals, py=True)
    bufs = {a["name"]: a for a in w["args"] if a["kind"] == "buf"}
    for st in w["body"]:
        if st.startswith("cdef "):
            m = re.match(r"cdef\s+[\w ]+?\s+(\w+)\[(\d+)\]$", st)
            if m:
                carrays[m.group(1)] = int(m.group(2))
            continue
        if st in ("pass",) or st.startswith("return ") and "(" not in st:
            continue
        if st.startswith("assert "):
            body = st[len("assert "):]
            m = re.match(r"(.+?)\s*(==|<=|>=|<|>)\s*(.+)$", body)
            if not m:
                raise PyxError(f"{w['name']}: cannot parse assert {body!r}")
            op = {"==": "=", "<=": "≤", ">=": "≥", "<": "<", ">": ">"}[m.group(2)]
            asserts.append((f"{ex.parse(m.group(1))} {op} {ex.parse(m.group(3))}", body))
            pyasserts.append(f"{pex.parse(m.group(1))} {m.group(2)} {pex.parse(m.group(3))}")
            continue
        m = re.match(r"(?:ierr\s*=\s*|return\s+)?(c_\w+)\((.*)\)$", st)
        if m and m.group(1) in externs:
            if call is not None:
                raise PyxError(f"{w['name']}: more than one kernel call")
            call = (m.group(1), _split_args(m.group(2)))
            continue
        m = re.match(r"(\w+)\[(\d+)\]\s*=\s*(\w+)\[:,\s*(\d+)\]\.(min|max)\(\)$", st)
        if m:
            if m.group(1) not in carrays or m.group(3) not in bufs:
                raise PyxError(f"{w['name']}: unexpected reduction statement {st!r}")
            reductions.append((m.group(3), 0, st))
            continue
        m = re.match(r"(\w+)\s*=\s*(.+)$", st)
        if m and "(" not in m.group(2).replace(".shape[", ""):
            locals_[m.group(1)] = ex.parse(m.group(2))
            pylocals[m.group(1)] = pex.parse(m.group(2))
            continue
        raise PyxError(f"{w['name']}: statement not understood: {st!r}")
    if call is None:
        if w["name"] == "__cinit__" and w["body"] in (["pass"], []):
            return None
        raise PyxError(f"{w['name']}: no call of a `cdef extern` kernel found in the wrapper body")
    callee, actuals = call
    proto = externs[callee]
    if len(actuals) != len(proto["params"]):
        raise PyxError(f"{w['name']}: {callee} called with {len(actuals)} arguments, prototype has {len(proto['params'])}")
    fields, intfit, pyfields = [], [], []
    for p, a in zip(proto["params"], actuals):
        if p["ptr"]:
            m = re.match(r"<\s*([\w ]+?)\s*\*\s*>\s*np\.PyArray_DATA\((\w+)\)$", a)
            if m:
                b = m.group(2)
                if b not in bufs:
                    raise PyxError(f"{w['name']}: PyArray_DATA of unknown buffer {b!r}")
                if m.group(1).strip() != p["ctype"] or bufs[b]["ctype"] != p["ctype"]:
                    raise PyxError(f"{w['name']}: element type mismatch for {callee}.{p['name']}: cast "
                                   f"{m.group(1)!r}, buffer {bufs[b]['ctype']!r}, prototype {p['ctype']!r}")
                ext = " * ".join(f"s.{b}_{k}" for k in range(bufs[b]["ndim"]))
                fields.append((p["name"], ext))
                pyfields.append((p["name"], "buf", b, " * ".join(f"S['{b}_{k}']" for k in range(bufs[b]["ndim"]))))
            elif a in carrays:
                fields.append((p["name"], str(carrays[a])))
                pyfields.append((p["name"], "carray", a, str(carrays[a])))
            else:
                raise PyxError(f"{w['name']}: pointer argument {a!r} of {callee} not understood")
        elif p["ctype"] in INT_TYPES:
            e = ex.parse(a)
            fields.append((p["name"], e))
            pyfields.append((p["name"], "int", None, pex.parse(a)))
            if p["ctype"] == "int" and "s." in e:
                intfit.append(f"{e} ≤ 2147483647")
        elif p["ctype"] == "double":
            if not re.match(r"\w+$", a):
                raise PyxError(f"{w['name']}: double argument {a!r} of {callee} is not a plain name")
            pyfields.append((p["name"], "double", a, None))
            continue
        else:
            raise PyxError(f"{w['name']}: parameter type {p['ctype']!r} of {callee} not handled")
    return {"name": w["name"], "file": w["file"], "bufs": [a for a in w["args"] if a["kind"] == "buf"],
            "scalars": [a for a in w["args"] if a["kind"] == "scalar" and a["ctype"] in INT_TYPES],
            "asserts": asserts, "reductions": reductions, "callee": callee, "fields": fields, "intfit": intfit,
            "pyfields": pyfields, "pyasserts": pyasserts,
            "pyreductions": sorted({f"S['{b}_{k}'] >= 1" for b, k, _ in reductions}), "argnames": [a["name"] for a in w["args"]],
            "argkinds": {a["name"]: (a["kind"], a.get("ctype"), a.get("ndim")) for a in w["args"]}}


# ---------------------------------------------------------------------------------------------
def lean_ident(n):
    return n if n not in ("slice", "from", "end", "open", "at", "in") else n + "'"


def render(repo=None):
    repo = Path(repo) if repo is not None else C.REPO
    externs, specs, hashes = {}, [], {}
    for rel in PYX:
        f = repo / "src" / "hydrodiy" / rel
        raw = f.read_bytes()
        hashes[rel] = hashlib.sha256(raw).hexdigest()
        ex, ws = parse_pyx(raw.decode("utf-8"), rel)
        externs.update(ex)
        seen = {}
        for w in ws:        # a wrapper defined twice: Python keeps the last definition
            seen[w["name"]] = w
        for w in seen.values():
            sp = analyse(w, ex)
            if sp is not None:
                specs.append(sp)
    used = {sp["callee"] for sp in specs}
    L = []
    L.append("/-")
    L.append("GENERATED by harness/pyx2spec.py from the Cython wrappers — do not edit.")
    L.append("Regenerated on every run of `./check C05`; the committed copy is only a cache.")
    for rel in PYX:
        L.append(f"  src/hydrodiy/{rel}  sha256 {hashes[rel]}")
    L.append("-/")
    L.append("set_option linter.unusedVariables false")
    L.append("namespace HydroVerif.Generated.PyxSpec")
    L.append("")
    L.append("/-- the value fits a C `int` -/")
    L.append("def FitsI32 (x : Int) : Prop := -2147483648 ≤ x ∧ x ≤ 2147483647")
    L.append("/-- the value fits a C `long long` -/")
    L.append("def FitsI64 (x : Int) : Prop := -9223372036854775808 ≤ x ∧ x ≤ 9223372036854775807")
    L.append("")
    L.append("/-! ## kernels (`cdef extern` prototypes): integer parameters, extents of pointer parameters -/")
    for name in sorted(externs):
        p = externs[name]
        L.append("")
        proto = ", ".join(f"{q['ctype']}{' *' if q['ptr'] else ''} {q['name']}" for q in p["params"])
        L.append(f"/-- `{p['ret']} {name}({proto})` ({p['header']}){'' if name in used else ' — not called by any wrapper'} -/")
        L.append(f"structure {name}.Args where")
        any_field = False
        for q in p["params"]:
            if q["ptr"]:
                L.append(f"  {lean_ident(q['name'])} : Nat")
                any_field = True
            elif q["ctype"] in INT_TYPES:
                L.append(f"  {lean_ident(q['name'])} : Int")
                any_field = True
        if not any_field:
            L.append("  unit : Unit := ()")
    L.append("")
    L.append("/-! ## wrappers -/")
    for sp in specs:
        n = lean_ident(sp["name"])
        L.append("")
        L.append(f"namespace {n}")
        L.append(f"/-- shapes of the buffer arguments of `{sp['name']}` ({sp['file']}) -/")
        L.append("structure Shapes where")
        nf = 0
        for b in sp["bufs"]:
            for k in range(b["ndim"]):
                L.append(f"  {b['name']}_{k} : Nat")
                nf += 1
        if nf == 0:
            L.append("  unit : Unit := ()")
        L.append("/-- integer-typed scalar arguments -/")
        L.append("structure Scalars where")
        if sp["scalars"]:
            for a in sp["scalars"]:
                L.append(f"  {lean_ident(a['name'])} : Int")
        else:
            L.append("  unit : Unit := ()")
        bl = ", ".join(f'("{b["name"]}", "{b["ctype"]}", {b["ndim"]})' for b in sp["bufs"])
        L.append(f"def bufs : List (String × String × Nat) := [{bl}]")
        rng = [f"FitsI{INT_TYPES[a['ctype']]} v.{lean_ident(a['name'])}" for a in sp["scalars"]]
        L.append("def scalarRange (v : Scalars) : Prop := " + (" ∧ ".join(rng) if rng else "True"))
        L.append("/-- the `assert` lines:")
        for _, src in sp["asserts"]:
            L.append(f"  assert {src}")
        L.append("-/")
        L.append("def asserts (s : Shapes) (v : Scalars) : Prop :=")
        L.append("  " + (" ∧\n  ".join(a for a, _ in sp["asserts"]) if sp["asserts"] else "True"))
        if sp["reductions"]:
            L.append("/-- numpy reductions over a whole column in the wrapper body (ValueError when it is empty):")
            for _, _, src in sp["reductions"]:
                L.append(f"  {src}")
            L.append("-/")
        facts = sorted({f"1 ≤ s.{b}_{k}" for b, k, _ in sp["reductions"]})
        L.append("def reductions (s : Shapes) : Prop := " + (" ∧ ".join(facts) if facts else "True"))
        L.append("def intFit (s : Shapes) (v : Scalars) : Prop := "
                 + (" ∧ ".join(sp["intfit"]) if sp["intfit"] else "True"))
        L.append(f'def callee : String := "{sp["callee"]}"')
        L.append(f"def call (s : Shapes) (v : Scalars) : {sp['callee']}.Args :=")
        if sp["fields"]:
            L.append("  { " + ",\n    ".join(f"{lean_ident(k)} := {e}" for k, e in sp["fields"]) + " }")
        else:
            L.append("  { }")
        L.append(f"end {n}")
    L.append("")
    L.append("/-- the wrappers that reach a kernel, with the kernel they call -/")
    L.append("def wrappers : List (String × String) := ["
             + ", ".join(f'("{sp["name"]}", "{sp["callee"]}")' for sp in specs) + "]")
    L.append("")
    L.append("end HydroVerif.Generated.PyxSpec")
    text = "\n".join(L) + "\n"
    # unused-variable hygiene: definitions that ignore `s` / `v`
    text = re.sub(r"def (asserts|intFit) \(s : Shapes\) \(v : Scalars\) : Prop :=(\s+)True",
                  r"def \1 (_ : Shapes) (_ : Scalars) : Prop :=\2True", text)
    text = text.replace("def reductions (s : Shapes) : Prop := True", "def reductions (_ : Shapes) : Prop := True")
    text = text.replace("def scalarRange (v : Scalars) : Prop := True", "def scalarRange (_ : Scalars) : Prop := True")
    return text, specs, externs


def failure_text(err):
    """a PyxSpec.lean that does NOT elaborate: the wrapper obligations of Props/C05.lean are then broken (the check
    reports that the property is no longer shown to hold) instead of being silently proved about a stale or partial
    translation"""
    msg = str(err).replace("-/", "- /")
    return ("/-\nGENERATED by harness/pyx2spec.py — TRANSLATION FAILED, the .pyx files no longer have the regular shape the\n"
            "translator understands:\n  " + msg + "\n-/\nnamespace HydroVerif.Generated.PyxSpec\n\n"
            "/-- deliberately ill-typed: see the message above -/\n"
            "def translationFailed : Nat := \"" + msg.replace("\\", "/").replace('"', "'")[:300] + "\"\n\n"
            "end HydroVerif.Generated.PyxSpec\n")


def regen(ctx=None, repo=None):
    """write the Lean file when (and only when) its text changes; returns True if it was rewritten.
    A .pyx the translator cannot parse does not stop the check: the generated file is replaced by one that does not
    elaborate, so that every wrapper obligation is reported broken."""
    try:
        text, specs, externs = render(repo)
    except PyxError as e:
        text, specs, externs = failure_text(e), [], {}
        if ctx is not None:
            ctx.extra["translator_error"] = str(e)
    old = TARGET.read_text() if TARGET.exists() else None
    changed = old != text
    if changed:
        TARGET.parent.mkdir(parents=True, exist_ok=True)
        TARGET.write_text(text)
    if ctx is not None:
        ctx.extra["generated"] = {"file": str(TARGET.relative_to(C.ROOT)), "rewritten": changed,
                                  "wrappers": len(specs), "externs": len(externs),
                                  "asserts": sum(len(s["asserts"]) for s in specs)}
    return changed


if __name__ == "__main__":
    t, specs, externs = render()
    print(f"{len(specs)} wrappers, {len(externs)} externs, {sum(len(s['asserts']) for s in specs)} asserts;",
          "rewritten" if regen() else "unchanged")
