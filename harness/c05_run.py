"""C05 — parent side of the ASan/UBSan probe workers (imported by harness/c05.py; no hydrodiy import here).

`run_probes(probes, native_dir, repo, workdir)` runs the probes in `harness/c05_worker.py` under the sanitizer
runtime and returns one outcome per probe:

    {"ret": "ok" | "exc:<Type>" | "died" | "timeout", "val": ..., "reports": [...], "signal": name or None}

Robustness rules (a piped ASan run hung once during the design):
  * the worker's stdout/stderr go to files, the sanitizer log to `log_path` files — nothing is read through a pipe;
  * every worker has a hard wall-clock limit; progress is read from the status file;
  * a worker that dies (signal, UBSan abort, ASan fatal error) or stalls is attributed to the probe whose `B` line
    has no `E` line, and a fresh worker is started at the next probe.
"""
import json
import os
import signal
import subprocess
import sys
import time
from pathlib import Path

from . import common as C
from . import c05_worker as W

WORKER = Path(__file__).resolve().parent / "c05_worker.py"
_ASAN_RT = None


def asan_runtime():
    global _ASAN_RT
    if _ASAN_RT is None:
        rc, out = C.sh(["clang", "-print-file-name=libclang_rt.asan-x86_64.so"])
        _ASAN_RT = out.strip().splitlines()[-1]
    return _ASAN_RT


def _read_status(path, calls=None, steps=None):
    begun, done, pid, loaded, quit_ = [], {}, None, None, False
    if not path.exists():
        return begun, done, pid, loaded, quit_
    for line in path.read_text(errors="replace").splitlines():
        if line.startswith("B "):
            begun.append(int(line[2:]))
        elif line.startswith("E "):
            _, i, js = line.split(" ", 2)
            try:
                done[int(i)] = json.loads(js)
            except Exception:
                pass
        elif line.startswith("S "):
            if steps is not None:
                parts = line.split(" ", 2)
                if len(parts) == 3:
                    steps[int(parts[1])] = parts[2]
        elif line.startswith("C "):
            if calls is not None:
                _, i, js = line.split(" ", 2)
                try:
                    rec = json.loads(js)
                    if "fn" in rec:
                        calls.setdefault(int(i), []).append(rec)
                    elif "ret" in rec and calls.get(int(i)):
                        calls[int(i)][-1]["ret"] = rec["ret"]       # value returned by the call recorded just before
                except Exception:
                    pass
        elif line.startswith("P "):
            pid = int(line[2:])
        elif line.startswith("L "):
            loaded = json.loads(line[2:])
        elif line == "Q":
            quit_ = True
    return begun, done, pid, loaded, quit_


def run_probes(probes, native_dir, repo, workdir, per_probe_timeout=60.0, batch_timeout=900.0, info=None,
               extra_asan="", max_deaths_per_entry=6):
    """-> list of outcomes (same length/order as probes)"""
    workdir = Path(workdir)
    workdir.mkdir(parents=True, exist_ok=True)
    for f in workdir.glob("*"):
        if f.is_file():
            f.unlink()
    pfile = workdir / "probes.json"
    pfile.write_text(json.dumps(probes))
    results = [None] * len(probes)
    allcalls = {}
    laststep = {}       # probe -> label of the last history step that was started
    deaths = {}         # entry point -> number of workers it killed in this batch
    start, attempt = 0, 0
    t_batch = time.time()
    info = info if info is not None else {}
    info.setdefault("workers", 0)
    info.setdefault("deaths", 0)
    while start < len(probes):
        attempt += 1
        status = workdir / f"status.{attempt}"
        logbase = workdir / f"asan.{attempt}"
        env = dict(os.environ)
        env["LD_PRELOAD"] = asan_runtime()
        opts = f"detect_leaks=0:halt_on_error=0:abort_on_error=0:allocator_may_return_null=1:log_path={logbase}"
        env["ASAN_OPTIONS"] = opts + ((":" + extra_asan) if extra_asan else "")
        env["UBSAN_OPTIONS"] = f"print_stacktrace=0:log_path={logbase}"
        env["PYTHONDONTWRITEBYTECODE"] = "1"
        env["MPLBACKEND"] = "Agg"
        env.pop("PYTHONPATH", None)
        so = open(workdir / f"stdout.{attempt}", "w")
        se = open(workdir / f"stderr.{attempt}", "w")
        skip = sorted(k for k, n in deaths.items() if n >= max_deaths_per_entry)
        proc = subprocess.Popen([sys.executable, str(WORKER), str(native_dir), str(repo), str(pfile), str(status),
                                 str(start), json.dumps(skip)], stdout=so, stderr=se, stdin=subprocess.DEVNULL, env=env,
                                cwd=str(workdir), start_new_session=True)
        info["workers"] += 1
        last_progress, last_n = time.time(), -1
        killed = None
        while True:
            try:
                proc.wait(timeout=0.25)
                break
            except subprocess.TimeoutExpired:
                pass
            # progress = the status file grows (every probe appends at least its B and E lines)
            try:
                n = status.stat().st_size
            except OSError:
                n = 0
            if n != last_n:
                last_n, last_progress = n, time.time()
            # the first probe also pays the imports (numpy, pandas, hydrodiy under ASan): allow more
            limit = per_probe_timeout * (3 if n < 200 else 1)
            if time.time() - last_progress > limit or time.time() - t_batch > batch_timeout:
                killed = "timeout"
                try:
                    os.killpg(proc.pid, signal.SIGKILL)
                except Exception:
                    proc.kill()
                proc.wait()
                break
        so.close()
        se.close()
        calls, steps = {}, {}
        begun, done, pid, loaded, quit_ = _read_status(status, calls, steps)
        laststep.update(steps)
        for i, cl in calls.items():
            allcalls.setdefault(i, []).extend(cl)
        if loaded:
            info["loaded"] = loaded
        for i, o in done.items():
            o["signal"] = None
            results[i] = o
        rc = proc.returncode
        if quit_ and rc == 0:
            break
        pending = [i for i in begun if i not in done]
        if not pending:
            if begun or done:
                # died between probes (or on exit): nothing to attribute, continue after the last finished one
                nxt = max(list(done) + [start - 1]) + 1
                if nxt == start and not done:
                    raise RuntimeError(f"C05 worker made no progress (rc={rc}); see {workdir}")
                start = nxt
                if start >= len(probes):
                    break
                continue
            raise RuntimeError(f"C05 worker failed before the first probe (rc={rc}): "
                               + (workdir / f"stderr.{attempt}").read_text()[-800:])
        i = pending[-1]
        info["deaths"] += 1
        key = probes[i].get("entry", probes[i].get("fn"))
        deaths[key] = deaths.get(key, 0) + 1
        text = ""
        for f in workdir.glob(f"asan.{attempt}.*"):
            text += f.read_text(errors="replace")
        # only the tail written after the last finished probe belongs to this one; the parser is tolerant,
        # so take the reports that were not already attributed
        seen = {json.dumps(r, sort_keys=True) for o in done.values() for r in o.get("reports", [])}
        reps = [r for r in W.parse_reports(text) if json.dumps(r, sort_keys=True) not in seen]
        if killed:
            sig = "timeout"
        elif rc is not None and rc < 0:
            try:
                sig = signal.Signals(-rc).name
            except Exception:
                sig = f"signal{-rc}"
        else:
            sig = f"exit{rc}"
        results[i] = {"ret": "timeout" if killed else "died", "val": None, "reports": reps, "signal": sig}
        start = i + 1
        if time.time() - t_batch > batch_timeout:
            break
    for i, r in enumerate(results):
        if r is None:
            results[i] = {"ret": "notrun", "val": None, "reports": [], "signal": None}
        results[i]["calls"] = allcalls.get(i, [])
        results[i]["step"] = laststep.get(i)
    return results
