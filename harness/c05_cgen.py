"""C05 — correspondence of the GENERATED kernel models (`Generated/CKernels.lean`, written by `harness/c2lean.py`
from the C text) with the COMPILED kernels of the working tree.

For every translated function a stream of boundary + random inputs is run
  * through the model driver (`cgen <function> <scalars> <buffer>…` → value and written buffers, or the fault the
    integer semantics of `Model/CSem.lean` predicts), and
  * — when the model runs without fault — through the real kernel, called with ctypes on `libhykern.so` of the native
    build of the working tree in a worker process (`harness/c05_cgen_worker.py`; buffers of exactly the stated extent
    between guard zones).
Return value and the contents of EVERY buffer are compared exactly (buffers the model does not return must be
unchanged; a `BASE + __LINE__` error return must be one of the codes the translator found in the C text). A
difference is a broken correspondence of translator / semantic primitives (`ctx.disagree`), never a finding by itself.
Inputs on which the model reports a fault are undefined behaviour of the C text: they are not run on the plain build;
a sample of them is run on the `-O0` ASan/UBSan build through the tightness workers, where a report is expected
(counted). When the model faults on an input that a Python entry point of the property's quantifier hands to the kernel
unchanged (`API_ENTRY`: the scalar kernels through `c_hydrodiy_data.combi / isleapyear / daysinmonth / dayofyear`, the
date kernels with a three-field `int32` date), the input is ALSO run through that entry point on the sanitizer build of
the extension module: a report there is a violation of the property with a failing input (`ctx.finding`).
"""
import json
import subprocess
import sys
import time
from pathlib import Path

from . import common as C
from . import c2lean as T

WORKER = Path(__file__).resolve().parent / "c05_cgen_worker.py"
I32MIN, I32MAX = -2 ** 31, 2 ** 31 - 1
I64MIN, I64MAX = -2 ** 63, 2 ** 63 - 1
CODE = [32, 64, 128, 16, 0, 1, 8, 4, 2]
# kernel -> (API entry of harness/c05_worker.py that passes its arguments on unchanged, argument names, length the
# wrapper asserts for each buffer)
API_ENTRY = {
    "c_combi": ("cd.combi", ["n", "k"], []),
    "c_dateutils_isleapyear": ("cd.isleapyear", ["year"], []),
    "c_dateutils_daysinmonth": ("cd.daysinmonth", ["year", "month"], []),
    "c_dateutils_dayofyear": ("cd.dayofyear", ["month", "day"], []),
    "c_dateutils_add1month": ("cd.add1month", ["date"], [3]),
    "c_dateutils_add1day": ("cd.add1day", ["date"], [3]),
    "c_dateutils_comparedates": ("cd.comparedates", ["date1", "date2"], [3, 3]),
}


# ---------------------------------------------------------------------------------------------
# generators: (function, scalars, buffers, class)
def gen_cases(rng, scale, functions):
    out = []

    def add(fn, xs, bs, cls):
        if fn in functions:
            out.append((fn, [int(x) for x in xs], [[int(v) for v in b] for b in bs], cls))

    years = [0, 1, -1, 4, -4, 100, -100, 400, -400, 1600, 1700, 1800, 1900, 2000, 2023, 2024, 2100, 2400, -1900, -2000,
             I32MAX, I32MAX - 1, I32MAX - 3, I32MIN, I32MIN + 1, 2147483600, -2147483600]
    for y in years + [rng.randint(-3000, 3000) for _ in range(scale(40, 400))] + \
            [rng.randint(I32MIN, I32MAX) for _ in range(scale(20, 200))]:
        add("c_dateutils_isleapyear", [y], [], "year")
    months = [-1, 0, 1, 2, 3, 4, 6, 7, 11, 12, 13, 14, I32MAX, I32MIN]
    for y in years:
        for m in months:
            add("c_dateutils_daysinmonth", [y, m], [], "boundary")
    for _ in range(scale(60, 600)):
        add("c_dateutils_daysinmonth", [rng.randint(-3000, 3000), rng.randint(-2, 15)], [], "random")
    days = [-1, 0, 1, 2, 27, 28, 29, 30, 31, 32, 33, I32MAX, I32MIN]
    for m in months:
        for d in days:
            add("c_dateutils_dayofyear", [m, d], [], "boundary")
    dyears = [1, 4, 1900, 2000, 2023, 2024, -1, -4, I32MAX, I32MAX - 1, I32MIN]
    dmonths = [0, 1, 2, 3, 11, 12, 13, I32MAX, I32MIN]
    ddays = [0, 1, 27, 28, 29, 30, 31, 32, I32MAX, I32MIN]
    dates = [[y, m, d] for y in dyears for m in dmonths for d in ddays]
    dates += [[rng.randint(1800, 2200), rng.randint(1, 12), rng.randint(1, 31)] for _ in range(scale(150, 1500))]
    for dt in dates:
        add("c_dateutils_add1month", [], [dt], "date")
        add("c_dateutils_add1day", [], [dt], "date")
    for n in (0, 1, 2, 4):          # short / long buffers
        dt = [2024, 12, 31, 7][:n] if n < 4 else [2024, 12, 31, 7]
        add("c_dateutils_add1month", [], [dt], f"len{n}")
        add("c_dateutils_add1day", [], [dt], f"len{n}")
    base = [[2000, 6, 15], [2000, 6, 16], [2000, 7, 15], [2001, 6, 15], [1999, 12, 31], [I32MAX, 12, 31],
            [I32MIN, 1, 1], [2000, 6, 15]]
    for a in base:
        for b in base:
            add("c_dateutils_comparedates", [], [a, b], "pairs")
    for _ in range(scale(100, 1000)):
        a = [rng.randint(1999, 2001), rng.randint(1, 3), rng.randint(1, 3)]
        b = [rng.randint(1999, 2001), rng.randint(1, 3), rng.randint(1, 3)]
        add("c_dateutils_comparedates", [], [a, b], "random")
    add("c_dateutils_comparedates", [], [[2000, 1], [2000, 1, 1]], "len2")
    add("c_dateutils_comparedates", [], [[2000, 1, 1], [2000, 2]], "len2")
    add("c_dateutils_comparedates", [], [[1999], [2000]], "len1")
    # combi: every 0 <= k <= n <= 40, the edge of the accepted table, negatives, extremes
    for n in range(0, 41):
        for k in range(0, n + 1):
            add("c_combi", [n, k], [], "table")
    for n, k in [(60, 30), (61, 30), (61, 31), (60, 31), (59, 30), (30, 31), (2, 5), (0, 1), (5, 7), (45, 15), (45, 14),
                 (31, 0), (30, 0), (-1, 0), (0, -1), (-1, -1), (I32MIN, 1), (I32MAX, 1), (1, I32MIN), (I32MIN, I32MAX),
                 (I32MAX, I32MIN), (I32MAX, 30), (I32MAX, 0), (I32MIN, I32MIN), (50, 25), (55, 27), (58, 29)]:
        add("c_combi", [n, k], [], "edge")
    for _ in range(scale(150, 1500)):
        add("c_combi", [rng.randint(-5, 110), rng.randint(-5, 60)], [], "random")
    for x, a, b in [(5, 0, 3), (-5, 0, 3), (2, 0, 3), (0, 0, 0), (1, 3, 0), (I64MAX, I64MIN, 0), (I64MIN, 0, I64MAX),
                    (7, 7, 7), (3, 0, 3), (0, 0, 3)]:
        add("clipi", [x, a, b], [], "clip")
    for _ in range(scale(30, 300)):
        add("clipi", [rng.randint(-10, 10), rng.randint(-10, 10), rng.randint(-10, 10)], [], "random")
    for nc in [1, 2, 3, 7, 0, -1, -3, I64MAX, I64MIN]:
        for idx in [0, 1, 2, 5, 6, 7, 20, -1, -7, I64MAX, I64MIN, I64MIN + 1]:
            add("getnxy", [nc, idx], [[9, 9]], "cell")
    add("getnxy", [3, 5], [[9]], "len1")
    add("getnxy", [3, 5], [[]], "len0")
    add("getnxy", [3, 5], [[9, 9, 9]], "len3")
    grids = [(1, 1), (1, 2), (2, 1), (1, 5), (5, 1), (2, 2), (2, 3), (3, 2), (3, 3), (3, 4), (4, 3), (4, 5), (0, 3),
             (3, 0), (0, 0)]
    for nr, nc in grids:
        n = nr * nc
        cells = sorted({0, 1, nc - 1, nc, nc + 1, n - nc - 1, n - nc, n - 2, n - 1, n, n + 1, -1, -2, n // 2,
                        I64MAX, I64MIN})
        add("c_cell2rowcol", [nr, nc, len(cells)], [cells, [9] * (2 * len(cells))], "all")
        add("c_cell2rowcol", [nr, nc, 0], [[], []], "empty")
        add("c_cell2rowcol", [nr, nc, 2], [cells[:3], [9] * 5], "longer_buffers")
        add("c_cell2rowcol", [nr, nc, len(cells)], [cells, [9] * (2 * len(cells) - 1)], "rowcols_short")
        for c in range(-1, n + 2):
            add("c_neighbours", [nr, nc, c], [[9] * 9], "cell")
        add("c_neighbours", [nr, nc, n // 2], [[9] * 8], "short")
        add("c_neighbours", [nr, nc, n // 2], [[9] * 11], "long")
    add("c_cell2rowcol", [2 ** 32, 2 ** 32, 1], [[5], [9, 9]], "grid_overflow")
    add("c_cell2rowcol", [-3, 3, 1], [[5], [9, 9]], "negative_rows")
    add("c_cell2rowcol", [-3, -3, 2], [[5, 0], [9] * 4], "negative_grid")
    add("c_neighbours", [2 ** 32, 2 ** 32, 5], [[9] * 9], "grid_overflow")
    add("c_neighbours", [-3, -3, 4], [[9] * 9], "negative_grid")
    for nr, nc in [g for g in grids if g[0] * g[1] > 0]:
        n = nr * nc
        for rep in range(scale(8, 40)):
            kind = rep % 3
            if kind == 0:
                fd = [rng.choice(CODE) for _ in range(n)]
            elif kind == 1:
                fd = [rng.choice(CODE + [0, 0, 3, -1, 256]) for _ in range(n)]
            else:
                fd = [rng.choice([1, 16, 4, 64]) for _ in range(n)]
            code = list(CODE) if rep % 4 else rng.sample(CODE, 9)
            cells = [rng.randint(0, n - 1) for _ in range(rng.randint(0, 4))]
            if rep % 5 == 4:
                cells.append(rng.choice([-1, n, n + 3]))
            add("c_upstream", [nr, nc, len(cells)], [code, fd, cells, [7] * (9 * len(cells))], f"k{kind}")
            add("c_downstream", [nr, nc, len(cells)], [code, fd, cells, [7] * len(cells)], f"k{kind}")
        allc = list(range(n))
        fd = [rng.choice(CODE) for _ in range(n)]
        add("c_upstream", [nr, nc, n], [CODE, fd, allc, [7] * (9 * n)], "every_cell")
        add("c_downstream", [nr, nc, n], [CODE, fd, allc, [7] * n], "every_cell")
        add("c_upstream", [nr, nc, n], [CODE, fd[:-1], allc, [7] * (9 * n)], "flowdir_short")
        add("c_downstream", [nr, nc, n], [CODE, fd[:-1], allc, [7] * n], "flowdir_short")
        add("c_upstream", [nr, nc, n], [CODE, fd, allc, [7] * (9 * n - 1)], "idxup_short")
        add("c_downstream", [nr, nc, n], [CODE[:8], fd, allc, [7] * n], "code_short")
    return out


# ---------------------------------------------------------------------------------------------
def run_native(lib, cases, workdir):
    """-> list of result dicts (or {"crash": …}) in case order"""
    workdir.mkdir(parents=True, exist_ok=True)
    cf, rf = workdir / "cases.json", workdir / "results.jsonl"
    cf.write_text(json.dumps(cases))
    results, start, deaths = {}, 0, 0
    while start < len(cases) and deaths < 8:
        if rf.exists():
            rf.unlink()
        try:
            p = subprocess.run([sys.executable, str(WORKER), str(lib), str(cf), str(rf), str(start)],
                               stdout=subprocess.PIPE, stderr=subprocess.STDOUT, text=True, timeout=600)
            rc, tail = p.returncode, p.stdout[-300:]
        except subprocess.TimeoutExpired:
            rc, tail = "timeout", ""
        begun, done = None, False
        for line in (rf.read_text().splitlines() if rf.exists() else []):
            if line.startswith("B "):
                begun = int(line[2:])
            elif line.startswith("E "):
                _, i, js = line.split(" ", 2)
                results[int(i)] = json.loads(js)
            elif line == "Q":
                done = True
        if done:
            break
        deaths += 1
        if begun is None or begun in results:
            raise RuntimeError(f"C05 cgen worker ended (rc={rc}) outside a kernel call: {tail}")
        results[begun] = {"crash": f"worker ended with {rc} during the call"}
        start = begun + 1
    return [results.get(i, {"crash": "not run (the worker died too often)"}) for i in range(len(cases))]


def stream(ctx, asan=None):
    """`asan` = (run_parallel, kern lib, asan dir, workroot) of harness/c05.py for the sample of model-fault inputs"""
    t0 = time.time()
    try:
        _, meta = T.render(C.REPO)
    except T.CError as e:
        ctx.extra["cgen_stream"] = {"skipped": f"the translator refuses the C text: {e}"}
        return
    fns = meta["functions"]
    cases = gen_cases(ctx.rng, ctx.scale, set(fns))
    lines = ["cgen " + fn + " " + C.ilist(xs) + "".join(" " + C.ilist(b) for b in bs) for fn, xs, bs, _ in cases]
    replies = ctx.lean.ask(lines)
    native, ninfo = C.native_build(C.REPO)
    lib = native / "libhykern.so"
    todo, owners, faults = [], [], []
    per = {fn: {"cases": 0, "model_ok": 0, "model_fault": 0, "compared": 0} for fn in fns}
    for k, ((fn, xs, bs, cls), rep) in enumerate(zip(cases, replies)):
        f = fns[fn]
        per[fn]["cases"] += 1
        if rep.startswith("ok "):
            per[fn]["model_ok"] += 1
            args, si, bi = [], iter(xs), iter(bs)
            for p in f["params"]:
                args.append({"t": p["ctype"], "buf": next(bi)} if p["kind"] == "buf" else {"t": p["ctype"], "v": next(si)})
            todo.append({"fn": fn, "ret": f["ret"], "args": args})
            owners.append(k)
        elif rep.split()[0] in ("oob", "div0", "ovf", "fuel"):
            per[fn]["model_fault"] += 1
            faults.append(k)
            ctx.count((fn, tuple(xs), tuple(map(tuple, bs))), nontrivial=True, branch=f"cgen:{fn}:model-{rep.split()[0]}")
        else:
            raise RuntimeError(f"C05: driver reply not understood for `{lines[k][:200]}`: {rep!r}")
    results = run_native(lib, todo, C.BUILD / f"c05-cgen-{ctx.seed}-{int(time.time() * 1000) % 100000}")
    for k, res in zip(owners, results):
        fn, xs, bs, cls = cases[k]
        f = fns[fn]
        toks = replies[k].split()
        mret = int(toks[1])
        mbufs = [[int(v) for v in C.parse_list(t)] for t in toks[2:]]
        case = {"function": fn, "class": cls, "scalars": xs, "buffers": bs, "model": replies[k][:300]}
        if "crash" in res:
            ctx.disagree(f"generated model: the compiled {fn} crashed on an input the model runs without fault "
                         f"({res['crash']})", case)
            continue
        per[fn]["compared"] += 1
        bufidx = [i for i, p in enumerate(f["params"]) if p["kind"] == "buf"]
        expect = []
        wi = 0
        for j, pi in enumerate(bufidx):
            if pi in f["written"]:
                expect.append(mbufs[wi])
                wi += 1
            else:
                expect.append(bs[j])            # a buffer the model does not return must be unchanged
        ok_ret = (res["ret"] in f["errcodes"]) if (f["errcodes"] and mret == 1) else (res["ret"] == mret)
        impl = f"{'errcode' if f['errcodes'] and res['ret'] in f['errcodes'] else res['ret']} {res['bufs']}" + \
            (" guard-zone-touched" if res["guard"] else "")
        model = f"{'errcode' if f['errcodes'] and mret == 1 else mret} {expect}"
        ctx.count((fn, tuple(xs), tuple(map(tuple, bs))), nontrivial=True,
                  branch=f"cgen:{fn}:{'err' if (f['errcodes'] and mret == 1) or mret < 0 else 'ok'}",
                  sample={"function": fn, "scalars": xs, "buffers": bs, "model": replies[k][:120], "code": res["ret"]}
                  if k % 977 == 0 else None)
        if not ok_ret or res["bufs"] != expect or res["guard"]:
            ctx.disagree(f"generated model: {fn} — the compiled kernel and the model generated from the C text differ",
                         dict(case, impl=impl, model_expected=model))
    info = {"functions": len(fns), "cases": len(cases), "model_ok_run_on_real_code": len(todo), "model_faults": len(faults),
            "per_function": per, "native": str(native), "native_cached": ninfo["cached"]}
    # a sample of the inputs on which the model faults, on the -O0 sanitizer build: a report is expected
    if asan is not None and faults:
        run_parallel, reclib, asan_dir, workroot = asan
        pick = faults if len(faults) <= ctx.scale(60, 400) else ctx.rng.sample(faults, ctx.scale(60, 400))
        probes = []
        for k in pick:
            fn, xs, bs, cls = cases[k]
            f = fns[fn]
            args, si, bi = [], iter(xs), iter(bs)
            for p in f["params"]:
                t = "ll" if p["ctype"] == "long long" else "int"
                if p["kind"] == "buf":
                    b = next(bi)
                    args.append({"buf": p["name"], "t": t, "ext": len(b), "v": b})
                else:
                    args.append({"t": t, "v": next(si)})
            probes.append({"kind": "kern", "fn": fn, "ret": "ll" if f["ret"] == "long long" else "int", "args": args,
                           "lib": str(reclib), "cls": "cgen/" + cls})
        res, _ = run_parallel(probes, asan_dir, C.REPO, workroot / "cgen", ctx.scale(2, 4), per_probe_timeout=60.0,
                              batch_timeout=600.0, extra_asan="symbolize=0")
        silent = []
        for k, r in zip(pick, res):
            if not r["reports"] and r["ret"] == "ok":
                silent.append({"function": cases[k][0], "scalars": cases[k][1], "buffers": cases[k][2],
                               "model": replies[k]})
        info["model_faults_on_sanitizer_build"] = {"run": len(pick), "no_report": len(silent), "samples": silent[:5]}
        if len(pick) >= 10 and len(silent) > 0.5 * len(pick):
            ctx.disagree("generated model: most inputs on which the model reports a fault run clean on the sanitizer build "
                         "(the fault semantics of Model/CSem.lean no longer describe the code)", {"samples": silent[:5]})
    # model faults on inputs a Python entry point passes on unchanged: inside the property's quantifier
    if asan is not None and faults:
        run_parallel, reclib, asan_dir, workroot = asan
        probes, owners2 = [], []
        for k in faults:
            fn, xs, bs, cls = cases[k]
            if fn not in API_ENTRY:
                continue
            entry, names, lens = API_ENTRY[fn]
            f = fns[fn]
            if [len(b) for b in bs] != lens:
                continue
            ok = all(I32MIN <= x <= I32MAX for x in xs) and all(I32MIN <= v <= I32MAX for b in bs for v in b)
            if not ok or any(p["ctype"] != "int" for p in f["params"]):
                continue
            vals = list(xs) + [{"d": "int32", "v": b} for b in bs]
            probes.append({"kind": "api", "entry": entry, "cls": "cgen/" + cls, "pred": "model-" + replies[k].split()[0],
                           "a": dict(zip(names, vals))})
            owners2.append(k)
        probes, owners2 = probes[:ctx.scale(80, 400)], owners2[:ctx.scale(80, 400)]
        hits = 0
        if probes:
            res, _ = run_parallel(probes, asan_dir, C.REPO, workroot / "cgen-api", ctx.scale(2, 4), per_probe_timeout=60.0,
                                  batch_timeout=600.0)
            for k, p, r in zip(owners2, probes, res):
                bad = r["reports"] or r["ret"] in ("died", "timeout")
                if bad:
                    hits += 1
                    rep = r["reports"][0] if r["reports"] else None
                    kind = ("abnormal-exit:" + str(r.get("signal"))) if rep is None else \
                        (rep.get("where", "?") + ":" + ("signed-integer-overflow" if "overflow" in rep.get("msg", "") else
                                                       "integer-division-by-zero" if "division by zero" in rep.get("msg", "")
                                                       else rep.get("kind", "?")))
                    ctx.finding(f"{p['entry']}/{kind}/{p['pred']}",
                                f"{p['entry']}: the model generated from the C text faults ({replies[k]}) and the sanitizer "
                                f"build reports {kind} on the same arguments (result of the call: {r['ret']})",
                                {"probe": p, "reports": r["reports"][:2], "signal": r.get("signal"), "model": replies[k]})
        info["model_faults_through_api"] = {"run": len(probes), "reported_by_sanitizer": hits}
    info["wall_s"] = round(time.time() - t0, 1)
    ctx.extra["cgen_stream"] = info
