"""C20 — sampling, ranking and summary helpers return what their names promise.

Model: lean/HydroVerif/Model/C20.lean + Model/C20X.lean; theorems: lean/HydroVerif/Props/C20.lean.
Three instances of the generic model are run by the driver: Float (compared within a few ulp), exact rationals, and exact
rationals with a round-to-nearest-even to 53 bits after every operation (rnd53: numpy's doubles, compared for equality).
Correspondence (Float instance of the model vs the real code, a few ulp):
  sutils.lhs        np.random.permutation / uniform are wrapped while lhs runs: every permutation and the
                    unit draws behind every uniform() call are recorded (or injected: identity / reversed
                    permutation, draws 0 and 1-2^-53) and handed to the model, which rebuilds the sample
  sutils.ppos       all sizes, constants on and around [0, 0.5]; exact-rational instance as well
  sutils.lhs_norm   the probabilities drawn on the unit hypercube (model lhsUnit on the recorded draws), norm.ppf and the
                    Cholesky factor applied by the harness
  standard_normal   ranks (average / min / max / first / dense / sorted) and norm.ppf of the model's plotting positions;
                    the vector is handed over as float64 / float32 array, list, tuple, Series (shuffled index) and as
                    integer data (int32 / int64 / uint64 arrays, lists and Series of ints, magnitudes beyond 2**53 with
                    neighbouring values): integer data go to the exact-rational instance; cst outside [0, 0.5] model only
  pareto_front      through the rebuilt C kernel: 0..60 points x 1..5 dims, ties, NaN, both orientations,
                    C / Fortran / integer inputs; model-only stream: ±inf coordinates, orientations 0 / 2 / -3 / 7 / 1000,
                    arrays without columns, the rnd53 instance
  boxplot_stats, Boxplot(df).stats (per column and the whole frame), Boxplot(x, by=...).stats (looked up by label; integer,
                    string and float categories as array / list / Series)
  Boxplot object    histories of public calls in any order, also those the object refuses (show_count / set_ylim /
                    set_color before draw, hidden count text): accepted / refused compared call by call with boxRun
  Violin(df).stats / kde_x / kde_y   (np.random.uniform recorded; gaussian_kde evaluated by the harness on
                    the values the model selects, normalised by the model)
Oracle (real code only, independent of the model): one sample per exact-rational stratum (bipartite
matching, rounding-sized tolerance at the edges); ppos increasing / in (0,1) / symmetric; scores ordered as
ranks and data; brute-force dominance, non-empty front of complete data, orientation = negation; count of
finite values, exact-rational Hyndman-Fan-7 percentiles at the levels implied by the coverages, ordering
between min and max, NaN row under 4 values, group column = the group alone; violin quantiles of the finite
values, density profile in [0, 1] attaining both ends, abscissae sorted inside the data range.
Cases: branch values first (sizes 0/1/2/3/4, constants 0 and 0.5, ties, constant columns, all-NaN, inf),
then random; malformed stream (bad ranges, cst outside, NaN in standard_normal, coverages rejected).
A case is non-trivial when the call is accepted, returns a non-empty non-constant result and is distinct.
"""
import math
import os
import warnings
from fractions import Fraction

# the matrices of this check are tiny: BLAS worker threads only spin (and compete with other checks on a shared machine)
for _v in ("OMP_NUM_THREADS", "OPENBLAS_NUM_THREADS", "MKL_NUM_THREADS"):
    os.environ.setdefault(_v, "1")

import numpy as np

from . import common as C

PID = "C20"
ONE_M = 1.0 - 2.0 ** -53


# ------------------------------------------------------------------------------------------------
# helpers
def ulps_close(a, b, ulps=4):
    return C.ulp_diff(float(a), float(b)) <= ulps


def lists_close(a, b, ulps=4):
    return len(a) == len(b) and all(ulps_close(x, y, ulps) for x, y in zip(a, b))


def exact_percentile(sorted_q, p):
    """Hyndman-Fan type 7 at level p (percent), exact rationals"""
    n = len(sorted_q)
    pos = (n - 1) * Fraction(p) / 100
    lo = math.floor(pos)
    if lo >= n - 1:
        return sorted_q[-1]
    g = pos - lo
    return sorted_q[lo] + (sorted_q[lo + 1] - sorted_q[lo]) * g


def levels(bcov, wcov):
    """levels implied by the coverages, exact"""
    b, w = Fraction(bcov), Fraction(wcov)
    return [(100 - w) / 2, (100 - b) / 2, Fraction(50), 100 - (100 - b) / 2, 100 - (100 - w) / 2]


def labels(bcov, wcov):
    b1 = float(100 - bcov) / 2
    w1 = float(100 - wcov) / 2
    return ["{0:0.1f}%".format(q) for q in (w1, b1, 50, 100. - b1, 100. - w1)]


class Draws:
    """records (or injects) what np.random hands to the code under test"""

    def __init__(self, inject=None):
        self.inject = inject
        self.perms, self.unit, self.out = [], [], []
        self.real_perm, self.real_unif = np.random.permutation, np.random.uniform

    def permutation(self, n):
        p = self.real_perm(n)
        try:
            if self.inject is not None and isinstance(n, (int, np.integer)):
                kind = self.inject[0]
                p = np.arange(n) if kind == "id" else np.arange(n)[::-1].copy() if kind == "rev" else p
            self.perms.append([int(v) for v in np.asarray(p).ravel()])
        except Exception:       # a use of permutation() the recorder does not understand: hand numpy's answer through
            self.perms.append([])
        return p

    def uniform(self, low=0.0, high=1.0, size=None):
        st = np.random.get_state()
        out = self.real_unif(low, high, size)
        try:
            np.random.set_state(st)
            r = np.random.random_sample(size)      # the unit draws behind `out` (same stream, same count)
            if self.inject is not None and self.inject[1] is not None:
                r = np.full(np.shape(out), self.inject[1])
                out = low + (high - low) * r
            # recorded flat: the code under test may ask for any shape
            self.unit.append([float(v) for v in np.asarray(r, dtype=float).ravel()])
            self.out.append([float(v) for v in np.asarray(out, dtype=float).ravel()])
        except Exception:
            self.unit.append([])
            self.out.append([])
        return out

    def __enter__(self):
        np.random.permutation, np.random.uniform = self.permutation, self.uniform
        return self

    def __exit__(self, *a):
        np.random.permutation, np.random.uniform = self.real_perm, self.real_unif


def matching_ok(cands, n):
    """is there an assignment point -> stratum (one each) with point i in one of cands[i]?"""
    owner = [-1] * n

    def aug(i, seen):
        for k in cands[i]:
            if 0 <= k < n and k not in seen:
                seen.add(k)
                if owner[k] < 0 or aug(owner[k], seen):
                    owner[k] = i
                    return True
        return False
    # points with a single candidate first (cheap and makes the recursion shallow)
    order = sorted(range(len(cands)), key=lambda i: len(cands[i]))
    for i in order:
        if not aug(i, set()):
            return False
    return True


def gen_column(rng, n, kind=None):
    kind = kind or rng.choice(["normal", "lognormal", "ties", "const", "fewties", "ramp", "big"])
    if kind == "normal":
        x = [rng.gauss(rng.choice([0, 5, -100]), rng.choice([1, 30])) for _ in range(n)]
    elif kind == "lognormal":
        x = [math.exp(rng.gauss(0, 1.5)) for _ in range(n)]
    elif kind == "ties":
        x = [float(rng.choice([0, 1, 2, 3, 5, 8])) for _ in range(n)]
    elif kind == "fewties":
        x = [float(rng.choice([-1.5, 2.25])) for _ in range(n)]
    elif kind == "const":
        x = [rng.choice([0.0, 3.5, -7.0])] * n
    elif kind == "ramp":
        x = [float(i) * rng.choice([1, 1]) for i in range(n)]
        rng.shuffle(x)
    else:
        x = [rng.uniform(-1, 1) * 10 ** rng.randint(-3, 6) for _ in range(n)]
    return x, kind


def poke_holes(rng, x, allow_inf=True):
    x = list(x)
    n = len(x)
    mode = rng.choice(["none", "none", "some", "some", "many", "all"])
    holes = [float("nan")] + ([float("inf"), float("-inf")] if allow_inf else [])
    if n == 0 or mode == "none":
        return x, mode
    k = {"some": max(1, n // 8), "many": max(1, (3 * n) // 4), "all": n}[mode]
    for pos in rng.sample(range(n), k):
        x[pos] = rng.choice(holes)
    return x, mode


def edit_in_place(obj, rng):
    """what a caller may do with a result it owns: edit it in place. Returns the name of the edit, or None when the
    object cannot be edited (read-only results are fine)"""
    try:
        if isinstance(obj, tuple):
            hows = [edit_in_place(o, rng) for o in obj]
            return next((h for h in hows if h is not None), None)
        if isinstance(obj, np.ndarray):
            if obj.size == 0:
                return None
            how = rng.choice(["times100", "first=5", "reverse", "one_minus", "fill"])
            if how == "times100":
                obj *= 100
            elif how == "first=5":
                obj.flat[0] = 5
            elif how == "reverse":
                obj[...] = obj[::-1].copy()
            elif how == "one_minus":
                np.subtract(1, obj, out=obj)
            else:
                obj.fill(7)
            return how
        if hasattr(obj, "iloc"):             # pandas Series / DataFrame
            if obj.size == 0:
                return None
            obj.iloc[:] = -3.0
            return "pandas_fill"
        if isinstance(obj, list) and obj:
            obj[0] = 5
            obj.reverse()
            return "list_edit"
    except Exception:
        return None
    return None


BOX_CANON = {"draw": "draw", "draw_log": "draw", "draw_offset": "draw", "show_count": "show_count", "set_ylim": "set_ylim",
             "set_color": "set_color", "items": "items", "minmax": "items", "hide_count": "hide_count"}


def box_history(bx, rng, plt):
    """call other public methods of a Boxplot on a throw-away figure, in any order - also the orders the object refuses
    (show_count / set_ylim / set_color before any draw, show_count with the count text switched off).
    Returns (op names as run, model op names, accepted flags): which calls are accepted is compared with the model's
    `boxRun`; the statistics read afterwards are judged by the oracle."""
    ops, canon, flags = [], [], []
    fig, ax = plt.subplots()
    try:
        fault_first = rng.random() < 0.35
        for k in range(rng.randint(1, 5)):
            op = rng.choice(["draw", "draw_log"]) if k == 0 and not fault_first else \
                rng.choice(["draw", "draw_log", "draw_offset", "show_count", "show_count", "set_ylim", "set_color", "items", "minmax",
                            "hide_count"])
            try:
                if op == "draw":
                    bx.draw(ax=ax)
                elif op == "draw_log":
                    bx.draw(ax=ax, logscale=True)
                elif op == "draw_offset":
                    bx.draw(ax=ax, xoffset=rng.choice([-0.3, 0.25]))
                elif op == "show_count":
                    bx.show_count(ypos=rng.choice([0.025, 0.9]))
                elif op == "set_ylim":
                    bx.set_ylim((rng.choice([-5.0, 0.5]), rng.choice([3.0, 1e3])), hide_offlimit_text=rng.random() < 0.5)
                elif op == "set_color":
                    bx.set_color(".", "tab:red", alpha=0.3)
                elif op == "hide_count":
                    bx.count.show_text = False
                elif op == "items":
                    bx.box.width = rng.choice([0.3, 0.9])
                    bx.box.show_text = True
                    bx.whiskers.linewidth = 1
                    bx.caps.width = rng.choice([0.0, 0.5])
                    if bx.median is not None:
                        bx.median.show_text = True
                    if bx.mean is not None:
                        bx.mean.marker = "*"
                elif op == "minmax":
                    bx.minmax.marker = "o"
                ops.append(op)
                flags.append(1)
            except Exception as e:
                ops.append(f"{op}:raised:{type(e).__name__}")
                flags.append(0)
            # whether matplotlib raises inside a draw is an input of the model (external); what the object accepts next is not
            # (so is whether the elements of a column at least were stored before it raised: `elements` is public)
            if BOX_CANON[op] == "draw":
                stored = bool(getattr(bx, "elements", None))
                canon.append(("draw" if stored else "draw_empty") if flags[-1] else ("draw_fail" if stored else "draw_fail_early"))
            else:
                canon.append(BOX_CANON[op])
    finally:
        plt.close(fig)
    return ops, canon, flags


def violin_history(vl, rng, plt):
    ops = []
    fig, ax = plt.subplots()
    try:
        for k in range(rng.randint(1, 3)):
            op = rng.choice(["draw", "draw_ylim", "reset_items", "items"])
            try:
                if op == "draw":
                    vl.draw(ax=ax)
                elif op == "draw_ylim":
                    vl.draw(ax=ax, ylim=(rng.choice([-2.0, 0.1]), rng.choice([1.0, 50.0])))
                elif op == "reset_items":
                    vl.reset_items()
                elif op == "items":
                    vl.median.show_text = False
                    vl.center.show_text = True
                    vl.extremes.hatch = "none"
                ops.append(op)
            except Exception as e:
                ops.append(f"{op}:raised:{type(e).__name__}")
    finally:
        plt.close(fig)
    return ops


# ------------------------------------------------------------------------------------------------
def body(ctx):
    warnings.simplefilter("ignore")
    import pandas as pd
    import matplotlib
    matplotlib.use("Agg")
    import matplotlib.pyplot as plt
    from scipy.stats import norm, gaussian_kde
    from hydrodiy.stat import sutils
    from hydrodiy.plot import boxplot, violinplot
    rng = ctx.rng
    lean = ctx.lean
    reqs, checks = [], []          # checks: (kind, impl, case)

    import time as _time
    _t = {"last": _time.time()}
    section_s = ctx.extra.setdefault("section_s", {})

    def mark(name):
        now = _time.time()
        section_s[name] = round(section_s.get(name, 0.0) + now - _t["last"], 1)
        _t["last"] = now

    def add(req, kind, impl, case):
        reqs.append(req)
        checks.append((kind, impl, case))

    def attempt(section, case_fn):
        """run one generated case: whatever goes wrong while reading / interpreting what the real code returned
        (another container type, a renamed row, a missing column ...) is a correspondence disagreement, never an
        infrastructure error; exceptions of the real code itself are caught closer to the call (see `guarded`)"""
        try:
            case_fn()
        except Exception as e:
            import traceback
            tb = traceback.extract_tb(e.__traceback__)
            where = next((f"{f.name}:{f.lineno}" for f in reversed(tb) if f.filename.endswith("c20.py")), "?")
            ctx.disagree(f"C20/{section}: the result of the real code could not be interpreted ({type(e).__name__} at {where})",
                         {"section": section, "error": str(e)[:300]})
            ctx.hist[f"{section}/uninterpretable"] = ctx.hist.get(f"{section}/uninterpretable", 0) + 1

    def guarded(entry, fn, case):
        """a call inside the property's domain must not raise"""
        try:
            return True, fn()
        except Exception as e:
            ctx.finding(f"{entry}/raises_on_valid_input", f"{entry} raises {type(e).__name__} on an input of the property's domain",
                        {**case, "error": str(e)[:200]})
            ctx.count((entry, "raises", len(ctx.findings)), False, f"{entry}/raises")
            return False, None

    # ================================================================ lhs
    sizes = [1, 2, 3, 4, 5, 7, 10, 33, 100] + ([250, 500] if ctx.thorough else [200])
    def lhs_case(it, preset=None):
            n = sizes[it] if 0 <= it < len(sizes) else rng.choice(sizes + [rng.randint(1, sizes[-1])])
            nparams = rng.randint(1, 6)
            pmin, pmax, shapes_used = [], [], set()
            for _ in range(nparams):
                shape = rng.choice(["usual"] * 6 + ["narrow"] * 3 + ["wide", "intbounds"])
                shapes_used.add(shape)
                if shape == "intbounds":
                    lo = float(rng.randint(-50, 50))
                    width = float(rng.choice([1, 1, 2, 7, 100, rng.randint(1, 1000)]))
                elif shape == "narrow":
                    # absolute width 1e-14 .. 1e-8 at offsets 0, 0.5, 1e6 ...: strata far narrower than any absolute
                    # constant, but still >= 2048 doubles wide so that they are distinct floats
                    lo = rng.choice([0.0, 0.0, 1e-12, 0.5, -0.5, 1.0, 1e6])
                    width = 10.0 ** rng.uniform(-14, -8)
                    width = max(width, 2048 * n * math.ulp(max(abs(lo), abs(lo + width))))
                elif shape == "wide":
                    lo = rng.choice([-1e300, 0.0, 1e299, -5e299])
                    width = rng.choice([1e300, 1.5e300, 1e299])
                else:
                    mag = 10.0 ** rng.randint(-3, 5)
                    lo = rng.choice([0.0, -mag, mag, rng.uniform(-mag, mag)])
                    width = rng.choice([mag, rng.uniform(0.01, 10) * mag, 1.0])
                    # keep a stratum much wider than the spacing of doubles at the ends of the range
                    width = max(width, 1e-6 * n * max(abs(lo), 1e-300))
                pmin.append(lo)
                pmax.append(lo + width)
            bcast = rng.random() < 0.15
            if bcast:
                top = max(pmin) + rng.choice([1.0, 100.0])
                pmax_arg = [top] if rng.random() < 0.5 else top
                pmax = [top] * nparams
            else:
                pmax_arg = list(pmax) if rng.random() < 0.7 else np.array(pmax)
            pmin_arg = pmin
            if not bcast and all(float(v).is_integer() and abs(v) < 2 ** 31 for v in pmin + pmax):
                # integer bounds handed over as integers (Python ints / integer arrays): same ranges, same strata
                how_int = rng.choice(["pyint", "int64", "int32", "mixed"])
                shapes_used.add("as_" + how_int)
                if how_int == "pyint":
                    pmin_arg, pmax_arg = [int(v) for v in pmin], [int(v) for v in pmax]
                elif how_int == "mixed":
                    pmin_arg, pmax_arg = [int(v) for v in pmin], np.array(pmax)
                else:
                    pmin_arg, pmax_arg = np.array(pmin).astype(how_int), np.array(pmax).astype(how_int)
            if preset is not None:
                n, pmin, pmax = int(preset["n"]), [float(v) for v in preset["pmin"]], [float(v) for v in preset["pmax"]]
                nparams, bcast, pmax_arg, pmin_arg = len(pmin), False, list(pmax), pmin
            # a stratum must span many doubles, or "one sample per stratum" is not a statement about floats any more
            if any((b - a) / n < 1024 * math.ulp(max(abs(a), abs(b))) for a, b in zip(pmin, pmax)):
                return
            # nsamples goes through int(): any integer-valued spelling is the same sample size
            n_arg = rng.choice([n, n, n, np.int64(n), np.int32(n), float(n)])
            inject = None
            u = rng.random()
            if preset is not None:
                u = 1.0
            if u < 0.08:
                inject = ("id", 0.0)
            elif u < 0.16:
                inject = ("rev", ONE_M)
            elif u < 0.22:
                inject = (None, rng.choice([0.0, ONE_M, 0.5]))
            elif u < 0.28:
                inject = (rng.choice(["id", "rev"]), None)
            holder = {}

            def step(sg):
                np.random.seed(rng.randrange(2 ** 32))
                with Draws(inject) as dr:
                    okc, smp = guarded(sg, lambda: sutils.lhs(n_arg, pmin_arg, pmax_arg), {"n": n, "pmin": pmin, "pmax": pmax})
                holder["raw"] = smp
                if not okc:
                    return
                case = {"n": n, "pmin": pmin, "pmax": pmax, "inject": inject, "perms": dr.perms if n <= 12 else "...",
                        "unit": dr.unit if n <= 12 else "..."}
                smp = np.asarray(smp, dtype=float)
                if smp.shape != (n, nparams):
                    ctx.finding(sg + "/shape", "lhs does not return an (nsamples, nparams) array", case)
                    return
                cols = [[float(v) for v in smp[:, j]] for j in range(nparams)]
                add(f"lhs {n} {C.flist(pmin)} {C.flist([pmax[0]] if bcast else pmax)} "
                    f"[{';'.join(','.join(str(k) for k in p) for p in dr.perms)}] {C.fmat(dr.unit)}", "lhs", cols, case)
                ctx.count(("lhs", n, tuple(pmin), tuple(pmax), tuple(cols[0][:4])), n >= 2,
                          f"lhs/n={'1' if n == 1 else '2-9' if n < 10 else '10+'}/" + ("injected" if inject else "numpy-draws")
                          + ("/corpus" if preset is not None else "".join("/" + k for k in sorted(shapes_used - {"usual"}))),
                          sample={"op": "lhs", "n": n, "pmin": pmin, "pmax": pmax, "first_rows": smp[:3].tolist()})
                # ---- oracle: exactly one point per stratum [pmin + k du, pmin + (k+1) du), exact rationals
                for j in range(nparams):
                    a, b = Fraction(pmin[j]), Fraction(pmax[j])
                    du = (b - a) / n
                    tol = Fraction(16 * math.ulp(max(abs(pmin[j]), abs(pmax[j])))) / du + Fraction(1, 10 ** 12)
                    cands, bad = [], None
                    for i, s in enumerate(cols[j]):
                        t = (Fraction(s) - a) / du
                        k = math.floor(t)
                        c = {k}
                        if t - k <= tol:
                            c.add(k - 1)
                        if (k + 1) - t <= tol:
                            c.add(k + 1)
                        c = {v for v in c if 0 <= v < n}
                        if not c:
                            bad = (i, s)
                        cands.append(sorted(c))
                    if bad is not None:
                        ctx.finding(sg + "/sample_outside_range", "an lhs sample lies outside [pmin, pmax)",
                                    {**case, "param": j, "index": bad[0], "value": bad[1]})
                    elif not matching_ok(cands, n):
                        occ = {}
                        for c in cands:
                            occ[c[0]] = occ.get(c[0], 0) + 1
                        empty = [k for k in range(n) if k not in occ][:5]
                        ctx.finding(sg + "/stratum_not_hit_once", "some stratum of a parameter range holds no sample or several",
                                    {**case, "param": j, "empty_strata": empty, "column": cols[j][:20]})
                # exact-rational instance on the first parameter of small cases
                if n <= 12 and it % 3 == 0 and dr.perms and dr.unit and len(dr.perms[0]) == n and len(dr.unit[0]) == n:
                    add(f"lhsq {n} {C.rat(pmin[0])} {C.rat(pmax[0])} {C.ilist(dr.perms[0])} [{','.join(C.rat(v) for v in dr.unit[0])}]",
                        "lhsq", cols[0], {**case, "param": 0})

            step('lhs')
            # history: the caller edits the result it was handed in place, then asks again with equal arguments
            if "raw" in holder and rng.random() < 0.3:
                how = edit_in_place(holder.pop("raw"), rng)
                if how is not None:
                    ctx.hist['lhs/caller_edit/' + how] = ctx.hist.get('lhs/caller_edit/' + how, 0) + 1
                    step('lhs/after_caller_edit')

    # corpus first (minimised past failures), several numpy seeds each
    for f in sorted((C.ROOT / "corpus" / PID).glob("*.json")):
        import json as _json
        c = _json.loads(f.read_text())
        if c.get("entry") == "lhs":
            for _ in range(int(c.get("repeat", 1))):
                attempt('lhs', lambda: lhs_case(-1, c))
    for it in range(ctx.scale(400, 2600)):
        attempt('lhs', lambda: lhs_case(it))

    # malformed lhs
    for (n, a, b) in [(3, [0, 0], [1, 1, 1]), (3, [0, 1], [1, 1]), (3, [0, 1], [1, 0.5]), (4, [2.0], [2.0]),
                      (0, [0.0], [1.0]), (5, [0, 0, 0], [1, 1]), (2, [0.0, 5.0], [3.0])]:
        np.random.seed(1)
        try:
            with Draws() as dr:
                sutils.lhs(n, a, b)
            impl = "ok"
        except Exception:
            impl = "err"
        ctx.count(("lhs_malformed", n, tuple(a), tuple(b)), False, "lhs/malformed/" + impl)
        if n == 0:
            continue    # nsamples = 0 is outside the property's sizes: raising or returning an empty sample are both fine
        add(f"lhs {n} {C.flist(a)} {C.flist(b)} [{';'.join(','.join(str(k) for k in p) for p in dr.perms)}] {C.fmat(dr.unit)}",
            "lhs_malformed", impl, {"n": n, "pmin": a, "pmax": b})

    mark('lhs')
    # ---- lhs_norm reaches lhs through another route: probabilities drawn on the unit hypercube (model: lhsUnit on the
    # recorded draws), then norm.ppf and the Cholesky factor of the covariance (external, applied by the harness)
    from scipy import linalg as _linalg
    for it in range(ctx.scale(60, 400)):
        def one_case():
            n = rng.choice([1, 2, 3, 5, 10, 33, rng.randint(1, 60)])
            nvars = rng.randint(1, 4)
            mean = np.array([rng.choice([0.0, 5.0, -100.0, rng.uniform(-3, 3)]) for _ in range(nvars)])
            diagonal = rng.random() < 0.5
            if diagonal:
                cov = np.diag([rng.choice([1.0, 0.01, 25.0, rng.uniform(0.1, 4)]) for _ in range(nvars)])
            else:
                a_ = np.array([[rng.gauss(0, 1) for _ in range(nvars)] for _ in range(nvars)])
                cov = a_ @ a_.T + rng.choice([0.1, 1.0]) * np.eye(nvars)
            inject = rng.choice([None, None, None, ("id", None), ("rev", 0.5), (None, 0.5)])
            np.random.seed(rng.randrange(2 ** 32))
            case = {"n": n, "mean": mean.tolist(), "cov": cov.tolist(), "inject": inject}
            with Draws(inject) as dr:
                okc, smp = guarded("lhs_norm", lambda: sutils.lhs_norm(n, mean, cov), case)
            if not okc:
                return
            smp = np.asarray(smp, dtype=float)
            if smp.shape != (n, nvars):
                ctx.finding("lhs_norm/shape", "lhs_norm does not return an (nsamples, nvars) array", case)
                return
            add(f"lhsunit {n} {nvars} [{';'.join(','.join(str(k) for k in p) for p in dr.perms)}] {C.fmat(dr.unit)}", "lhsunit",
                (smp.tolist(), mean.tolist(), cov.tolist()), case)
            ctx.count(("lhs_norm", n, nvars, tuple(smp[0].tolist())), n >= 2, "lhs_norm/" + ("diagonal" if diagonal else "full") + "_cov/"
                      + ("injected" if inject else "numpy-draws"), sample={"op": "lhs_norm", "n": n, "mean": mean.tolist(), "first_row": smp[0].tolist()})
            # ---- oracle (independent variables only): on the probability scale every variable has exactly one
            # sample in each of the n equal strata of (0, 1)
            if diagonal:
                for j in range(nvars):
                    u = norm.cdf((smp[:, j] - mean[j]) / math.sqrt(cov[j, j]))
                    cands = []
                    for v in u:
                        t = float(v) * n
                        k = math.floor(t)
                        c = {k} | ({k - 1} if t - k <= 1e-7 else set()) | ({k + 1} if (k + 1) - t <= 1e-7 else set())
                        cands.append(sorted(v_ for v_ in c if 0 <= v_ < n))
                    if any(not c for c in cands) or not matching_ok(cands, n):
                        ctx.finding("lhs_norm/independent/stratum_not_hit_once",
                                    "on the probability scale some stratum of a variable holds no sample or several",
                                    {**case, "variable": j, "probabilities": [float(v) for v in u[:20]]})
                        break
        attempt('lhs_norm', one_case)

    mark('lhs_norm')
    # ================================================================ ppos
    csts = [0.0, 0.5, 0.3, 0.375, 0.3175, 0.4, 0.25, 1e-300, 0.5 - 2.0 ** -54]
    nmax = ctx.scale(60, 400)
    pp_cases = [(n, c) for n in list(range(0, 13)) + [nmax] for c in csts]
    for _ in range(ctx.scale(400, 2500)):
        pp_cases.append((rng.randint(1, nmax), rng.uniform(0, 0.5)))
    for c in (-1e-9, 0.5 + 1e-9, -0.0, 0.5000000000000001, -1.0, 2.0):
        pp_cases.append((rng.randint(1, 9), c))
    def ppos_step(n_arg, cst_arg, sg="ppos", extra=None):
        """one call ppos(n_arg, cst_arg): correspondence request + oracle; returns the object the code handed back"""
        n, cst = int(n_arg), float(cst_arg)
        case = {"n": n, "cst": cst, **(extra or {})}
        inside = 0 <= cst <= 0.5 and n >= 1      # sizes 1.., constants of [0, 0.5]
        raw = None
        try:
            raw = sutils.ppos(n_arg, cst_arg)
            pp = [float(v) for v in np.asarray(raw, dtype=float).ravel()]
            impl = ("ok", pp)
        except Exception as e:
            impl = ("err", None)
            if inside:
                ctx.finding(sg + "/raises", f"ppos raises {type(e).__name__} for a size >= 1 and a constant of [0, 0.5]",
                            {**case, "error": str(e)[:200]})
        add(f"ppos {n} {C.f2h(cst)}", "ppos", impl, case)
        ctx.count((sg, n, cst, repr(extra)), impl[0] == "ok" and n >= 2, sg + "/" + ("accepted" if impl[0] == "ok" else "rejected"),
                  sample={"op": "ppos", "n": n, "cst": cst, "first": impl[1][:3] if impl[1] else None})
        if cst == cst and impl[0] == "ok" and n <= 40:
            add(f"pposq {n} {C.rat(cst)}", "pposq", impl, case)
            # the same model on exact rationals with every operation rounded to 53 bits: the very doubles numpy computes
            add(f"pposr {n} {C.rat(cst)}", "pposr", impl, case)
        if not inside or impl[0] != "ok":
            return raw
        # ---- oracle
        if len(impl[1]) != n:
            ctx.finding(sg + "/wrong_length", "ppos does not return nval positions", case)
            return raw
        pp = impl[1]
        if any(not (0 < p < 1) for p in pp):
            ctx.finding(sg + "/outside_unit_interval", "a plotting position is not in (0, 1)", {**case, "pp": pp[:8]})
        if any(not (p1 < p2) for p1, p2 in zip(pp, pp[1:])):
            ctx.finding(sg + "/not_increasing", "plotting positions are not strictly increasing", {**case, "pp": pp[:8]})
        if any(abs(pp[i] + pp[n - 1 - i] - 1) > 1e-12 for i in range(n)):
            ctx.finding(sg + "/not_symmetric", "plotting positions are not symmetric about 0.5", {**case, "pp": pp[:8]})
        return raw

    for (n, cst) in pp_cases:
        attempt('ppos', lambda: ppos_step(n, cst))

    # ---- histories: call, the caller edits the array it was handed in place, other calls in between, then the same
    # size and constant again (in any spelling) - every answer must still be the plotting positions
    EDITS = {"times100": lambda a: a.__imul__(100), "first=5": lambda a: a.__setitem__(0, 5.0),
             "one_minus": lambda a: np.subtract(1, a, out=a), "zero_head": lambda a: a.__setitem__(slice(0, max(1, len(a) // 2)), 0.0),
             "reverse": lambda a: a.__setitem__(slice(None), a[::-1].copy()), "nan": lambda a: a.fill(float("nan"))}
    SPELL_N = {"int": int, "np.int64": np.int64, "np.int32": np.int32}
    SPELL_C = {"float": float, "np.float64": np.float64}

    def ppos_history(steps, source):
        """steps: [{"n":, "cst":, "n_as":, "cst_as":, "edit": name or None}, ...]"""
        for k, stp in enumerate(steps):
            n_arg = SPELL_N[stp.get("n_as", "int")](stp["n"])
            if stp.get("cst_as") == "int":
                cst_arg = int(stp["cst"])
            else:
                cst_arg = SPELL_C[stp.get("cst_as", "float")](stp["cst"])
            raw = ppos_step(n_arg, cst_arg, "ppos" if k == 0 else "ppos/after_caller_edit",
                            {"history": steps[:k + 1], "step": k, "source": source})
            how = stp.get("edit")
            if how and isinstance(raw, np.ndarray) and raw.size:
                try:
                    EDITS[how](raw)
                    ctx.hist["ppos/caller_edit/" + how] = ctx.hist.get("ppos/caller_edit/" + how, 0) + 1
                except Exception:      # a read-only result cannot be spoiled by its caller: fine
                    ctx.hist["ppos/caller_edit/refused"] = ctx.hist.get("ppos/caller_edit/refused", 0) + 1

    # corpus first (minimised past failures)
    for f in sorted((C.ROOT / "corpus" / PID).glob("*.json")):
        import json as _json
        c = _json.loads(f.read_text())
        if c.get("entry") == "ppos_history":
            attempt('ppos', lambda: ppos_history(c["steps"], "corpus/" + f.name))
    for it in range(ctx.scale(80, 600)):
        pool = [(rng.choice([1, 2, 3, 5, 8, 20, 50, rng.randint(1, nmax)]), rng.choice([0.0, 0.3, 0.375, 0.5, rng.uniform(0, 0.5)]))
                for _ in range(rng.randint(1, 3))]
        steps = []
        for k in range(rng.randint(3, 7)):
            n_, c_ = pool[0] if k == 0 else rng.choice(pool)
            steps.append({"n": n_, "cst": c_, "n_as": rng.choice(list(SPELL_N)),
                          "cst_as": "int" if c_ == 0.0 and rng.random() < 0.5 else rng.choice(list(SPELL_C)),
                          "edit": rng.choice(list(EDITS)) if rng.random() < 0.7 else None})
        steps.append({**steps[0], "n_as": rng.choice(list(SPELL_N)), "edit": None})     # the first call once more, last
        attempt('ppos', lambda: ppos_history(steps, "generated"))

    mark('ppos')
    # ================================================================ standard_normal
    # the vector is handed over in every numeric container / dtype the function takes (it ranks the data AS GIVEN):
    # float64 / float32 arrays, lists, tuples, Series with a shuffled index, and integer data - int32, int64, uint64
    # arrays, lists and Series of Python ints - including magnitudes beyond 2**53 where neighbouring integers are not
    # distinct doubles. The oracle and the exact-rational instance of the model work on the exact values.
    INT_BASES = {"int64": [2 ** 53, 2 ** 53 - 3, -(2 ** 53), 2 ** 60, 2 ** 62, -(2 ** 62), 2 ** 63 - 40, -(2 ** 63) + 1,
                           1_700_000_000_000_000_000, 4_102_444_800_000_000_000],
                 "uint64": [2 ** 53, 2 ** 63 - 5, 2 ** 63, 2 ** 64 - 40, 1_700_000_000_000_000_000],
                 "int32": [2 ** 31 - 40, -(2 ** 31) + 1, 2 ** 24, 0]}

    def gen_ints(n, family):
        """n exact integers of an integer family; returns (values, kind)"""
        lo, hi = {"int64": (-(2 ** 63), 2 ** 63 - 1), "uint64": (0, 2 ** 64 - 1), "int32": (-(2 ** 31), 2 ** 31 - 1)}[family]
        kind = rng.choice(["small_ties", "perm", "adjacent", "adjacent", "adjacent_ties", "two_clusters", "spread"])
        if kind == "small_ties":
            v = [rng.randint(0, 9) for _ in range(n)]
        elif kind == "perm":
            v = rng.sample(range(-3 if lo < 0 else 0, n + 5), n)
        elif kind in ("adjacent", "adjacent_ties"):
            base = rng.choice(INT_BASES[family])
            span = max(2, n // 3) if kind == "adjacent_ties" else 4 * n + 8
            offs = [rng.randrange(span) for _ in range(n)] if kind == "adjacent_ties" else rng.sample(range(span), n)
            v = [base + o for o in offs]
        elif kind == "two_clusters":
            b1, b2 = rng.choice(INT_BASES[family]), rng.choice(INT_BASES[family])
            v = [rng.choice([b1, b2]) + rng.randrange(0, n + 3) for _ in range(n)]
            v[rng.randrange(n)] = rng.choice([0, 7, lo + 1, hi])
        else:
            v = [rng.randint(lo, hi) for _ in range(n)]
        return [min(hi, max(lo, int(a))) for a in v], kind

    def snorm_argument(n):
        """(exact values, what is handed to standard_normal, carrier, kind, is_integer_data)"""
        carrier = rng.choice(["float64"] * 10 + ["float32", "list_float", "tuple_float", "series_float",
                                                  "int64", "int64", "uint64", "int32", "list_int", "series_int"])
        if carrier in ("int64", "uint64", "int32", "list_int", "series_int"):
            family = carrier if carrier in ("int64", "uint64", "int32") else "int64"
            vals, kind = gen_ints(n, family)
            return vals, carrier, "int/" + kind, True
        x, kind = gen_column(rng, n, rng.choice(["normal", "ties", "fewties", "const", "lognormal", "big"]))
        if rng.random() < 0.05 and n >= 2:
            x[rng.randrange(n)] = rng.choice([float("inf"), float("-inf")])
        if carrier == "float32":
            x = [float(np.float32(v)) for v in x]
        if rng.random() < 0.04:
            x[rng.randrange(n)] = float("nan")
        return x, carrier, kind, False

    def snorm_wrap(vals, carrier):
        if carrier == "float64":
            return np.array(vals, dtype=float)
        if carrier == "float32":
            return np.array(vals, dtype=np.float32)
        if carrier in ("int64", "uint64", "int32"):
            return np.array(vals, dtype=getattr(np, carrier))
        if carrier in ("list_float", "list_int"):
            return list(vals)
        if carrier == "tuple_float":
            return tuple(vals)
        idx = list(range(100, 100 + len(vals)))
        rng.shuffle(idx)
        return pd.Series(vals, index=idx, dtype=float if carrier == "series_float" else np.int64)

    def snorm_case(it, preset=None):
            n = [1, 2, 3][it] if 0 <= it < 3 else rng.choice([2, 3, 5, 8, 20, 60, ctx.scale(150, 400)])
            xv, carrier, kind, is_int = snorm_argument(n)
            if is_int and n > 60:
                n = 60
                xv = xv[:n]
            meth = rng.choice(["average", "average", "min", "max", "sorted", "first", "dense"])
            if preset is not None:
                xv, carrier, kind, is_int = [int(v) for v in preset["x"]], preset["carrier"], "corpus", True
                n, meth = len(xv), preset.get("method", meth)
            cst = rng.choice([0.0, 0.0, 0.3, 0.375, 0.5, rng.uniform(0, 0.5)])
            # standard_normal does not check cst: outside [0, 0.5] (excluded by hypothesis in the theorems, see
            # normal_scores_argument_cst_needed) the real code is compared with the model only
            cst_outside = rng.random() < 0.03 and not is_int     # (exact rationals have no inf / NaN for a zero denominator)
            if cst_outside:
                cst = rng.choice([1.0, -0.5, 0.75, 2.0, 0.5000000000000001])
            if meth == "sorted":
                xv = sorted(xv, key=lambda v: (v != v, v))
            xarg = snorm_wrap(xv, carrier)
            has_nan = any(v != v for v in xv)
            shown = [v if is_int else float(v) for v in xv]
            case = {"x": shown if n <= 30 else shown[:30] + ["..."], "n": n, "cst": cst, "method": meth, "kind": kind, "carrier": carrier}
            holder = {}

            def step(sg):
                try:
                    if meth == "sorted":
                        un, rk = sutils.standard_normal(xarg, cst, sorted=True)
                    else:
                        un, rk = sutils.standard_normal(xarg, cst, rank_method=meth)
                    holder["raw"] = (un, rk)
                    un = [float(v) for v in np.asarray(un, dtype=float).ravel()]
                    rk = [float(v) for v in np.asarray(rk, dtype=float).ravel()]
                    impl = ("ok", un, rk)
                except Exception as e:
                    impl = ("err", None, None)
                    err_name = type(e).__name__
                if is_int:
                    add(f"snormq {meth} {C.rat(cst)} {C.ilist(xv)}", "snormq", impl, case)
                else:
                    add(f"snorm {meth} {C.f2h(cst)} {C.flist(xv)}", "snorm", impl, case)
                ctx.count(("snorm", meth, cst, carrier, tuple(xv) if is_int else tuple(C.f2h(v) for v in xv)),
                          impl[0] == "ok" and n >= 2 and kind != "const",
                          (f"standard_normal/{meth}/float64/{kind}" if carrier == "float64" else f"standard_normal/{meth}/{carrier}")
                          if impl[0] == "ok" else "standard_normal/rejected")
                if impl[0] != "ok":
                    if not has_nan:
                        ctx.finding(sg + "/raises", f"standard_normal raises {err_name} on a NaN-free vector", case)
                    return
                if len(un) != n or len(rk) != n:
                    ctx.finding(sg + "/wrong_length", "standard_normal does not return one score and one rank per value", case)
                    return
                if cst_outside:
                    ctx.hist["standard_normal/cst_outside_[0,0.5]"] = ctx.hist.get("standard_normal/cst_outside_[0,0.5]", 0) + 1
                    return
                # ---- oracle: scores strictly increasing in the rank, ranks ordered as the (exact) data
                order = sorted(range(n), key=lambda i: (rk[i], un[i]))
                for i, j in zip(order, order[1:]):
                    if (rk[i] < rk[j]) != (un[i] < un[j]) or (rk[i] == rk[j]) != (un[i] == un[j]):
                        ctx.finding(sg + "/score_not_increasing_in_rank",
                                    "normal scores are not a strictly increasing function of the ranks",
                                    {**case, "ranks": [rk[i], rk[j]], "scores": [un[i], un[j]]})
                        break
                if meth == "first":
                    # ties are ranked in the order they appear: ranks (and scores) increase along (value, position)
                    order = sorted(range(n), key=lambda i: (xv[i], i))
                    for i, j in zip(order, order[1:]):
                        if not (rk[i] < rk[j] and un[i] < un[j]):
                            ctx.finding(sg + ("/integer_data" if is_int else "") + "/first/ranks_not_order_preserving",
                                        "rank_method='first': ranks (or scores) do not increase with the value and, among equal values, with the position",
                                        {**case, "values": [shown[i], shown[j]], "positions": [i, j], "ranks": [rk[i], rk[j]], "scores": [un[i], un[j]]})
                            break
                elif meth != "sorted":
                    order = sorted(range(n), key=lambda i: (xv[i] if xv[i] == xv[i] else 0, rk[i]))
                    for i, j in zip(order, order[1:]):
                        if (xv[i] < xv[j]) != (rk[i] < rk[j]) or (xv[i] == xv[j]) != (rk[i] == rk[j]) or \
                                (xv[i] < xv[j]) != (un[i] < un[j]):
                            ctx.finding(sg + ("/integer_data" if is_int else "") + "/ranks_not_order_preserving",
                                        "ranks (or scores) do not follow the order (and ties) of the data as given",
                                        {**case, "values": [shown[i], shown[j]], "ranks": [rk[i], rk[j]], "scores": [un[i], un[j]]})
                            break

            step('standard_normal')
            # history: the caller edits the result it was handed in place, then asks again with equal arguments
            if "raw" in holder and rng.random() < 0.3:
                how = edit_in_place(holder.pop("raw"), rng)
                if how is not None:
                    ctx.hist['standard_normal/caller_edit/' + how] = ctx.hist.get('standard_normal/caller_edit/' + how, 0) + 1
                    step('standard_normal/after_caller_edit')

    for f in sorted((C.ROOT / "corpus" / PID).glob("*.json")):
        import json as _json
        c = _json.loads(f.read_text())
        if c.get("entry") == "standard_normal":
            for case_ in c["cases"]:
                attempt('standard_normal', lambda: snorm_case(-1, case_))
    for it in range(ctx.scale(450, 3000)):
        attempt('standard_normal', lambda: snorm_case(it))

    mark('standard_normal')
    # ================================================================ pareto_front
    shapes = [(nv, nc) for nv in (0, 1, 2, 3) for nc in (1, 2, 5)]
    def pareto_case(it, preset=None):
            nv, nc = shapes[it] if 0 <= it < len(shapes) else (rng.randint(0, 60), rng.randint(1, 5))
            kind = rng.choice(["grid", "grid", "grid2", "gauss", "dups", "chain", "neartie", "neartie"])
            if kind == "grid":
                d = [[float(rng.randint(0, 3)) for _ in range(nc)] for _ in range(nv)]
            elif kind == "grid2":
                d = [[float(rng.randint(-1, 1)) * 0.5 for _ in range(nc)] for _ in range(nv)]
            elif kind == "gauss":
                d = [[rng.gauss(0, 1) for _ in range(nc)] for _ in range(nv)]
            elif kind == "dups":
                base = [[float(rng.randint(0, 2)) for _ in range(nc)] for _ in range(max(1, nv // 3))]
                d = [list(rng.choice(base)) for _ in range(nv)]
            elif kind == "neartie":
                # points that differ from one another by a few floating-point neighbours (or 1e-11 / 1e-9 relative) in
                # some or all coordinates: distinct doubles, so strictly better / worse by the exact definition
                base = [[rng.choice([5.0, 0.3, -2.0, 1.0, 1e-11, 123456.789, -1e-7, 0.0]) for _ in range(nc)]
                        for _ in range(max(1, nv // 4))]
                d = []
                for _ in range(nv):
                    r = list(rng.choice(base))
                    mode = rng.choice(["all_up", "all_down", "some", "mixed", "exact"])
                    for k in range(nc):
                        if mode == "exact" or (mode == "some" and rng.random() < 0.5):
                            continue
                        sign = 1 if mode == "all_up" else -1 if mode == "all_down" else rng.choice([1, -1])
                        how = rng.choice(["ulps", "ulps", "rel1e-11", "rel1e-9"])
                        if how == "ulps":
                            v = r[k]
                            for _ in range(rng.choice([1, 1, 2, 7, 100, 1000])):
                                v = math.nextafter(v, math.inf * sign)
                            r[k] = v
                        else:
                            eps_ = 1e-11 if how == "rel1e-11" else 1e-9
                            r[k] = r[k] + sign * eps_ * (abs(r[k]) if r[k] != 0 else 1.0)
                    d.append(r)
            else:
                d = [[float(i + (rng.randint(0, 1) if k else 0)) for k in range(nc)] for i in range(nv)]
                rng.shuffle(d)
            # the same point set at another scale of the objective values: dominance does not depend on it
            scale_exp = 0
            if rng.random() < 0.4:
                scale_exp = rng.choice([-1, 1]) * rng.randint(1, 13)
                f_ = 10.0 ** scale_exp
                d = [[v * f_ for v in r] for r in d]
            nanmode = rng.choice(["complete", "complete", "sparse", "heavy", "row"])
            if preset is not None:
                d = [[float(v) if v is not None else float("nan") for v in r] for r in preset["data"]]
                nv, nc, kind, scale_exp, nanmode = len(d), len(d[0]), "corpus", 0, "complete"
            if nanmode != "complete" and nv > 0:
                pn = {"sparse": 0.08, "heavy": 0.45, "row": 0.0}[nanmode]
                for r in d:
                    for k in range(nc):
                        if rng.random() < pn:
                            r[k] = float("nan")
                if nanmode == "row":
                    d[rng.randrange(nv)] = [float("nan")] * nc
            o = rng.choice([1, -1])
            if preset is not None:
                o = int(preset["orientation"])
                nanmode = "complete" if all(v == v for r in d for v in r) else "sparse"
            arr = np.array(d, dtype=float).reshape(nv, nc)
            layout = rng.choice(["C", "F", "int"]) if nanmode == "complete" and kind in ("grid", "dups", "chain") and scale_exp == 0 \
                else rng.choice(["C", "F"])
            arg = np.asfortranarray(arr) if layout == "F" else arr.astype(np.int64) if layout == "int" and kind != "grid2" else arr
            case = {"data": d, "orientation": o, "layout": layout}
            holder = {}

            def step(sg):
                okc, rawres = guarded(sg, lambda: sutils.pareto_front(arg, o), case)
                holder["raw"] = rawres
                res = [int(v) for v in np.asarray(rawres).ravel()] if okc else None
                if not okc:
                    return
                if len(res) != nv:
                    ctx.finding(sg + "/wrong_length", "pareto_front does not return one flag per point", {**case, "got": res})
                    return
                add(f"pareto {o} {C.fmat(d) if nv else '[]'}", "pareto", res, case)
                ndom = sum(res)
                ctx.count(("pareto", o, tuple(map(tuple, map(lambda r: [C.f2h(v) for v in r], d)))), nv >= 2 and 0 < ndom,
                          f"pareto/{nanmode}/o={o}/" + ("none_dominated" if ndom == 0 else "all_dominated" if ndom == nv else "mixed")
                          + ("/neartie" if kind == "neartie" else "/corpus" if kind == "corpus" else "")
                          + ("/scaled_down" if scale_exp < 0 else "/scaled_up" if scale_exp > 0 else ""),
                          sample={"op": "pareto", "data": d[:4], "orientation": o, "isdominated": res[:4]})
                # ---- oracle: brute-force definition
                def better(dj, di):
                    return all((a > b if o == 1 else a < b) for a, b in zip(dj, di) if a == a and b == b)
                want = [1 if any(j != i and better(d[j], d[i]) for j in range(nv)) else 0 for i in range(nv)]
                if res != want:
                    i = next(i for i in range(nv) if res[i] != want[i])
                    ctx.finding(sg + f"/{'complete' if nanmode == 'complete' else 'nan'}/flag_differs_from_definition",
                                "a point is flagged dominated although no other point is strictly better in every non-missing "
                                "coordinate, or the converse", {**case, "index": i, "got": res[i], "definition": want[i]})
                if nanmode == "complete" and nv >= 1 and ndom == nv:
                    ctx.finding(sg + "/complete/empty_front", "every point of a complete data set is flagged dominated", case)
                okc, neg = guarded(sg, lambda: [int(v) for v in sutils.pareto_front(-arr, -o)], {**case, "negated": True})
                if okc:
                    # right-hand side of the orientation theorem, executed by the model: orientation -o on the negated rows
                    add(f"paretoneg {-o} {C.fmat(d) if nv else '[]'}", "pareto", neg, {**case, "negated": True})
                if okc and neg != res:
                    ctx.finding(sg + "/orientation_is_not_negation", "pareto_front(-data, -orientation) differs from pareto_front(data, orientation)",
                                {**case, "got": res, "negated": neg})

            step('pareto_front')
            # history: the caller edits the result it was handed in place, then asks again with equal arguments
            if "raw" in holder and rng.random() < 0.3:
                how = edit_in_place(holder.pop("raw"), rng)
                if how is not None:
                    ctx.hist['pareto_front/caller_edit/' + how] = ctx.hist.get('pareto_front/caller_edit/' + how, 0) + 1
                    step('pareto_front/after_caller_edit')

    for f in sorted((C.ROOT / "corpus" / PID).glob("*.json")):
        import json as _json
        c = _json.loads(f.read_text())
        if c.get("entry") == "pareto_front":
            for case_ in c["cases"]:
                attempt('pareto_front', lambda: pareto_case(-1, case_))
    for it in range(ctx.scale(800, 5000)):
        attempt('pareto_front', lambda: pareto_case(it))

    # ---- beyond the property's quantifier, model against code only (no oracle): ±inf coordinates (two equal infinities
    # are skipped like a missing value, theorem paretoFrontX_flag_iff / _same_infinity_skipped), orientation values other
    # than +1 / -1 (only the sign is used, paretoFront_orientation_sign), points without any coordinate
    def fmt_x(v):
        return "nan" if v != v else "inf" if v == float("inf") else "-inf" if v == float("-inf") else C.rat(v)

    for it in range(ctx.scale(150, 900)):
        def one_case():
            nv, nc = rng.randint(0, 12), rng.randint(1, 4)
            pool = [0.0, 1.0, 2.0, -1.0, 0.5, 1e308, -1e308, 5e-324, -5e-324, 1e-320, float("inf"), float("inf"), float("-inf"),
                    float("-inf"), float("nan"), 0.1, 0.30000000000000004, 0.3]
            finite_only = rng.random() < 0.35
            d = [[rng.choice([v for v in pool if not finite_only or abs(v) < float("inf") or v != v]) if rng.random() < 0.8
                  else rng.gauss(0, 1) for _ in range(nc)] for _ in range(nv)]
            o = rng.choice([1, -1, 1, -1, 2, -3, 7, 1000, 0])
            arr = np.array(d, dtype=float).reshape(nv, nc)
            case = {"data": d, "orientation": o, "stream": "pareto_front/extended"}
            try:
                res = [int(v) for v in np.asarray(sutils.pareto_front(arr, o)).ravel()]
            except Exception as e:
                if o not in (1, -1):
                    # orientations other than +1 / -1 are outside the property: code that refuses them is as good
                    ctx.count(("paretox_refused", it), False, "pareto_front/extended/orientation_refused")
                    return
                ctx.disagree("C20/paretox: pareto_front raises on an array of doubles", {**case, "error": str(e)[:200]})
                return
            has_inf = any(abs(v) == float("inf") for r in d for v in r)
            add(f"paretox {o} {C.fmat(d) if nv else '[]'}", "pareto", res, case)
            # exact rationals with a rounding to 53 bits after the subtraction and after the product (IEEE without
            # exponent limits; overflow and subnormal differences keep their sign in both, and only the sign is used)
            if nv:
                add(f"paretoxq {o} [{';'.join(','.join(fmt_x(v) for v in r) for r in d)}]", "pareto", res, case)
            if not has_inf:
                add(f"paretow 2 {o} {C.fmat(d) if nv else '[]'}", "paretond", "ok " + C.ilist(res), case)
            ctx.count(("paretox", o, tuple(map(tuple, map(lambda r: [C.f2h(v) for v in r], d)))), nv >= 2 and sum(res) > 0,
                      "pareto_front/extended/" + ("inf" if has_inf else "finite") + f"/o={'+-1' if abs(o) == 1 else '0' if o == 0 else 'other'}")
        attempt('pareto_front', one_case)
    for nv in (0, 1, 2, 3, 5):
        try:
            r_ = [int(v) for v in np.asarray(sutils.pareto_front(np.zeros((nv, 0)), 1)).ravel()]
        except Exception:
            r_ = None
        if r_ is not None and nv != 1:      # (a single row without entries has no spelling in the line protocol)
            add(f"pareto 1 [{';' * max(0, nv - 1)}]", "pareto", r_, {"shape": [nv, 0]})
        ctx.count(("pareto_nocol", nv), False, "pareto_front/no_columns/" + ("raises" if r_ is None else "all_dominated" if r_ and all(r_) else "none_dominated"))

    # ---- the wrapper's shape guard: only 2-dimensional data reach the kernel
    for arr_ in (np.arange(4.), np.arange(8.).reshape(2, 2, 2), np.array(3.0), np.arange(6.).reshape(3, 2)):
        try:
            r_ = [int(v) for v in np.asarray(sutils.pareto_front(arr_, 1)).ravel()]
            impl = "ok " + C.ilist(r_)
        except Exception:
            impl = "err"
        rows = arr_.tolist() if arr_.ndim == 2 else []
        add(f"paretond {arr_.ndim} 1 {C.fmat(rows) if rows else '[]'}", "paretond", impl, {"shape": list(arr_.shape)})
        ctx.count(("paretond", arr_.shape), False, f"pareto_front/ndim={arr_.ndim}/" + impl.split(" ")[0])

    mark('pareto_front')
    # ================================================================ box statistics
    def cov_pair():
        b = rng.choice([40.0, 50.0, 50.0, 60.5, 80.0, 95.0, 99.0, rng.uniform(40, 99.5)])
        w = rng.choice([90.0, 99.0, 100.0, 100.0, rng.uniform(b, 100.0), b + 0.5])
        if not (b < w <= 100):
            w = 100.0
        return b, w

    def box_row(prc, lab):
        """[w1,b1,med,b2,w2,mean,max,min] read by label (position among equal labels), count"""
        out = []
        for k, name in enumerate(lab):
            v = prc[name] if name in prc.index else float("nan")
            if hasattr(v, "iloc"):
                dup = [i for i, l in enumerate(lab) if l == name]
                v = v.iloc[dup.index(k)]
            out.append(float(v))
        for name in ("mean", "max", "min"):
            out.append(float(prc[name]) if name in prc.index else float("nan"))
        return int(prc["count"]), out

    def box_oracle(tag, data, b, w, cnt, row, case):
        fin = [v for v in data if v == v and abs(v) != float("inf")]
        if cnt != len(fin):
            ctx.finding(f"{tag}/count", "count is not the number of finite values", {**case, "count": cnt, "finite": len(fin)})
            return
        if len(fin) < 4:
            if any(v == v for v in row):
                ctx.finding(f"{tag}/few_values_not_nan", "statistics given for fewer than 4 finite values", {**case, "row": row})
            return
        sq = sorted(Fraction(v) for v in fin)
        scale = max(abs(fin[0]), max(abs(v) for v in fin), 1e-300)
        want = [exact_percentile(sq, p) for p in levels(b, w)]
        names = ["whisker_low", "box_low", "median", "box_high", "whisker_high"]
        for nm, got, wv in zip(names, row[:5], want):
            if not abs(Fraction(got) - wv) <= Fraction(1e-9 * scale) if got == got else True:
                ctx.finding(f"{tag}/{nm}_not_percentile", "a box statistic is not the percentile of the finite values at the level implied by the coverage",
                            {**case, "stat": nm, "got": got, "definition": float(wv)})
                return
        seq = [row[7]] + row[:5] + [row[6]]
        if any(not (a <= c + 1e-12 * scale) for a, c in zip(seq, seq[1:])):
            ctx.finding(f"{tag}/not_ordered", "min, percentiles and max are not in non-decreasing order", {**case, "row": row})
        if row[7] != min(fin) or row[6] != max(fin):
            ctx.finding(f"{tag}/minmax", "min / max are not those of the finite values", {**case, "row": row})
        mean = float(sum(sq) / len(sq))
        if not abs(row[5] - mean) <= 1e-9 * scale:
            ctx.finding(f"{tag}/mean", "mean is not the mean of the finite values", {**case, "got": row[5], "definition": mean})

    def fmt_row(cnt, row):
        return (cnt, row)

    box_sizes = [0, 1, 2, 3, 4, 5, 6]
    for it in range(ctx.scale(550, 3500)):
        def one_case():
            n = box_sizes[it] if it < len(box_sizes) else rng.choice([4, 5, 7, 10, 25, 80, rng.randint(0, ctx.scale(300, 700))])
            x, kind = gen_column(rng, n)
            x, hmode = poke_holes(rng, x)
            b, w = cov_pair()
            lab = labels(b, w)
            if len(set(lab)) < 5 and rng.random() < 0.8:
                b, w = 50.0, 90.0
                lab = labels(b, w)
            xa = np.array(x, dtype=float)
            case = {"data": x if n <= 40 else x[:40] + ["..."], "n": n, "box_coverage": b, "whiskers_coverage": w, "kind": kind, "holes": hmode}
            holder = {}

            def step(sg):
                okc, prc = guarded(sg, lambda: boxplot.boxplot_stats(xa, b, w), case)
                holder["raw"] = prc
                if not okc:
                    return
                cnt, row = box_row(prc, lab)
                add(f"box {C.f2h(b)} {C.f2h(w)} {C.flist(xa)}", "box", (cnt, row), case)
                ctx.count(("box", b, w, tuple(C.f2h(v) for v in x)), cnt > 3 and kind != "const",
                          f"boxplot_stats/{'<4' if cnt < 4 else '4+'}/{kind}/holes={hmode}",
                          sample={"op": "boxplot_stats", "data": x[:8], "box": b, "whiskers": w, "count": cnt, "row": row})
                box_oracle(sg, x, b, w, cnt, row, case)
                # exact-rational percentile of the model on small complete columns
                fin = [v for v in x if v == v and abs(v) != float("inf")]
                if 4 <= len(fin) <= 12 and it % 4 == 0:
                    p = float(100 - w) / 2
                    add(f"pctq {C.rat(p)} [{','.join(C.rat(v) for v in fin)}]", "pctq", row[0], case)
                    add(f"pct {C.f2h(p)} {C.flist(fin)}", "pct", row[0], case)

            step('boxplot_stats')
            # history: the caller edits the result it was handed in place, then asks again with equal arguments
            if "raw" in holder and rng.random() < 0.3:
                how = edit_in_place(holder.pop("raw"), rng)
                if how is not None:
                    ctx.hist['boxplot_stats/caller_edit/' + how] = ctx.hist.get('boxplot_stats/caller_edit/' + how, 0) + 1
                    step('boxplot_stats/after_caller_edit')
        attempt('boxplot_stats', one_case)

    # coverages outside [0, 100] reach numpy's range check only when there are 4+ finite values
    for (x, b, w) in [([1., 2, 3, 4, 5], 50., 101.), ([1., 2, 3], 50., 101.), ([1., 2, 3, 4], 120., 130.), ([1., 2, 3, 4], -10., 90.)]:
        try:
            boxplot.boxplot_stats(np.array(x), b, w)
            impl = "ok"
        except Exception:
            impl = "err"
        add(f"box {C.f2h(b)} {C.f2h(w)} {C.flist(x)}", "box_malformed", impl, {"data": x, "box_coverage": b, "whiskers_coverage": w})
        ctx.count(("box_malformed", tuple(x), b, w), False, "boxplot_stats/malformed/" + impl)
    for (b, w) in [(39.9, 90.), (40., 90.), (50., 50.), (50., 49.), (60., 60.0000001), (float(40 - 1e-12), 99.)]:
        try:
            boxplot.Boxplot(np.arange(10.), box_coverage=b, whiskers_coverage=w)
            impl = "ok"
        except Exception:
            impl = "err"
        add(f"boxcheck {C.f2h(b)} {C.f2h(w)}", "boxcheck", impl, {"box_coverage": b, "whiskers_coverage": w})
        ctx.count(("boxcheck", b, w), False, "Boxplot/coverage_guard/" + impl)

    mark('boxplot_stats')
    # ---- Boxplot(df).stats : one column of statistics per data column
    for it in range(ctx.scale(90, 600)):
        def one_case():
            n = rng.choice([0, 1, 3, 4, 5, 12, 40, rng.randint(0, ctx.scale(200, 500))])
            ncol = rng.randint(1, 4)
            colsd = {}
            for j in range(ncol):
                x, kind = gen_column(rng, n)
                x, _ = poke_holes(rng, x)
                colsd[f"c{j}"] = x
            b, w = cov_pair()
            lab = labels(b, w)
            if len(set(lab)) < 5:
                b, w = 50.0, 90.0
                lab = labels(b, w)
            df = pd.DataFrame(colsd, dtype=float)
            kw = {}
            with_history = rng.random() < 0.7
            if with_history:
                kw = {"style": rng.choice(["default", "default", "narrow"]), "show_mean": rng.random() < 0.4,
                      "show_median": rng.random() < 0.8, "show_text": rng.random() < 0.4,
                      "center_text": rng.random() < 0.5, "width_from_count": rng.random() < 0.3}
            okc, bx = guarded("Boxplot(df)", lambda: boxplot.Boxplot(df, box_coverage=b, whiskers_coverage=w, **kw),
                              {"data": {k: v[:40] for k, v in colsd.items()}, "box_coverage": b, "whiskers_coverage": w})
            if not okc:
                return

            def check_df(st, via, tag):
                for cn, x in colsd.items():
                    case = {"data": x if n <= 40 else x[:40] + ["..."], "n": n, "box_coverage": b, "whiskers_coverage": w, "via": via}
                    if n == 0:
                        if st.shape[0] != 0:
                            ctx.finding("Boxplot.stats/empty_frame", "statistics given for an empty frame", case)
                        continue
                    if cn not in st.columns or "count" not in st.index:
                        ctx.finding(f"{tag}/column_missing", "a data column (or its count) is missing from Boxplot(...).stats", case)
                        continue
                    cnt, row = box_row(st[cn], lab)
                    add(f"box {C.f2h(b)} {C.f2h(w)} {C.flist(x)}", "box", (cnt, row), case)
                    ctx.count(("boxdf", via, b, w, tuple(C.f2h(v) for v in x)), cnt > 3, via.split(" after ")[0] + ("/after_methods" if " after " in via else "") + ("/<4" if cnt < 4 else "/4+"))
                    box_oracle(tag, x, b, w, cnt, row, case)

            check_df(bx.stats, "Boxplot(df).stats", "Boxplot.stats/columns")
            # the whole frame at once: guards, one column of statistics per data column, nothing for a frame without rows
            st0 = bx.stats
            if n == 0 or ("count" in st0.index and all(cn in st0.columns for cn in colsd)):
                impl_df = [] if n == 0 and st0.shape[0] == 0 else [box_row(st0[cn], lab) for cn in colsd]
                add(f"boxdf {C.f2h(b)} {C.f2h(w)} {ncol} {C.fmat(list(colsd.values())) if n else '[]'}", "boxdf", impl_df,
                    {"data": {k: v[:40] for k, v in colsd.items()}, "box_coverage": b, "whiskers_coverage": w})
            if with_history and n > 0:
                ops, canon, flags = box_history(bx, rng, plt)
                for o in ops:
                    ctx.hist["Boxplot.method/" + o] = ctx.hist.get("Boxplot.method/" + o, 0) + 1
                add(f"boxhist 0 1 1 [{','.join(canon)}]", "boxhist", flags, {"ops": ops, "labels": "strings"})
                ctx.count(("boxhist", tuple(canon)), 0 in flags, "Boxplot/history/" + ("with_refused_call" if 0 in flags else "all_accepted"))
                check_df(bx.stats, "Boxplot(df).stats after " + ",".join(ops), "Boxplot.stats/columns/after_methods")
        attempt('Boxplot(df)', one_case)

    mark('Boxplot(df)')
    # ---- Boxplot(x, by=...).stats : group-wise == each group taken alone
    def by_case(x, cats, b, w, tag, history=False, relabel=None):
        """returns [(impl, case), ...]: one entry right after construction and, with `history`, one more after
        other public methods of the same object were called"""
        lab = labels(b, w)
        xa = np.array(x, dtype=float)
        case = {"data": x if len(x) <= 40 else x[:40] + ["..."], "by": cats if len(cats) <= 40 else cats[:40] + ["..."],
                "box_coverage": b, "whiskers_coverage": w}
        kw = {}
        if history:
            kw = {"style": rng.choice(["default", "default", "narrow"]), "show_mean": rng.random() < 0.4,
                  "show_text": rng.random() < 0.4, "width_from_count": rng.random() < 0.3}
        # the labels the real code sees (integers, strings or floats in the same order) and how they are handed over
        real = [relabel[c] for c in cats] if relabel else list(cats)
        by_arg = rng.choice([lambda: np.array(real), lambda: list(real), lambda: pd.Series(real, name="grp"), lambda: pd.Series(real)])()
        okc, bx = guarded("Boxplot(by)", lambda: boxplot.Boxplot(xa, by=by_arg, box_coverage=b, whiskers_coverage=w, **kw), case)
        if not okc:
            return []
        groups = sorted(set(cats))
        rl = (lambda g: relabel[g]) if relabel else (lambda g: g)
        str_labels = 1 if relabel and all(isinstance(v, str) for v in relabel.values()) else 0

        def read(st, tag, case):
            impl = []
            for g in groups:
                okc, alone = guarded("boxplot_stats", lambda: boxplot.boxplot_stats(xa[np.array(cats) == g], b, w), {**case, "group": g})
                if not okc:
                    continue
                cnt_a, row_a = box_row(alone, lab)
                if rl(g) not in st.columns or "count" not in st.index:
                    ctx.finding(f"{tag}/group_missing", "a category has no column in Boxplot(...).stats", {**case, "group": g})
                    continue
                col = st[rl(g)]
                if len(set(lab)) == 5:
                    cnt, row = box_row(col, lab)
                else:
                    # colliding labels: pivot_table has merged rows; read what is there by label
                    cnt = int(col["count"])
                    row = [float(col[name]) if name in col.index else float("nan") for name in lab] + \
                          [float(col[name]) if name in col.index else float("nan") for name in ("mean", "max", "min")]
                impl.append((g, cnt, row))
                # count / min / max exact; percentiles: interpolation of two order statistics, 2 ulp;
                # mean: another summation order is allowed, budget n * 2^-52 * sum|x| / n (condition-scaled)
                fin_g = [v for v, c in zip(x, cats) if c == g and v == v and abs(v) != float("inf")]
                mean_budget = 2.0 ** -52 * sum(abs(v) for v in fin_g)

                def nan_eq(p, q):
                    return (p != p and q != q) or p == q
                same = cnt == cnt_a and nan_eq(row[6], row_a[6]) and nan_eq(row[7], row_a[7]) and \
                    all(nan_eq(p, q) or C.ulp_diff(p, q) <= 2 for p, q in zip(row[:5], row_a[:5])) and \
                    (nan_eq(row[5], row_a[5]) or abs(row[5] - row_a[5]) <= mean_budget)
                if not same:
                    sig = f"{tag}/percentile_label_collision" if len(set(lab)) < 5 else f"{tag}/group_differs_from_group_alone"
                    ctx.finding(sig, "group-wise statistics differ from those of the group taken alone"
                                + (" (two percentile levels print to the same one-decimal label and pivot_table averages them)" if len(set(lab)) < 5 else ""),
                                {**case, "group": g, "grouped": row, "alone": row_a, "labels": lab})
                if len(set(lab)) == 5:
                    box_oracle(tag, [v for v, c in zip(x, cats) if c == g], b, w, cnt, row, {**case, "group": g})
            return impl

        out = [(read(bx.stats, tag, case), case)]
        if history:
            ops, canon, flags = box_history(bx, rng, plt)
            for o in ops:
                ctx.hist["Boxplot.method/" + o] = ctx.hist.get("Boxplot.method/" + o, 0) + 1
            # set_color hands the group labels to re.search, which refuses numbers
            add(f"boxhist 0 1 {str_labels} [{','.join(canon)}]", "boxhist", flags, {"ops": ops, "labels": "strings" if str_labels else "numbers"})
            ctx.count(("boxhist_by", tuple(canon)), 0 in flags, "Boxplot/history/" + ("with_refused_call" if 0 in flags else "all_accepted"))
            case2 = {**case, "after_methods": ops}
            out.append((read(bx.stats, tag + "/after_methods", case2), case2))
        return out

    for it in range(ctx.scale(180, 1200)):
        def one_case():
            n = rng.choice([2, 5, 9, 20, 60, rng.randint(2, ctx.scale(300, 600))])
            ncat = rng.randint(2, 5)
            weights = [rng.choice([1, 1, 3, 10]) for _ in range(ncat)]
            labs = rng.sample([-3, 0, 1, 2, 7, 10, 11, 25], ncat)
            # labels of another type: groupby sorts them, the model sees their position in that order
            label_type = rng.choice(["int"] * 4 + ["str", "float"])
            cats = rng.choices(labs, weights=weights, k=n)
            if len(set(cats)) < 2:
                cats[0] = labs[0]
                cats[-1] = labs[1]
            if rng.random() < 0.3:
                cats = sorted(cats)
            x, kind = gen_column(rng, n)
            x, _ = poke_holes(rng, x)
            b, w = cov_pair()
            if len(set(labels(b, w))) < 5:
                b, w = 50.0, 90.0
            sizes_g = sorted(cats.count(g) for g in set(cats))
            order_ = sorted(set(cats))
            relabel = None
            if label_type == "str":
                names_ = sorted(rng.sample(["a", "b", "c", "d", "e", "f", "g", "h", "i", "j", "k", "l", "m", "n"], ncat) if rng.random() < 0.5 else [f"cat {i:02d}" for i in range(ncat)])
                relabel = dict(zip(order_, names_))
            elif label_type == "float":
                relabel = {c: c + 0.5 for c in order_}
            for k, (impl, case) in enumerate(by_case(x, cats, b, w, "Boxplot.stats/by", history=rng.random() < 0.7, relabel=relabel)):
                add(f"boxby {C.f2h(b)} {C.f2h(w)} {C.ilist(cats)} {C.flist(x)}", "boxby", impl, case)
                ctx.count(("boxby", k, b, w, tuple(cats), tuple(C.f2h(v) for v in x)), any(c > 3 for (_, c, _) in impl),
                          f"Boxplot(by).stats/{len(set(cats))}cats/" + ("unequal" if sizes_g[0] != sizes_g[-1] else "equal") + ("/after_methods" if k else "")
                          + ("" if label_type == "int" else "/labels=" + label_type),
                          sample={"op": "Boxplot(by).stats", "by": cats[:10], "data": x[:10], "groups": [(g, c) for g, c, _ in impl]})
        attempt('Boxplot(by)', one_case)
    # one category only is rejected
    try:
        boxplot.Boxplot(np.arange(6.), by=np.zeros(6, dtype=int))
        impl = "ok"
    except Exception:
        impl = "err"
    add(f"boxby {C.f2h(50.)} {C.f2h(90.)} [0,0,0,0,0,0] {C.flist(np.arange(6.))}", "boxby_malformed", impl, {"by": [0] * 6})
    ctx.count(("boxby_malformed",), False, "Boxplot(by)/one_category/" + impl)
    # two levels that print to the same label (inside the quantifier: whiskers coverage just above box coverage)
    xs = [float(i * i) for i in range(40)]
    attempt("Boxplot(by)", lambda: by_case(xs, [0] * 15 + [1] * 25, 89.96, 90.0, "Boxplot.stats/by"))
    ctx.count(("boxby_collision",), True, "Boxplot(by).stats/label_collision")

    mark('Boxplot(by)')
    # ================================================================ violin
    vreqs2 = []

    def violin_rows(st, cn):
        """Q0, Q25, median, Q75, Q100 of a column: by label when the five labels are there, else in row order"""
        names = ["Q0", "Q25", "median", "Q75", "Q100"]
        if all(nm in st.index for nm in names):
            return [float(st.loc[nm, cn]) for nm in names]
        return [float(st[cn].iloc[r]) for r in range(5)]
    for it in range(ctx.scale(160, 1100)):
        def one_case():
            n = [0, 1, 2, 3, 4][it] if it < 5 else rng.choice([3, 4, 6, 15, 40, 101, rng.randint(0, ctx.scale(250, 500))])
            ncol = rng.randint(1, 3)
            colsd = {}
            for j in range(ncol):
                x, kind = gen_column(rng, n)
                x, _ = poke_holes(rng, x)
                colsd[f"v{j}"] = x
            npk = rng.choice([None, None, 10, 11, 25, 40])
            if n > 120 and npk is None and not ctx.thorough and rng.random() < 0.5:
                npk = 20
            df = pd.DataFrame(colsd, dtype=float)
            np.random.seed(rng.randrange(2 ** 32))
            try:
                with Draws() as dr:
                    vl = violinplot.Violin(df, npoints_kde=npk)
            except Exception as e:
                npts_e = npk if npk is not None else max(100, min(500, n))

                def fins(x):
                    return [v for v in x if v == v and abs(v) != float("inf")]
                const = any(len(fins(x)) >= 3 and min(fins(x)) == max(fins(x)) for x in colsd.values())
                prof = any(len(fins(x)) >= 3 for x in colsd.values())
                sig = "Violin/constant_column_raises" if const else "Violin/odd_npoints_kde_raises" if (npts_e % 2 == 1 and prof) else "Violin/raises"
                ctx.finding(sig, f"Violin(...) raises {type(e).__name__} on a frame of finite/NaN/inf columns",
                            {"data": {k: (v if n <= 40 else v[:40] + ["..."]) for k, v in colsd.items()}, "npoints_kde": npk, "error": str(e)[:200]})
                ctx.count(("violin_raises", it), False, "Violin/raises")
                return
            npts = vl.npoints_kde
            add(f"vnpts {npk if npk is not None else 'none'} {n}", "vnpts", int(npts), {"npoints_kde": npk, "rows": n})
            st, kx, ky = vl.stats, vl.kde_x, vl.kde_y
            icall = 0
            for cn, x in colsd.items():
                case = {"data": x if n <= 40 else x[:40] + ["..."], "n": n, "npoints_kde": npts}
                if st.shape[0] != 5:
                    ctx.finding("Violin.stats/shape", "Violin.stats does not have the five rows Q0, Q25, median, Q75, Q100", {**case, "rows": list(st.index)})
                    continue
                got = violin_rows(st, cn)
                add(f"vstats {C.flist(x)}", "vstats", got, case)
                fin = [v for v in x if v == v and abs(v) != float("inf")]
                has_profile = not bool(kx[cn].isnull().all())
                ctx.count(("violin", npts, tuple(C.f2h(v) for v in x)), has_profile,
                          "Violin/" + ("profile" if has_profile else "no_profile") + f"/finite={'0' if not fin else '1-2' if len(fin) < 3 else '3+'}",
                          sample={"op": "Violin", "data": x[:8], "stats": got, "npoints_kde": npts})
                # ---- oracle: quantiles of the finite values
                if not fin:
                    if any(v == v for v in got):
                        nonfin = any(v == v for v in x)
                        ctx.finding("Violin.stats/with_inf/not_quantiles_of_finite_values" if nonfin else "Violin.stats/no_finite_value_not_nan",
                                    "quantiles given for a column without finite values", {**case, "stats": got})
                else:
                    sq = sorted(Fraction(v) for v in fin)
                    scale = max(max(abs(v) for v in fin), 1e-300)
                    want = [exact_percentile(sq, p) for p in (0, 25, 50, 75, 100)]
                    if any(not (g == g and abs(Fraction(g) - wv) <= Fraction(1e-9 * scale)) for g, wv in zip(got, want)):
                        nonfin = any(v == v and abs(v) == float("inf") for v in x)
                        ctx.finding("Violin.stats/" + ("with_inf/" if nonfin else "") + "not_quantiles_of_finite_values",
                                    "Violin quantiles are not those of the finite values of the column",
                                    {**case, "stats": got, "definition": [float(v) for v in want]})
                err = None
                if has_profile:
                    if icall < len(dr.out):
                        err = [1e-6 * v for v in dr.out[icall]]
                    icall += 1
                    xs_, ys_ = [float(v) for v in kx[cn]], [float(v) for v in ky[cn]]
                    ok_shape = len(xs_) == npts and all(v == v for v in xs_)
                    if not ok_shape:
                        ctx.finding("Violin.kde/rows_unfilled", "the density profile does not fill npoints_kde rows", {**case, "kde_x": xs_[:6]})
                    if any(a > c for a, c in zip(xs_, xs_[1:])) or (fin and (xs_[0] < min(fin) - 2e-6 or xs_[-1] > max(fin) + 2e-6)):
                        ctx.finding("Violin.kde/abscissae", "profile abscissae are not sorted within the range of the finite values", {**case, "kde_x": xs_[:6]})
                    if all(v == v for v in ys_):
                        if min(ys_) != 0.0 or max(ys_) != 1.0 or any(not (0 <= v <= 1) for v in ys_):
                            ctx.finding("Violin.kde/not_normalised", "density profile is not normalised to [0, 1] with both ends attained",
                                        {**case, "min": min(ys_), "max": max(ys_)})
                    elif npts >= 10:
                        ctx.finding("Violin.kde/nan_profile", "density profile holds NaN", {**case, "kde_y": ys_[:6], "kde_x": xs_[:6]})
                    vreqs2.append((x, npts, err, xs_, ys_, case))
                else:
                    if len(fin) >= 3 and min(fin) < max(fin):
                        ctx.finding("Violin.kde/profile_missing", "no density profile for a non-constant column with 3+ finite values", case)
                    add(f"vgrid {C.f2h(1e-10)} {npts} [] {C.flist(x)}", "vgrid_none", "none", case)
            # ---- the summaries must still be the sample statistics after other public methods were called
            if st.shape[0] == 5 and n > 0 and rng.random() < 0.7:
                ops = violin_history(vl, rng, plt)
                for o in ops:
                    ctx.hist["Violin.method/" + o] = ctx.hist.get("Violin.method/" + o, 0) + 1
                st2, kx2, ky2 = vl.stats, vl.kde_x, vl.kde_y
                for cn, x in colsd.items():
                    case = {"data": x if n <= 40 else x[:40] + ["..."], "n": n, "npoints_kde": npts, "after_methods": ops}
                    same = st2.shape == st.shape and kx2.shape == kx.shape and ky2.shape == ky.shape and all(
                        np.array_equal(np.asarray(a[cn], dtype=float), np.asarray(c[cn], dtype=float), equal_nan=True)
                        for a, c in ((st, st2), (kx, kx2), (ky, ky2)))
                    if not same:
                        ctx.finding("Violin/summaries_changed_by_methods", "Violin stats / kde_x / kde_y differ after draw / reset_items / item setters were called",
                                    {**case, "stats_before": [float(v) for v in st[cn]], "stats_after": [float(v) for v in st2[cn]] if cn in st2.columns else None})
                    elif st2.shape[0] == 5:
                        add(f"vstats {C.flist(x)}", "vstats", violin_rows(st2, cn), case)
                        ctx.count(("violin_after", npts, tuple(ops), tuple(C.f2h(v) for v in x)), True, "Violin/after_methods")
        attempt('Violin', one_case)

    mark('Violin')
    # ---------------- correspondence, first batch
    replies = lean.ask(reqs)
    for req, rep, (kind, impl, case) in zip(reqs, replies, checks):
        ok = True
        try:
            toks = rep.split(" ")
            if kind == "lhs":
                ok = toks[0] == "ok"
                if ok:
                    cols = [[C.h2f(t) for t in r.split(",")] if r else [] for r in toks[1][1:-1].split(";")] if toks[1] != "[]" else []
                    ok = len(cols) == len(impl) and all(lists_close(a, b) for a, b in zip(cols, impl))
            elif kind == "lhsunit":
                ok = toks[0] == "ok"
                if ok:
                    smp_, mean_, cov_ = (np.array(v, dtype=float) for v in impl)
                    q = np.array([[C.h2f(t) for t in r.split(",")] if r else [] for r in toks[1][1:-1].split(";")]).T   # (n, nvars)
                    want = (mean_[:, None] + np.dot(_linalg.cholesky(cov_).T, norm.ppf(q).T)).T
                    scale = float(np.max(np.abs(want))) if want.size and np.all(np.isfinite(want)) else 1.0
                    ok = want.shape == smp_.shape and bool(np.all((np.abs(want - smp_) <= 1e-9 * max(scale, 1.0)) | (want == smp_)))
            elif kind == "lhsq":
                ok = toks[0] == "ok"
                if ok:
                    vals = [Fraction(t) for t in C.parse_list(toks[1])]
                    scale = max(abs(case["pmin"][0]), abs(case["pmax"][0]))
                    ok = len(vals) == len(impl) and all(abs(float(v) - s) <= 1e-13 * scale + 8 * math.ulp(scale) for v, s in zip(vals, impl))
            elif kind in ("lhs_malformed", "box_malformed", "boxcheck", "boxby_malformed"):
                ok = toks[0] == impl
            elif kind == "ppos":
                ok = toks[0] == impl[0] and (impl[0] == "err" or lists_close(C.parse_flist(toks[1]), impl[1], 1))
            elif kind == "pposq":
                vals = [float(Fraction(t)) for t in C.parse_list(toks[1])] if toks[0] == "ok" else None
                ok = vals is not None and len(vals) == len(impl[1]) and all(abs(a - b) <= 1e-14 for a, b in zip(vals, impl[1]))
            elif kind == "pposr":
                vals = [Fraction(t) for t in C.parse_list(toks[1])] if toks[0] == "ok" else None
                ok = vals is not None and len(vals) == len(impl[1]) and all(a == Fraction(b) for a, b in zip(vals, impl[1]))
            elif kind == "snorm":
                ok = toks[0] == impl[0]
                if ok and impl[0] == "ok":
                    u, rk = C.parse_flist(toks[1]), C.parse_flist(toks[2])
                    pu = [float(v) for v in norm.ppf(np.array(u))] if u else []
                    ok = rk == impl[2] and len(pu) == len(impl[1]) and \
                        all((a != a and b != b) or a == b or abs(a - b) <= 1e-10 * max(1.0, abs(a)) for a, b in zip(pu, impl[1]))
            elif kind == "snormq":
                ok = toks[0] == impl[0]
                if ok and impl[0] == "ok":
                    u, rk = [Fraction(t) for t in C.parse_list(toks[1])], [Fraction(t) for t in C.parse_list(toks[2])]
                    pu = [float(v) for v in norm.ppf(np.array([float(v) for v in u]))] if u else []
                    ok = len(rk) == len(impl[2]) and all(a == Fraction(b) for a, b in zip(rk, impl[2])) and len(pu) == len(impl[1]) and \
                        all((a != a and b != b) or a == b or abs(a - b) <= 1e-10 * max(1.0, abs(a)) for a, b in zip(pu, impl[1]))
            elif kind == "paretond":
                ok = (rep == impl) if impl != "err" else toks[0] == "err"
            elif kind == "pareto":
                ok = [int(t) for t in C.parse_list(rep)] == impl
            elif kind == "box":
                cnt, row = impl
                ok = toks[0] == "ok" and int(toks[1]) == cnt
                if ok:
                    if toks[2] == "nan":
                        ok = all(v != v for v in row)
                    else:
                        mv = [C.h2f(t) for t in toks[2].split(",")]
                        fin = [v for v in mv if v == v]
                        ok = all(ulps_close(a, b) for a, b in zip(mv[:5] + mv[6:], row[:5] + row[6:])) and \
                            (abs(mv[5] - row[5]) <= 1e-13 * cnt * max(abs(mv[6]), abs(mv[7]), 1e-300) or ulps_close(mv[5], row[5]))
            elif kind == "pct":
                ok = toks[0] == "ok" and ulps_close(C.h2f(toks[1]), impl)
            elif kind == "pctq":
                ok = toks[0] == "ok" and abs(float(Fraction(toks[1])) - impl) <= 1e-12 * max(1.0, abs(impl))
            elif kind == "boxby":
                ok = toks[0] == "ok"
                if ok:
                    gs = toks[1].split(";")
                    ok = len(gs) == len(impl)
                    for g, (gi, cnt, row) in zip(gs, impl):
                        k, c, vals = g.split(":")
                        if int(k) != gi or int(c) != cnt:
                            ok = False
                        elif vals == "nan":
                            ok = ok and all(v != v for v in row)
                        else:
                            mv = [C.h2f(t) for t in vals.split(",")]
                            ok = ok and all(ulps_close(a, b) for a, b in zip(mv[:5] + mv[6:], row[:5] + row[6:])) and \
                                (abs(mv[5] - row[5]) <= 1e-13 * cnt * max(abs(mv[6]), abs(mv[7]), 1e-300) or ulps_close(mv[5], row[5]))
            elif kind == "boxhist":
                ok = [int(t) for t in C.parse_list(toks[0])] == impl
            elif kind == "boxdf":
                ok = toks[0] == "ok"
                if ok:
                    gs = toks[1].split(";") if len(toks) > 1 and toks[1] else []
                    ok = len(gs) == len(impl)
                    for g, (cnt, row) in zip(gs, impl):
                        c, vals = g.split(":")
                        if int(c) != cnt:
                            ok = False
                        elif vals == "nan":
                            ok = ok and all(v != v for v in row)
                        else:
                            mv = [C.h2f(t) for t in vals.split(",")]
                            ok = ok and all(ulps_close(a, b) for a, b in zip(mv[:5] + mv[6:], row[:5] + row[6:])) and \
                                (abs(mv[5] - row[5]) <= 1e-13 * cnt * max(abs(mv[6]), abs(mv[7]), 1e-300) or ulps_close(mv[5], row[5]))
            elif kind == "vnpts":
                ok = int(toks[0]) == impl
            elif kind == "vstats":
                if rep == "ok nan":
                    ok = all(v != v for v in impl)
                else:
                    # a quantile interpolates two order statistics; formulas that are equal in exact arithmetic
                    # ((a+b)/2, a+(b-a)t, b-(b-a)(1-t)) differ by roundings of the size of those two values, which
                    # is many ulps of the RESULT when they cancel: the allowance is 4 ulps of the larger neighbour
                    mv = [C.h2f(t) for t in toks[1].split(",")] if toks[0] == "ok" else None
                    fin_s = sorted(v for v in C.parse_flist(req.split(" ")[1]) if v == v and abs(v) != float("inf"))
                    ok = mv is not None and len(mv) == len(impl) == 5
                    for a_, b_, q_ in zip(mv or [], impl, (0.0, 0.25, 0.5, 0.75, 1.0)):
                        lo_ = min(int(math.floor((len(fin_s) - 1) * q_)), len(fin_s) - 1)
                        scale_ = max(abs(fin_s[lo_]), abs(fin_s[min(lo_ + 1, len(fin_s) - 1)]))
                        ok = ok and (ulps_close(a_, b_) or abs(a_ - b_) <= 4 * math.ulp(scale_))
            elif kind == "vgrid_none":
                ok = rep == "ok none"
        except Exception:
            ok = False      # a reply / result that cannot be read is a disagreement, not a crash
        if not ok:
            ctx.disagree(f"C20/{kind}: implementation and model differ",
                         {"request": req[:1500], "impl": C.jsonable(impl) if not isinstance(impl, tuple) else repr(impl)[:1500],
                          "model": rep[:1500], **{k: v for k, v in case.items() if k not in ("perms", "unit")}})

    mark('correspondence')
    # ---------------- violin profiles: abscissae and selection from the model, kde from scipy, normalisation from the model
    reqs2 = [f"vgrid {C.f2h(1e-10)} {npts} {C.flist(err if err is not None else [])} {C.flist(x)}" for (x, npts, err, _, _, _) in vreqs2]
    rep2 = lean.ask(reqs2)
    reqs3, keep = [], []
    for (x, npts, err, xs_, ys_, case), req, rep in zip(vreqs2, reqs2, rep2):
        toks = rep.split(" ")
        if toks[0] != "ok" or toks[1] == "none":
            ctx.disagree("C20/vgrid: the model gives no profile where the code does", {"request": req[:1500], "model": rep[:300], **case})
            continue
        sel, mx = C.parse_flist(toks[1]), C.parse_flist(toks[2])
        if not lists_close(mx, xs_):
            ctx.disagree("C20/vgrid: kde_x differs", {"request": req[:1500], "impl": xs_[:12], "model": mx[:12], **case})
            continue
        try:
            yraw = gaussian_kde(np.array(sel))(np.array(xs_))
        except Exception as e:     # scipy refuses what the code accepted
            ctx.disagree(f"C20/vgrid: gaussian_kde on the model's selection fails ({type(e).__name__})", {"request": req[:1500], **case})
            continue
        reqs3.append("norm " + C.flist(yraw))
        # where the abscissae agree bit for bit the harness' kde values are the code's: the exact-rational model with every
        # operation rounded to 53 bits must then give the very doubles of kde_y (subnormal quotients apart)
        exact_r = mx == xs_ and len(yraw) <= 120 and all(v == v and abs(v) != float("inf") for v in yraw)
        if exact_r:
            reqs3.append("normr [" + ",".join(C.rat(float(v)) for v in yraw) + "]")
        keep.append((ys_, case, req, exact_r))
    mark("violin_profiles")
    rep3 = iter(lean.ask(reqs3))
    mark("violin_normalise_model")
    for (ys_, case, req, exact_r) in keep:
        toks = next(rep3).split(" ")
        my = C.parse_flist(toks[1]) if toks[0] == "ok" else None
        if my is None or len(my) != len(ys_) or not all((a != a and b != b) or abs(a - b) <= 1e-9 for a, b in zip(my, ys_)):
            ctx.disagree("C20/norm: kde_y differs from the model's normalisation of the kde", {"request": req[:800], "impl": ys_[:8], "model": (my or [])[:8], **case})
        if exact_r:
            toks = next(rep3).split(" ")
            mq = [Fraction(t) for t in C.parse_list(toks[1])] if toks[0] == "ok" else None
            # gaussian_kde is external: the harness' kde values equal the code's only if both sum the kernels in the same
            # order, which the property does not fix. Bit-for-bit agreement is therefore recorded as evidence (on the
            # unchanged code every profile agrees); a disagreement is raised only beyond the allowance of the Float instance
            if mq is None or len(mq) != len(ys_) or not all((b != b) or abs(float(a) - b) <= 1e-9 for a, b in zip(mq, ys_)):
                ctx.disagree("C20/normr: kde_y differs from the rounded normalisation of the kde", {"request": req[:800], "impl": ys_[:8], "model": [float(v) for v in (mq or [])[:8]], **case})
            exact_ = mq is not None and len(mq) == len(ys_) and all(a == Fraction(b) or (abs(b) < 1e-290 and abs(float(a) - b) < 1e-300) for a, b in zip(mq, ys_) if b == b)
            key_ = "Violin/kde_y_bit_for_bit" if exact_ else "Violin/kde_y_within_allowance_only"
            ctx.hist[key_] = ctx.hist.get(key_, 0) + 1

    mark('violin_profiles')
    ctx.extra["rule"] = __doc__.split("Cases:")[1].strip()
    ctx.assumptions += [
        "np.random.permutation returns a permutation of range(n) and np.random.uniform(low, high) = low + (high-low)*r with r in [0,1) (checked on every draw that is not injected)",
        "scipy norm.ppf is strictly increasing on (0,1) (hypothesis of the score theorems); gaussian_kde, pandas rank / groupby / pivot_table / quantile and numpy percentile partitioning are external",
        "floating point: theorems are exact-field statements; the Float instance is compared with the code within 4 ulp (means: n*1e-13 relative)",
        "±inf is not a value of the exact model: box / violin mask it before anything is computed; pareto_front and standard_normal are exercised with NaN / finite data (and a few ±inf in standard_normal)",
    ]


def main(tier, replay=None):
    return C.run_check(PID, tier, body, needs_native=True, replay=replay,
                       trusted=["numpy RNG, linspace/percentile internals (partition), pandas rank/groupby/pivot_table/quantile, scipy norm.ppf and gaussian_kde (external)",
                                "Cython wrapper c_hydrodiy_stat.pareto_front (vendored generated C, rebuilt with the working tree's c_paretofront.c)"])
