"""C18 — computations leave their arguments untouched and are repeatable  (PARTIAL: see `level_partial`).

Model: lean/HydroVerif/Model/C18.lean (buffer-ownership DSL, one term per kernel-facing wrapper);
theorems: lean/HydroVerif/Props/C18.lean (generic soundness of the syntactic check `Safe`, contents unchanged,
repeatability of the model, `Safe` per wrapper).

Correspondence (ties the DSL terms to the wrapper bodies that exist): a recorder shim replaces every function of
the freshly built extension modules c_hydrodiy_data / c_hydrodiy_stat / c_hydrodiy_gis (module attributes are
looked up at call time by the Python wrappers). While one top-level wrapper call is in progress it records, for
every kernel call and every ndarray argument, (i) which caller buffer it shares memory with (np.shares_memory
against every array that existed before the call: the arguments, the arrays of Grid/Catchment arguments and
receivers, FLOWDIRCODE) and (ii) whether its bytes changed across the kernel call. The model driver is asked
`run <wrapper> <kinds>` for the same wrapper and the same kinds (viewable?, dtype, C-contiguous?) of every caller
buffer; the sequence of kernel calls and the aliasing of every argument must be identical, and a buffer observed
to change must be flagged as written in the model (kernel write-sets).

Correspondence, round 7: (i) every third repetition the same call is made again with every array of the caller set
read-only: it must make the same kernel calls with the same aliasing (and the model's `nthCall` must say so: `repeat`)
unless the model has a Python-level store into a caller buffer (`pywritten`), in which case numpy's read-only error is
required — this ties the `pywrite` statements and the pure-Python terms (absolute_peak_error, lag, monthly2daily,
gsmooth, YeoJohnson.forward, lstsq, acf, iqr, kde, lhs) to the code; (ii) the caller buffers the returned object shares memory
with = the model's `results` (`returned_private`; incl. what Grid.data setter / clip / clone / apply / Catchment.__init__
store); (iii) dtype of Grid arguments after the call = the model's `retyped`; (iv) numpy's generator state changed =>
caller 9 (`rngState`) is in the written set. Object histories (`objects`): random operation lists on ONE Catchment,
every step compared with the object-level model (Model/C18Obj.lean, `hist` request: raised?, None-ness, re-assigned
attributes, aliasing between attributes, stores) + a frame oracle and a twin-object oracle; `grid_objects`: the same for
Grid receivers (model-free: arrays given to / got from EARLIER calls keep their bytes and share no memory with the grid).

Oracle (the failing-input search, and the ONLY coverage for functions that never reach a kernel and for
repeatability of the real code): every public function of the property's quantifier x input kinds x two
consecutive calls with the same numpy seed and the SAME argument objects: byte-wise snapshot (values, dtype,
shape, strides, the base buffer of strided views; pandas index/columns/dtypes; Grid cell values and geometry;
Catchment state; transform parameters) of every argument before and after each call, and deep bit-wise
equality of the two results; then a third call with OTHER data of the same kinds (same receiver): the first
result object must still hold its snapshot and share no buffer with the third result.
Histories (`histories`): call -> overwrite the result -> call; call A -> calls B with other data and the same options,
among them a REJECTED one when the generator yields one (entries with a capacity argument: looked for on purpose), and
A's own arguments spoiled -> call A again; edit arguments in place -> call; deep copy -> call; every answer compared
with a pristine interpreter.

Cases: input kinds = C-contiguous 64-bit (float64 / int64), series given as [n,1] arrays (contiguous, or one
column of a wider table) or [1,n], strided view (every other element of a larger
buffer), reversed (1-D, negative stride) or Fortran-ordered (2-D), float32 (float64 for integer data), int64,
int32, python list, pandas Series / DataFrame with a non-default index; first all data arguments in the same
kind, then random mixtures. A function may reject a kind with an exception (counted as rejected) provided its
arguments are unchanged; it must accept its canonical kind. A case is non-trivial when the call is accepted.
"""
import contextlib
import os
import struct
import warnings

# numpy / scipy are imported later (inside `load`): one BLAS / OpenMP thread. gaussian_kde on 25 points is ten times
# SLOWER with a thread pool (16 spinning threads on a shared machine), and the forked reference processes must not
# inherit a pool anyway
for _v in ("OPENBLAS_NUM_THREADS", "OMP_NUM_THREADS", "MKL_NUM_THREADS"):
    os.environ.setdefault(_v, "1")

from . import common as C

PID = "C18"

KINDS = ["c64", "strided", "revF", "flt", "i64", "i32", "list", "pandas", "col", "colslice", "row"]


# ----------------------------------------------------------------------------------------------
# input kinds
class Arg:
    """one argument of a case. nature: 'float' | 'int' (array-like data, varied over KINDS) | 'fixed' (passed as is,
    still snapshotted) | 'receiver' (the object a mutator method is called on: passed as is, NOT snapshotted) |
    'work' (a caller-supplied output / work buffer: passed as is, NOT snapshotted, the SAME object in later calls)"""

    def __init__(self, name, value, nature="float", kinds=None):
        self.name, self.value, self.nature, self.kinds = name, value, nature, kinds


def variant(np, pd, base, kind, nature):
    """-> (object handed to the function, keep-alive). `base` is a float64 / int64 ndarray (1-D or 2-D)."""
    nat = np.float64 if nature == "float" else np.int64
    a = np.ascontiguousarray(np.array(base).astype(nat))
    if kind == "c64" or (kind in ("col", "colslice", "row") and a.ndim != 1):
        return a, None
    if kind == "col":           # a series documented as [n] or [n,1]: one column, C-contiguous
        return a.reshape(-1, 1).copy(), None
    if kind == "colslice":      # ... one column of a wider table (not contiguous)
        big = np.zeros((a.shape[0], 3), dtype=nat) + (7 if nature == "int" else 0.123)
        big[:, 1] = a
        return big[:, 1:2], big
    if kind == "row":           # ... one row
        return a.reshape(1, -1).copy(), None
    if kind == "strided":
        if a.ndim == 1:
            big = np.zeros(2 * a.shape[0] + 1, dtype=nat) + (7 if nature == "int" else 0.123)
            big[::2][:a.shape[0]] = a
            return big[::2][:a.shape[0]], big
        big = np.zeros((a.shape[0], 2 * a.shape[1] + 1), dtype=nat) + (7 if nature == "int" else 0.123)
        big[:, ::2][:, :a.shape[1]] = a
        return big[:, ::2][:, :a.shape[1]], big
    if kind == "revF":
        if a.ndim == 1:
            big = a[::-1].copy()
            return big[::-1], big
        return np.asfortranarray(a), None
    if kind == "flt":
        return (a.astype(np.float32) if nature == "float" else a.astype(np.float64)), None
    if kind in ("i64", "i32"):
        with np.errstate(invalid="ignore"):
            return np.round(np.nan_to_num(a)).astype(np.int64 if kind == "i64" else np.int32), None
    if kind == "list":
        return a.tolist(), None
    if kind == "pandas":
        if a.ndim == 1:
            return pd.Series(a, index=[f"r{i}" for i in range(len(a))], name="v"), None
        return pd.DataFrame(a, index=[f"r{i}" for i in range(a.shape[0])],
                            columns=[f"c{j}" for j in range(a.shape[1])]), None
    raise ValueError(kind)


def inject(np, rng, base, mode):
    """missing / infinite values at the start, in the middle, at the end and at a random place of float data.
    NaNs come with both signs and a non-default payload: snapshots are compared bit for bit."""
    a = np.array(base, dtype=np.float64)
    if mode == "none" or a.size == 0:
        return a
    flat = a.reshape(-1)
    nans = [np.nan, -np.nan, np.array([0x7ff8000000000123], dtype=np.uint64).view(np.float64)[0]]
    infs = [np.inf, -np.inf]
    pool = {"nan": nans, "inf": infs, "naninf": nans + infs}[mode]
    for pos in {0, flat.size // 2, flat.size - 1, rng.randrange(flat.size)}:
        flat[pos] = rng.choice(pool)
    return a


# ----------------------------------------------------------------------------------------------
# snapshots and deep equality
def fbits(x):
    return struct.pack(">d", float(x))


class Snap:
    def __init__(self, H, values_only=False):
        # values_only: for RESULTS compared across processes / histories (dtype, shape, values; not the memory layout,
        # which legitimately depends on pandas' copy-on-write history)
        self.H, self.values_only = H, values_only

    def arr(self, x):
        np = self.H.np
        if x.dtype == object:
            return ("ndobj", x.shape, [self.snap(v) for v in x.ravel().tolist()])
        if self.values_only:
            return ("nd", x.dtype.str, tuple(x.shape), None, x.tobytes(), None)
        base = x.base if isinstance(x.base, np.ndarray) and x.base.dtype != object else None
        return ("nd", x.dtype.str, tuple(x.shape), tuple(x.strides), x.tobytes(),
                None if base is None else base.tobytes())

    def index(self, ix):
        try:
            v = ix.values
            if v.dtype != object:
                return ("idx", str(ix.dtype), v.tobytes(), repr(getattr(ix, "name", None)))
        except Exception:
            pass
        return ("idx", str(ix.dtype), repr(list(ix)), repr(getattr(ix, "name", None)))

    def cells(self, data):
        return [v for v in data.ravel().tolist()]

    def snap(self, x, depth=0):
        H = self.H
        np, pd = H.np, H.pd
        if x is None or isinstance(x, (bool, str, bytes)):
            return ("s", repr(x))
        if isinstance(x, float):
            return ("f", fbits(x))
        if isinstance(x, int):
            return ("i", x)
        if isinstance(x, np.ndarray):
            return self.arr(x)
        if isinstance(x, np.generic):
            return ("g", x.dtype.str, x.tobytes())
        if isinstance(x, pd.Series):
            return ("se", str(x.dtype), repr(x.name), self.index(x.index), self.arr(np.asarray(x.values)))
        if isinstance(x, pd.DataFrame):
            return ("df", [repr(c) for c in x.columns], self.index(x.index),
                    [(str(x[c].dtype), self.arr(np.asarray(x[c].values))) for c in x.columns]
                    if x.columns.is_unique else self.arr(np.asarray(x.values)))
        if isinstance(x, pd.Index):
            return self.index(x)
        if depth > 6:
            return ("deep", type(x).__name__)
        if isinstance(x, (list, tuple)):
            return ("l", type(x).__name__, [self.snap(v, depth + 1) for v in x])
        if isinstance(x, dict):
            return ("d", [(repr(k), self.snap(v, depth + 1)) for k, v in x.items()])
        if isinstance(x, H.grid.Grid):
            meta = tuple(repr(getattr(x, k, None)) for k in
                         ("name", "ncols", "nrows", "cellsize", "xllcorner", "yllcorner", "nodata", "comment"))
            return ("grid", meta, str(x.data.dtype), tuple(x.data.shape), self.cells(x.data), x.data.tobytes())
        if isinstance(x, H.grid.Catchment):
            return ("catch", repr(x.name), self.snap(x._flowdir, depth + 1),
                    [self.snap(getattr(x, k, None), depth + 1) for k in
                     ("_idxcell_outlet", "_idxinlets", "_idxcells_area", "_idxcells_area_filled",
                      "_idxcells_boundary", "_xycells_boundary")],
                    self.snap(getattr(x, "_flowpathlengths", None), depth + 1))
        if isinstance(x, H.transform.Transform):
            return ("trans", x.name, self.arr(np.array(x.params.values)), self.arr(np.array(x.params.mins)),
                    self.arr(np.array(x.params.maxs)), self.arr(np.array(x.constants.values)))
        return ("o", type(x).__name__)

    # -- differences between two snapshots of the same argument. hard = property violated; soft = noted only
    def diff(self, a, b, path=""):
        hard, soft = [], []
        if a[0] != b[0]:
            return [f"{path}: container {a[0]} -> {b[0]}"], soft
        t = a[0]
        if t == "nd":
            if a[1] != b[1]:
                hard.append(f"{path}: dtype {a[1]} -> {b[1]}")
            elif a[2] != b[2]:
                hard.append(f"{path}: shape {a[2]} -> {b[2]}")
            elif a[4] != b[4]:
                hard.append(f"{path}: values changed")
            elif a[3] != b[3]:
                hard.append(f"{path}: strides {a[3]} -> {b[3]}")
            elif a[5] != b[5]:
                hard.append(f"{path}: elements of the underlying buffer outside the view changed")
        elif t in ("l", "d"):
            xs, ys = a[-1], b[-1]
            if len(xs) != len(ys):
                hard.append(f"{path}: length {len(xs)} -> {len(ys)}")
            else:
                for i, (u, v) in enumerate(zip(xs, ys)):
                    if t == "d":
                        if u[0] != v[0]:
                            hard.append(f"{path}: key {u[0]} -> {v[0]}")
                            continue
                        u, v = u[1], v[1]
                    h, s = self.diff(u, v, f"{path}[{i}]")
                    hard += h
                    soft += s
        elif t == "se":
            if a[1] != b[1]:
                hard.append(f"{path}: series dtype {a[1]} -> {b[1]}")
            if a[2] != b[2]:
                hard.append(f"{path}: series name changed")
            if a[3] != b[3]:
                hard.append(f"{path}: series index changed")
            h, s = self.diff(a[4], b[4], path + ".values")
            hard += h
        elif t == "df":
            if a[1] != b[1]:
                hard.append(f"{path}: columns {a[1]} -> {b[1]}")
            elif a[2] != b[2]:
                hard.append(f"{path}: frame index changed")
            elif a[3] != b[3]:
                hard.append(f"{path}: frame values or dtypes changed")
        elif t == "grid":
            if a[1] != b[1]:
                hard.append(f"{path}: grid attributes {a[1]} -> {b[1]}")
            if a[3] != b[3]:
                hard.append(f"{path}: grid shape changed")
            elif not cells_equal(a[4], b[4]):
                hard.append(f"{path}: grid cell values changed")
            elif a[2] == b[2] and a[5] != b[5]:
                hard.append(f"{path}: grid cell values changed (bit patterns of missing values)")
            if a[2] != b[2]:
                soft.append(f"{path}: grid retyped {a[2]} -> {b[2]} (cell values "
                            f"{'kept' if cells_equal(a[4], b[4]) else 'CHANGED'})")
        elif t == "catch":
            h, s = self.diff(a[2], b[2], path + ".flowdir")
            hard += h
            soft += s
            if a[1] != b[1] or a[3] != b[3] or a[4] != b[4]:
                hard.append(f"{path}: catchment state changed")
        else:
            if a != b:
                hard.append(f"{path}: {t} changed")
        return hard, soft


def cells_equal(xs, ys):
    if len(xs) != len(ys):
        return False
    for u, v in zip(xs, ys):
        if u != v and not (u != u and v != v):
            return False
    return True


def same(H, a, b, depth=0):
    """deep, bit-wise (NaN-aware by bits) equality of two results; -> None or a description of the difference"""
    np, pd = H.np, H.pd
    if type(a) is not type(b):
        return f"type {type(a).__name__} vs {type(b).__name__}"
    if a is None:
        return None
    if isinstance(a, float):
        return None if fbits(a) == fbits(b) or (a != a and b != b) else f"{a!r} vs {b!r}"
    if isinstance(a, (bool, int, str, bytes)):
        return None if a == b else f"{a!r} vs {b!r}"
    if isinstance(a, np.ndarray):
        if a.dtype != b.dtype or a.shape != b.shape:
            return f"array {a.dtype}{a.shape} vs {b.dtype}{b.shape}"
        if a.dtype == object:
            for u, v in zip(a.ravel().tolist(), b.ravel().tolist()):
                d = same(H, u, v, depth + 1)
                if d:
                    return d
            return None
        if a.tobytes() == b.tobytes():
            return None
        if a.dtype.kind in "fc" and np.array_equal(a, b, equal_nan=True):
            return None
        return "array values differ"
    if isinstance(a, np.generic):
        return None if (a.tobytes() == b.tobytes() or (a != a and b != b)) else f"{a!r} vs {b!r}"
    if isinstance(a, pd.Series):
        return same(H, a.index, b.index) or same(H, np.asarray(a.values), np.asarray(b.values)) or \
            (None if a.name == b.name or (a.name != a.name and b.name != b.name) else "series name")
    if isinstance(a, pd.DataFrame):
        if list(map(repr, a.columns)) != list(map(repr, b.columns)):
            return "columns differ"
        d = same(H, a.index, b.index)
        if d:
            return d
        for j in range(a.shape[1]):
            d = same(H, np.asarray(a.iloc[:, j].values), np.asarray(b.iloc[:, j].values))
            if d:
                return f"column {a.columns[j]!r}: {d}"
        return None
    if isinstance(a, pd.Index):
        return None if (len(a) == len(b) and a.dtype == b.dtype and a.equals(b)) else "index differs"
    if depth > 6:
        return None
    if isinstance(a, (list, tuple)):
        if len(a) != len(b):
            return f"length {len(a)} vs {len(b)}"
        for i, (u, v) in enumerate(zip(a, b)):
            d = same(H, u, v, depth + 1)
            if d:
                return f"[{i}]: {d}"
        return None
    if isinstance(a, dict):
        if list(map(repr, a.keys())) != list(map(repr, b.keys())):
            return "dict keys differ"
        for k in a:
            d = same(H, a[k], b[k], depth + 1)
            if d:
                return f"[{k!r}]: {d}"
        return None
    if isinstance(a, (H.grid.Grid, H.grid.Catchment, H.transform.Transform)):
        s = Snap(H)
        hard, soft = s.diff(s.snap(a), s.snap(b), type(a).__name__)
        return (hard + soft)[0] if hard or soft else None
    if hasattr(a, "get_xydata"):
        return same(H, np.asarray(a.get_xydata()), np.asarray(b.get_xydata()))
    return None      # opaque object (figure artists ...): not compared


def leaves(H, x, depth=0):
    """the numeric buffers reachable from a result or an argument"""
    np, pd = H.np, H.pd
    if isinstance(x, np.ndarray):
        return [x] if x.dtype != object and x.size else []
    if isinstance(x, pd.Series):
        v = np.asarray(x.values)
        return [v] if v.dtype != object and v.size else []
    if isinstance(x, pd.DataFrame):
        out = []
        for j in range(x.shape[1]):
            out += leaves(H, x.iloc[:, j], depth + 1)
        return out
    if depth > 5:
        return []
    if isinstance(x, (list, tuple)):
        return [v for e in x for v in leaves(H, e, depth + 1)]
    if isinstance(x, dict):
        return [v for e in x.values() for v in leaves(H, e, depth + 1)]
    if isinstance(x, H.grid.Grid):
        return leaves(H, x._data, depth + 1)
    if isinstance(x, H.grid.Catchment):
        return [v for k in ("_flowdir", "_idxinlets", "_idxcells_area", "_idxcells_area_filled", "_idxcells_boundary",
                            "_xycells_boundary", "_flowpathlengths") for v in leaves(H, getattr(x, k, None), depth + 1)]
    return []


def overlap(H, xs, ys):
    return any(H.np.shares_memory(a, b) for a in xs for b in ys)


@contextlib.contextmanager
def quiet_stdout():
    """the accumulate / slope kernels print progress with fprintf(stdout)"""
    import sys
    sys.stdout.flush()
    fd = os.dup(1)
    devnull = os.open(os.devnull, os.O_WRONLY)
    try:
        os.dup2(devnull, 1)
        yield
    finally:
        sys.stdout.flush()
        os.dup2(fd, 1)
        os.close(fd)
        os.close(devnull)


# ----------------------------------------------------------------------------------------------
# recorder shim at the Cython boundary
class Recorder:
    def __init__(self, H):
        self.H = H
        self.callers = None        # list of (index, ndarray) while a top-level call is being recorded
        self.events = []
        self.calls = 0
        self.installed = []
        for mod in (H.c_data, H.c_stat, H.c_gis):
            for name in dir(mod):
                f = getattr(mod, name)
                if name.startswith("_") or not callable(f) or isinstance(f, type):
                    continue
                setattr(mod, name, self.wrap(name, f))
                self.installed.append((mod, name, f))

    def uninstall(self):
        for mod, name, f in self.installed:
            setattr(mod, name, f)

    def wrap(self, name, orig):
        np = self.H.np
        rec = self

        def shim(*args, **kwargs):
            rec.calls += 1
            if rec.callers is None:
                return orig(*args, **kwargs)
            arrs = [a for a in list(args) + list(kwargs.values()) if isinstance(a, np.ndarray)]
            pre = []
            for a in arrs:
                alias = [i for i, c in rec.current() if c.size and a.size and np.shares_memory(a, c)]
                pre.append((alias, a.tobytes()))
            raised = True
            try:
                res = orig(*args, **kwargs)
                raised = False
                return res
            finally:
                rec.events.append((name, [(al, a.tobytes() != before) for a, (al, before) in zip(arrs, pre)],
                                   raised, False))
        shim.__name__ = name
        return shim

    def current(self):
        """caller buffers as they are now: a Grid argument is followed through `grid.dtype = ...` conversions
        (the caller's grid holds a new array afterwards: that array is the caller's cell data from then on)"""
        return [(i, c._data if isinstance(c, self.H.grid.Grid) else c) for i, c in self.callers]

    @contextlib.contextmanager
    def recording(self, callers):
        self.callers = [(i, c) for i, c in enumerate(callers) if c is not None]
        self.events = []
        try:
            yield self
        finally:
            self.callers = None


def kind_token(H, obj):
    """(viewable?, dtype, C-contiguous?) of a caller argument + the buffer the shim looks for"""
    np, pd = H.np, H.pd
    if obj is None:
        return "n:other:s", None
    if isinstance(obj, H.grid.Grid):
        arr = obj._data
        dt = {"float64": "f64", "float32": "f32", "int64": "i64", "int32": "i32"}.get(str(arr.dtype), "other")
        return f"v:{dt}:{'c' if arr.flags.c_contiguous else 's'}", obj
    if isinstance(obj, np.ndarray):
        arr, view = obj, True
    elif isinstance(obj, (pd.Series, pd.DataFrame, pd.Index)):
        arr = np.asarray(obj)
        again = np.asarray(obj)
        view = bool(arr.size) and np.shares_memory(arr, again)     # the same buffer is exposed every time
    else:
        return "n:other:s", None
    dt = {"float64": "f64", "float32": "f32", "int64": "i64", "int32": "i32"}.get(str(arr.dtype), "other")
    return f"{'v' if view else 'n'}:{dt}:{'c' if arr.flags.c_contiguous else 's'}", (arr if view else None)


# ----------------------------------------------------------------------------------------------
class Handles:
    pass


def load(ctx):
    import numpy as np
    import pandas as pd
    import matplotlib
    matplotlib.use("Agg")
    import matplotlib.pyplot as plt
    H = Handles()
    H.tiny = H.big = H.varied = False
    H.bigoff = 0
    H.np, H.pd, H.plt = np, pd, plt
    from hydrodiy.stat import metrics, sutils, armodels, transform
    from hydrodiy.data import dutils, qualitycontrol, signatures
    from hydrodiy.gis import grid, gutils
    from hydrodiy.plot import putils, boxplot, violinplot
    import c_hydrodiy_data
    import c_hydrodiy_stat
    import c_hydrodiy_gis
    H.metrics, H.sutils, H.armodels, H.transform = metrics, sutils, armodels, transform
    H.dutils, H.qualitycontrol, H.signatures = dutils, qualitycontrol, signatures
    H.grid, H.gutils = grid, gutils
    H.putils, H.boxplot, H.violinplot = putils, boxplot, violinplot
    H.c_data, H.c_stat, H.c_gis = c_hydrodiy_data, c_hydrodiy_stat, c_hydrodiy_gis
    for m in (c_hydrodiy_data, c_hydrodiy_stat, c_hydrodiy_gis):
        if ctx.native is not None and str(ctx.native) not in str(getattr(m, "__file__", "")):
            raise RuntimeError(f"{m.__name__} was not loaded from the fresh native build: {m.__file__}")
    return H


# ----------------------------------------------------------------------------------------------
# fixtures
def make_flowdir(H, rng, nrows=6, ncols=7, dtype=None, mode="acyclic"):
    """every cell drains towards the bottom-right corner (E, S or SE at random): acyclic, one sink.
    mode 'cycle': two neighbouring cells then drain into each other and four cells form a closed square (the
    situation max_accumulated_cells / the delineation buffers exist for); mode 'invalid': some cells hold values that
    are not flow-direction codes"""
    np = H.np
    code = H.grid.FLOWDIRCODE
    E, S, SE = int(code[1, 2]), int(code[2, 1]), int(code[2, 2])
    fd = np.zeros((nrows, ncols), dtype=np.int64)
    for r in range(nrows):
        for c in range(ncols):
            opts = []
            if c < ncols - 1:
                opts.append(E)
            if r < nrows - 1:
                opts.append(S)
            if c < ncols - 1 and r < nrows - 1:
                opts.append(SE)
            fd[r, c] = rng.choice(opts) if opts else 0
    if mode == "cycle" and nrows >= 3 and ncols >= 3:
        W, Nn = int(code[1, 0]), int(code[0, 1])
        r, c = rng.randrange(nrows), rng.randrange(ncols - 1)
        fd[r, c], fd[r, c + 1] = E, W
        if rng.random() < 0.5:
            r, c = rng.randrange(nrows - 1), rng.randrange(ncols - 1)
            fd[r, c], fd[r, c + 1], fd[r + 1, c + 1], fd[r + 1, c] = E, S, W, Nn
    elif mode == "invalid":
        for _ in range(3):
            fd[rng.randrange(nrows), rng.randrange(ncols)] = rng.choice([7, -3, 255, 3])
    g = H.grid.Grid("flowdir", ncols, nrows, cellsize=1., xllcorner=0., yllcorner=0.,
                    dtype=dtype or np.int64, nodata=-1)
    g.data = fd
    return g


def make_catchment(H, rng, boundary=True, flowdir=None):
    fd = flowdir or make_flowdir(H, rng)
    ca = H.grid.Catchment("ca", fd)
    outlet = (fd.nrows - 1) * fd.ncols + fd.ncols - 1
    ca.delineate_area(outlet, nval=20000)      # fixtures: not the 3 x 8 MB work vectors of the default (exercised elsewhere)
    if boundary:
        ca.delineate_boundary()
    return ca


def floats(rng, n, lo=0.1, hi=10.0):
    return [rng.uniform(lo, hi) for _ in range(n)]


# ----------------------------------------------------------------------------------------------
# correspondence: wrappers that hand buffers to kernels
def wrapper_cases(H, rng, kind, holes="none", flow="acyclic"):
    """-> list of (model name, callers [objects in the model's caller-index order], thunk).
    `kind` is applied to the array-like arguments; receivers / grids are built fresh for every case."""
    np, pd, G = H.np, H.pd, H.grid
    out = []

    def v(base, nature="float"):
        base = inject(np, rng, base, holes) if nature == "float" else np.array(base)
        obj, keep = variant(np, pd, base, kind, nature)
        return obj

    n = rng.randint(6, 14)
    agg = np.repeat(np.arange(1, n // 2 + 2), 2)[:n]
    x = np.array(floats(rng, n))

    a0, a1 = v(agg, "int"), v(x)
    out.append(("aggregate", [a0, a1], lambda a0=a0, a1=a1: H.dutils.aggregate(a0, a1, operator=rng.randint(0, 3))))
    a0, a1 = v(agg, "int"), v(x)
    out.append(("flathomogen", [a0, a1], lambda a0=a0, a1=a1: H.dutils.flathomogen(a0, a1)))
    a0 = v(np.concatenate([np.arange(5.), x]))
    out.append(("islinear", [a0], lambda a0=a0: H.qualitycontrol.islinear(a0)))
    a0 = v(x)
    out.append(("eckhardt", [a0], lambda a0=a0: H.signatures.eckhardt(a0)))
    # var2h takes a Series with a time index (datetime64[ns]: what the pinned wrapper handles)
    if kind in ("c64", "strided", "flt", "i64", "i32"):
        t0 = np.datetime64("2001-01-01T00:10:00", "ns")
        stamps = t0 + np.cumsum(np.array([rng.randint(600, 4000) for _ in range(n + 6)])).astype("timedelta64[s]")
        vals, _k = variant(np, pd, np.array(floats(rng, n + 6)), kind, "float")
        se = pd.Series(vals, index=pd.DatetimeIndex(stamps.astype("datetime64[ns]")))
        out.append(("var2h", [se, se.index], lambda se=se: H.dutils.var2h(se)))

    p = rng.randint(2, 5)
    obs, ens = np.array(floats(rng, n)), np.array(floats(rng, n * p)).reshape(n, p)
    a0, a1 = v(obs), v(ens)
    out.append(("crps", [a0, a1], lambda a0=a0, a1=a1: H.metrics.crps(a0, a1)))
    a0 = v(np.array(floats(rng, n, 0.01, 0.99)))
    out.append(("anderson_darling_test", [a0], lambda a0=a0: H.metrics.anderson_darling_test(a0)))
    a0, a1 = v(obs), v(ens)
    out.append(("dscore", [a0, a1], lambda a0=a0, a1=a1: H.metrics.dscore(a0, a1)))
    par, inn = np.array([0.5, 0.2][:rng.randint(1, 2)]), np.array(floats(rng, n, -1, 1))
    a0, a1 = v(par), v(inn)
    out.append(("armodel_sim", [a0, a1], lambda a0=a0, a1=a1: H.armodels.armodel_sim(a0, a1)))
    a0, a1 = v(par), v(inn)
    out.append(("armodel_residual", [a0, a1], lambda a0=a0, a1=a1: H.armodels.armodel_residual(a0, a1, sim_mean=0.)))
    a0 = v(ens)
    ori = rng.choice([1, -1])
    out.append(("pareto_front", [a0], lambda a0=a0: H.sutils.pareto_front(a0, orientation=ori)))

    # ---- grids
    gr = G.Grid("g", 7, 6, cellsize=1., xllcorner=0., yllcorner=0., dtype=np.float64)
    gr.data = np.array(floats(rng, 42)).reshape(6, 7)
    xy = np.array([[rng.uniform(0.1, 6.9), rng.uniform(0.1, 5.9)] for _ in range(n)])
    cells = np.array([rng.randrange(42) for _ in range(n)])
    if flow != "acyclic":       # the repetitions that are not the canonical one: inputs AT the limits of the domain
        for i in range(n):
            if rng.random() < 0.5:
                xy[i] = rng.choice([[0., 0.], [7., 6.], [7., rng.uniform(0, 6)], [rng.uniform(0, 7), 6.], [3., 2.]])
            if rng.random() < 0.4:
                cells[i] = rng.choice([0, 41, -1, 42])
    a0 = v(xy)
    out.append(("coord2cell", [a0], lambda a0=a0: gr.coord2cell(a0)))
    a0 = v(cells, "int")
    out.append(("cell2coord", [a0], lambda a0=a0: gr.cell2coord(a0)))
    a0 = v(cells, "int")
    out.append(("cell2rowcol", [a0], lambda a0=a0: gr.cell2rowcol(a0)))
    if kind == "c64":
        out.append(("neighbours", [], lambda: gr.neighbours(rng.randrange(42))))
    gdt = {"flt": np.float32, "i64": np.int64, "i32": np.int32}.get(kind, np.float64)
    gr2 = G.Grid("g2", 7, 6, cellsize=1., xllcorner=0., yllcorner=0., dtype=gdt)
    gr2.data = np.round(np.array(floats(rng, 42))).reshape(6, 7)
    a0 = v(xy)
    out.append(("slice", [a0, gr2._data], lambda a0=a0: gr2.slice(a0)))

    # ---- catchments
    ca = G.Catchment("ca", make_flowdir(H, rng, mode=flow))      # one-step queries: no delineation needed
    a0 = v(cells, "int")
    out.append(("upstream", [a0, ca._flowdir._data, G.FLOWDIRCODE], lambda a0=a0: ca.upstream(a0)))
    a0 = v(cells, "int")
    out.append(("downstream", [a0, ca._flowdir._data, G.FLOWDIRCODE], lambda a0=a0: ca.downstream(a0)))
    fd = make_flowdir(H, rng, mode=flow)
    cb = G.Catchment("cb", fd)
    outlet = fd.nrows * fd.ncols - 1
    a0 = v(np.array([0, 1]), "int")
    out.append(("delineate_area", [a0, cb._flowdir._data, G.FLOWDIRCODE], lambda a0=a0, nv=rng.choice([20000, 20000, 1000000]): cb.delineate_area(outlet, a0, nval=nv)))
    if kind == "c64":
        fd2 = make_flowdir(H, rng)
        cc = G.Catchment("cc", fd2)
        out.append(("delineate_area_noinlets", [None, cc._flowdir._data, G.FLOWDIRCODE], lambda: cc.delineate_area(outlet)))
        cd = make_catchment(H, rng, boundary=False)
        # the witness of `delineateBoundary_writes_receiver`: an unsorted filled area (as Catchment.from_dict may
        # install) is sorted in place by the kernel
        filled = cd._idxcells_area_filled.tolist()
        rng.shuffle(filled)
        cd._idxcells_area_filled = np.array(filled, dtype=np.int64)
        out.append(("delineate_boundary_nomask", [None, cd._idxcells_area_filled], lambda: cd.delineate_boundary()))
        ce = make_catchment(H, rng, boundary=False)
        out.append(("flowpathlengths", [ce._idxcells_area, ce._flowdir._data, G.FLOWDIRCODE],
                    lambda: ce.compute_flowpathlengths()))
        cf = make_catchment(H, rng, boundary=False)
        coarse = G.Grid("coarse", 3, 3, cellsize=3., xllcorner=-0.5, yllcorner=-0.5, dtype=np.float64)
        out.append(("intersect", [cf._idxcells_area], lambda: cf.intersect(coarse)))
    cm = make_catchment(H, rng, boundary=False)
    mask = np.zeros(cm._flowdir.nrows * cm._flowdir.ncols, dtype=np.int64)
    mask[cm._idxcells_area_filled] = 1
    a0 = v(mask, "int")
    out.append(("delineate_boundary", [a0, cm._idxcells_area_filled], lambda a0=a0: cm.delineate_boundary(a0)))

    # ---- grid-level functions: the kind is the dtype of the grid arguments
    gd = {"c64": (np.int64, np.float64), "flt": (np.float64, np.float32), "i64": (np.int64, np.int64),
          "i32": (np.int32, np.int32)}.get(kind)
    if gd is not None:
        f1 = make_flowdir(H, rng, dtype=gd[0], mode=flow)
        out.append(("delineate_river", [f1, G.FLOWDIRCODE], lambda nv=rng.choice([50, 2, 3, 1]): G.delineate_river(f1, 0, nval=nv)))
        f2 = make_flowdir(H, rng, dtype=gd[0], mode=flow)
        ta = G.Grid("ta", f2.ncols, f2.nrows, dtype=gd[1], nodata=-9)
        ta.data = np.round(np.array(floats(rng, f2.nrows * f2.ncols))).reshape(f2.nrows, f2.ncols)
        out.append(("accumulate", [f2, ta, G.FLOWDIRCODE], lambda mx=rng.choice([-1, -1, 2, 5]): G.accumulate(f2, ta, nprint=10 ** 9, max_accumulated_cells=mx)))
        f3 = make_flowdir(H, rng, dtype=gd[0], mode=flow)
        out.append(("accumulate_default", [f3, None, G.FLOWDIRCODE], lambda: G.accumulate(f3, nprint=10 ** 9)))
        f4 = make_flowdir(H, rng, dtype=gd[0], mode=flow)
        alt = G.Grid("alt", f4.ncols, f4.nrows, dtype=gd[1], nodata=-9)
        alt.data = np.round(np.array(floats(rng, f4.nrows * f4.ncols, 0, 500))).reshape(f4.nrows, f4.ncols)
        out.append(("slope", [f4, alt, G.FLOWDIRCODE], lambda: G.slope(f4, alt, nprint=10 ** 9)))
    cv = make_catchment(H, rng, boundary=False)
    pts = np.array([[rng.uniform(0, 7), rng.uniform(0, 6)] for _ in range(rng.randint(2, 5))])
    a0 = v(pts)
    out.append(("voronoi", [a0, cv._idxcells_area], lambda a0=a0: G.voronoi(cv, a0)))

    # ---- pure-Python bodies that store in place into something derived from an argument (no kernel: compared through
    # the read-only run and the contents semantics)
    m = rng.randint(30, 45)
    a0, a1 = v(np.array(floats(rng, m, -1, 10))), v(np.array(floats(rng, m, -1, 10)))
    out.append(("absolute_peak_error", [a0, a1], lambda a0=a0, a1=a1: H.metrics.absolute_peak_error(
        a0, a1, winpeakbefore=2, winpeakafter=3, winerase=6, neventmax=3)))
    a0 = v(x)
    lg = rng.choice([-2, 0, 1, 3])
    out.append(("lag", [a0], lambda a0=a0: H.dutils.lag(a0, lg)))
    a0 = v(np.array(floats(rng, n, -2, 2)))
    yj = H.transform.YeoJohnson()
    yj.lam = rng.choice([0.7, 0., 2., 1.3])
    out.append(("yeojohnson_forward", [a0], lambda a0=a0: yj.forward(a0)))
    a0 = v(np.array(floats(rng, 25)))
    fl = np.array([rng.random() < 0.8 for _ in range(25)])
    if kind in ("strided", "revF"):
        big = np.zeros(51, dtype=bool)
        big[::2][:25] = fl
        fl = big[::2][:25]
    out.append(("acf", [a0, fl], lambda a0=a0, fl=fl, ml=rng.choice([1, 3, 5]): H.sutils.acf(a0, maxlag=ml, idx=fl)))
    a0, a1 = v(np.array(floats(rng, 40)).reshape(8, 5)), v(np.array(floats(rng, 48)).reshape(8, 6))
    out.append(("iqr", [a0, a1], lambda a0=a0, a1=a1, cv=rng.choice([50., 90.]): H.metrics.iqr(a0, a1, coverage=cv)))
    a0, a1 = v(np.array(floats(rng, 3, 0, 1))), v(np.array(floats(rng, 3, 2, 3)))
    out.append(("lhs", [a0, a1], lambda a0=a0, a1=a1: H.sutils.lhs(rng.choice([1, 5, 12]), a0, a1)))
    if kind in ("c64", "strided", "revF", "list", "pandas"):       # scipy's gaussian_kde is slow: not for every kind
        a0 = v(np.array(floats(rng, 24, -2, 2)).reshape(12, 2))
        out.append(("kde", [a0], lambda a0=a0, e=rng.choice([1e-10, 1e-3]): H.putils.kde(a0, ngrid=4, eps=e)))
    if kind == "pandas":
        mon = pd.Series(inject(np, rng, floats(rng, 14), holes), index=pd.date_range("2001-01-01", periods=14, freq="MS"))
        out.append(("monthly2daily", [mon], lambda mon=mon, ip=rng.choice(["flat", "cubic"]): H.dutils.monthly2daily(mon, interpolation=ip)))
        Xf = pd.DataFrame(np.array(floats(rng, 40, -2, 2)).reshape(20, 2), columns=["a", "b"])
        yf = pd.Series(np.array(floats(rng, 20, -2, 2)))
        out.append(("lstsq_intercept", [Xf, yf], lambda Xf=Xf, yf=yf: H.sutils.lstsq(Xf, yf, add_intercept=True)))
    gsd = {"c64": np.float64, "flt": np.float32}.get(kind)
    if gsd is not None:
        gs = G.Grid("gs", 7, 6, cellsize=1., xllcorner=0., yllcorner=0., dtype=gsd, nodata=-9)
        gs.data = inject(np, rng, np.round(np.array(floats(rng, 42, 0, 50))).reshape(6, 7), holes if holes != "naninf" else "nan")
        gm = G.Grid("gm", 7, 6, cellsize=1., xllcorner=0., yllcorner=0., dtype=np.int32, nodata=0)
        gm.data = (np.array(floats(rng, 42, 0, 1)) > 0.2).astype(int).reshape(6, 7)
        mk = gm if rng.random() < 0.6 else None
        out.append(("gsmooth", [gs, mk], lambda gs=gs, mk=mk, mv=rng.choice([-np.inf, 20.]): G.gsmooth(
            gs, mk, coastwin=5, sigma=0.5, minval=mv)))

    # ---- what Grid / Catchment objects keep of what they are given (a later mutator writes through it)
    sdt = rng.choice([np.float64, np.float32, np.int64, np.int32])
    a0 = v(np.round(np.array(floats(rng, 42, 0, 50))).reshape(6, 7), "float" if np.dtype(sdt).kind == "f" else "int")
    gset = G.Grid("gset", 7, 6, dtype=sdt)
    out.append(("grid_data_setter", [a0], lambda a0=a0: (setattr(gset, "data", a0), gset._data)[1]))
    gsrc = G.Grid("gsrc", 7, 6, cellsize=1., xllcorner=0., yllcorner=0., dtype=sdt)
    gsrc.data = np.round(np.array(floats(rng, 42, 0, 50))).reshape(6, 7)
    out.append(("grid_clip", [gsrc._data], lambda: gsrc.clip(rng.uniform(0.2, 2.8), 1.3, 5.1, 4.2)._data))
    out.append(("grid_clone", [gsrc._data], lambda dt=rng.choice([None, np.float32, np.int64]): gsrc.clone(dt)._data))

    def cb_same(z):
        z[z < 20] = 0
        return z
    out.append(("grid_apply", [gsrc._data], lambda f=rng.choice([cb_same, np.sqrt, np.abs]): gsrc.apply(f)._data))
    fdc = make_flowdir(H, rng, dtype=rng.choice([np.int64, np.int32]), mode=flow)
    out.append(("catchment_init", [fdc._data], lambda: G.Catchment("ci", fdc)._flowdir._data))

    poly = np.array([[1., 1.], [5., 1.2], [5.5, 4.5], [2., 5.], [1., 1.]])
    a0, a1 = v(xy), v(poly)
    out.append(("points_inside_polygon", [a0, a1], lambda a0=a0, a1=a1: H.gutils.points_inside_polygon(a0, a1)))
    if kind in ("c64", "strided", "revF", "flt"):
        a0, a1 = v(xy), v(poly)
        ins = np.ones(len(xy), dtype=np.int32) * 5
        out.append(("points_inside_polygon_out", [a0, a1, ins],
                    lambda a0=a0, a1=a1: H.gutils.points_inside_polygon(a0, a1, inside=ins)))
    return out


# wrappers whose last nested kernel call is guarded by a test on the data (`if idx.sum() > 0`, `if len(boundary) >= 3`)
OPTIONAL_TAIL = {"delineate_area": 1, "delineate_area_noinlets": 1, "delineate_boundary": 1,
                 "delineate_boundary_nomask": 1}
RNG = 9        # caller index that stands for the state of numpy's global random generator (Model: `rngState`)
ALLOWED = {"delineate_boundary": [1], "delineate_boundary_nomask": [1], "points_inside_polygon_out": [2],
           "kde": [RNG], "lhs": [RNG]}
DT_TOKEN = {"float64": "f64", "float32": "f32", "int64": "i64", "int32": "i32"}
# wrappers whose thunk returns everything the model's `results` lists (not only a part of it)
RESULT_COMPARED = {"aggregate", "flathomogen", "var2h", "islinear", "eckhardt", "crps", "anderson_darling_test", "dscore",
                   "armodel_sim", "armodel_residual", "pareto_front", "coord2cell", "cell2coord", "cell2rowcol", "neighbours",
                   "slice", "upstream", "downstream", "intersect", "delineate_river", "accumulate", "accumulate_default",
                   "voronoi", "slope", "points_inside_polygon", "points_inside_polygon_out", "lag", "gsmooth",
                   "yeojohnson_forward", "lhs", "monthly2daily", "grid_data_setter", "grid_clip", "grid_clone", "grid_apply",
                   "catchment_init"}


def correspondence(ctx, H, rec):
    rng = ctx.rng
    np = H.np
    rows, case_holes = [], []
    canonical_rejected = {}
    for rep in range(ctx.scale(6, 60)):
        holes = ("none", "nan", "naninf")[rep % 3]
        flow = ("acyclic", "cycle", "invalid")[(rep + rep // 3) % 3]
        for kind in KINDS:
            for name, callers, thunk in wrapper_cases(H, rng, kind, holes, flow):
                toks, bufs = [], []
                for c in callers:
                    t, b = kind_token(H, c)
                    toks.append(t)
                    bufs.append(b)
                toks += ["n:other:s"] * (10 - len(toks))
                def bsnap(b):
                    if b is None:
                        return None
                    return ("cells", b._data.shape, b._data.ravel().tolist()) if isinstance(b, H.grid.Grid) else b.tobytes()
                snaps = [bsnap(b) for b in bufs]
                err = None
                gdt0 = {i: str(b._data.dtype) for i, b in enumerate(bufs) if isinstance(b, H.grid.Grid)}
                rng0 = np.random.get_state()[1].tobytes(), np.random.get_state()[2]
                res_alias = None
                with rec.recording(bufs), warnings.catch_warnings(), quiet_stdout():
                    warnings.simplefilter("ignore")
                    try:
                        res = thunk()
                        if res is not None:
                            # caller buffers that what the call handed back refers to
                            rl = leaves(H, res)
                            res_alias = sorted(i for i, b in enumerate(bufs) if b is not None and any(
                                np.shares_memory(x, b._data if isinstance(b, H.grid.Grid) else b) for x in rl))
                        del res
                    except Exception as e:     # noqa: a kind may be rejected
                        err = f"{type(e).__name__}: {str(e)[:80]}"
                events = list(rec.events)
                changed = [i for i, (b, s) in enumerate(zip(bufs, snaps)) if b is not None and (
                    not cells_equal(bsnap(b)[2], s[2]) if isinstance(b, H.grid.Grid) else b.tobytes() != s)]
                if (np.random.get_state()[1].tobytes(), np.random.get_state()[2]) != rng0:
                    changed.append(RNG)
                gdt1 = {i: str(bufs[i]._data.dtype) for i in gdt0}
                # every third repetition: the SAME call again with every array of the caller made read-only. It must
                # behave the same (same kernel calls, same aliasing) unless the body stores into a caller buffer at the
                # Python level, which then fails with numpy's "read-only" error: compared with the model's `pywritten`
                second = None
                if rep % 3 == 0 and err is None:
                    frozen = []
                    for b in bufs:
                        arr = b._data if isinstance(b, H.grid.Grid) else b
                        if isinstance(arr, np.ndarray) and arr.flags.writeable:
                            arr.flags.writeable = False
                            frozen.append(arr)
                    err2 = None
                    with rec.recording(bufs), warnings.catch_warnings(), quiet_stdout():
                        warnings.simplefilter("ignore")
                        try:
                            thunk()
                        except Exception as e:     # noqa
                            err2 = f"{type(e).__name__}: {str(e)[:80]}"
                    for arr in frozen:
                        arr.flags.writeable = True
                    second = (err2, list(rec.events), [i for i, b in enumerate(bufs) if b is not None and any(
                        (b._data if isinstance(b, H.grid.Grid) else b) is a for a in frozen)])
                rows.append((name, kind, toks, events, err, changed, (gdt0, gdt1), second, res_alias))
                if kind == "c64" and holes == "none" and flow == "acyclic" and err is not None:
                    canonical_rejected[name] = err
                case_holes.append(holes)
    replies = ctx.lean.ask([f"run {r[0]} [{','.join(r[2])}]" for r in rows])
    repeats = ctx.lean.ask([f"repeat {r[0]} [{','.join(r[2])}] 1" for r in rows])
    safes = dict(zip(sorted({r[0] for r in rows}),
                     ctx.lean.ask([f"safe {n} {C.ilist(ALLOWED.get(n, []))}" for n in sorted({r[0] for r in rows})])))
    marks = ctx.lean.ask([f"mark {r[0]} [{','.join(r[2])}]" for r in rows])
    never_changed, witness = {}, {}
    ro_stats = {"second_calls_with_read_only_arguments": 0, "rejected_as_the_model_says": 0}
    for (name, kind, toks, events, err, changed, gdts, second, res_alias), rep, hol, mk, rpt in zip(rows, replies, case_holes, marks, repeats):
        case = {"wrapper": name, "kind": kind, "kinds": toks[:4], "error": err, "holes": hol}
        if not rep.startswith("ok "):
            ctx.disagree(f"driver: {rep}", case)
            continue
        mev = [] if rep.split()[1] == "-" else rep.split()[1].split("|")
        mwritten = [int(t) for t in C.parse_list(rep.split("written=")[1].split()[0])]
        mretyped = dict(t.split(":") for t in C.parse_list(rep.split("retyped=")[1].split()[0]))
        mpyw = [int(t) for t in C.parse_list(rep.split("pywritten=")[1].split()[0])]
        mres = [int(t) for t in C.parse_list(rep.split("results=")[1].split()[0])]
        # what the call hands back / stores refers to exactly the caller buffers the model says (none, for all but the
        # OUTPUT-array form): `returned_private`
        if err is None and res_alias is not None and name in RESULT_COMPARED:
            if res_alias != sorted(mres):
                ctx.disagree(f"{name}: what the call hands back shares memory with caller buffers {res_alias}, the model "
                             f"says {mres}", case)
            ctx.hist["corr/result_aliasing_compared"] = ctx.hist.get("corr/result_aliasing_compared", 0) + 1
        # dtype of the caller's Grid objects after the call: exactly what the model's `retyped` says
        if err is None:
            for i, before_dt in gdts[0].items():
                want = mretyped.get(str(i), DT_TOKEN.get(before_dt, "other"))
                if DT_TOKEN.get(gdts[1][i], "other") != want:
                    ctx.disagree(f"{name}: the caller's grid {i} has dtype {gdts[1][i]} after the call (it had {before_dt}), "
                                 f"the model says {want}", case)
                elif gdts[1][i] != before_dt:
                    ctx.hist["corr/grid_argument_retyped_as_modelled"] = ctx.hist.get("corr/grid_argument_retyped_as_modelled", 0) + 1
        # the second call with read-only arguments
        if second is not None:
            err2, events2, frozen_idx = second
            ro_stats["second_calls_with_read_only_arguments"] += 1
            expect_fail = bool(set(mpyw) & set(frozen_idx))
            failed_ro = err2 is not None and "read-only" in err2
            if expect_fail != failed_ro or (err2 is not None and not failed_ro):
                ctx.disagree(f"{name}: second call with the caller's arrays read-only -> {err2}; the model has Python-level "
                             f"stores into callers {mpyw} (read-only here: {frozen_idx})", case)
            elif failed_ro:
                ro_stats["rejected_as_the_model_says"] += 1
            else:
                def fmt(evs):
                    return "|".join(f"{nm}(" + ",".join("-" if not al else "+".join(map(str, al)) for al, _ch in args) + ")"
                                    for nm, args, _r, _n in evs)
                if fmt(events2) != fmt(events):
                    ctx.disagree(f"{name}: the second call does not make the kernel calls of the first: {fmt(events2)} / "
                                 f"{fmt(events)}", case)
                if rpt.split(" marked=")[0] != rep.split(" written=")[0]:
                    ctx.disagree(f"{name}: model: the second of two calls differs from the first: {rpt} / {rep}", case)
        # the contents semantics (mrun, marking instance): buffers whose CONTENTS the model says may change
        marked = [int(t) for t in C.parse_list(mk.split(" ", 1)[1])] if mk.startswith("ok ") else None
        if marked is None or sorted(marked) != sorted(mwritten):
            ctx.disagree(f"{name}: contents semantics marks {mk}, written set is {mwritten}", {"wrapper": name})
        elif err is None and not set(changed) <= set(marked):
            ctx.disagree(f"{name}: caller buffers {changed} changed contents, the contents semantics marks {marked}",
                         {"wrapper": name, "kind": kind})
        model = []
        for e in mev:
            nm, rest = e.split("(", 1)
            args = [a.split(":") for a in rest.rstrip(")").split(",") if a]
            model.append((nm, [(None if a == "-" else int(a), f == "W") for a, f in args]))
        # the real call: alias of every ndarray argument, observed writes
        impl_s, model_s, ok_flags = [], [], True
        usable = events if err is None else [e for e in events if not e[2]]
        for k, (nm, args, raised, nonarray) in enumerate(usable):
            impl_s.append(f"{nm}(" + ",".join("-" if not al else "+".join(map(str, al)) for al, _ch in args) + ")")
            if k < len(model):
                mnm, margs = model[k]
                model_s.append(f"{mnm}(" + ",".join("-" if al is None else str(al) for al, _w in margs) + ")")
                if mnm == nm and len(margs) == len(args):
                    for j, ((al, ch), (mal, mw)) in enumerate(zip(args, margs)):
                        key = (nm, j)
                        if mw:
                            never_changed[key] = never_changed.get(key, True) and not ch
                        if ch and not mw:
                            ok_flags = False
                            ctx.disagree(f"{name}: kernel {nm} changed argument {j}, which the model marks read-only",
                                         case)
        if err is None:
            rest = model[len(usable):]
            if 0 < len(rest) <= OPTIONAL_TAIL.get(name, 0):
                rest = []       # data-dependent last step (empty area, fewer than 3 boundary cells): legitimately skipped
                ctx.hist["corr/optional_tail_skipped"] = ctx.hist.get("corr/optional_tail_skipped", 0) + 1
            model_s += [f"{mnm}(" + ",".join("-" if al is None else str(al) for al, _w in margs) + ")"
                        for mnm, margs in rest]
        ctx.compare(f"C18/{name}", case, "|".join(impl_s), "|".join(model_s))
        # caller buffers observed to change must be exactly those the model reports as written (and allowed)
        if err is None and sorted(changed) != [] and not set(changed) <= set(mwritten):
            ctx.disagree(f"{name}: caller buffers {changed} changed, model reports written={mwritten}", case)
        for i in changed:
            if i in ALLOWED.get(name, []):
                key = f"{name}: allowed caller buffer {i} observed written"
                witness[key] = witness.get(key, 0) + 1
        bad = [i for i in changed if i not in ALLOWED.get(name, [])]
        if bad:
            ctx.finding(f"{name}/kernel_path/caller_buffer_{bad[0]}_changed/{kind}",
                        "a buffer that existed before the call was modified through the kernel-facing wrapper", case)
        sf = (safes.get(name) or "?").split()
        if sf[0] != "true":
            ctx.disagree(f"{name}: the ownership check of the model fails (safe -> {safes.get(name)})", case)
        # the syntactic checks `ReturnsPrivate` / `noRetype` against what the run of the model and the real call show
        if "private=true" in sf and (mres or (res_alias and name in RESULT_COMPARED and err is None)):
            ctx.disagree(f"{name}: the model decides that what is handed back is private, but results={mres}, observed "
                         f"aliasing {res_alias}", case)
        if "noretype=true" in sf and err is None and (mretyped or any(gdts[1][i] != d for i, d in gdts[0].items())):
            ctx.disagree(f"{name}: the model decides that no object is converted in place, but retyped={mretyped}, grid "
                         f"dtypes {gdts[0]} -> {gdts[1]}", case)
        ctx.count(("corr", name, tuple(toks[:4])), err is None and bool(events),
                  f"corr/{'rejected' if err else 'accepted'}",
                  sample={"wrapper": name, "kinds": toks[:3], "impl": "|".join(impl_s)[:120], "model": rep[:120]})
    for name, err in canonical_rejected.items():
        ctx.disagree(f"{name}: the canonical (C-contiguous 64-bit) input is rejected: {err}", {"wrapper": name})
    ctx.extra["write_flags_never_observed"] = sorted(f"{k[0]}#{k[1]}" for k, v in never_changed.items() if v)
    ctx.extra["wrappers_compared"] = sorted({r[0] for r in rows})
    # the witnesses of the `..._writes_receiver` / `..._writes_output` theorems replayed on the real code
    ctx.extra["allowed_caller_writes_observed"] = witness
    ctx.extra["read_only_second_calls"] = ro_stats
    for need in ("delineate_boundary_nomask", "points_inside_polygon_out", "kde", "lhs"):
        if not any(k.startswith(need + ":") for k in witness):
            ctx.disagree(f"{need}: the model says the allowed caller buffer is written, the real code never changed it",
                         {"wrapper": need})


# ----------------------------------------------------------------------------------------------
# oracle: every public function of the quantifier
class Entry:
    def __init__(self, name, fn, gen, canonical="c64", optional=False, options=None, covers=None, reference=None,
                 faulty=False):
        # optional: the function is allowed to reject every case (a variant outside what it documents)
        # options: documented keyword options -> values to exercise (first = the default, used in the canonical case)
        self.name, self.fn, self.gen, self.canonical, self.optional = name, fn, gen, canonical, optional
        self.options = options or {}
        # public names of the library this entry exercises (inventory cross-check); default: from the entry name
        self.covers = covers or [name.split("/")[0]]
        # the same answer obtained another way (e.g. without the optional work buffer), compared in the histories
        self.reference = reference
        # faulty: the function has a capacity / limit argument whose overflow is a documented way to fail AFTER work has
        # been done (nval, max_accumulated_cells, neventmax ...): more fault-path histories are run for it
        self.faulty = faulty


def build_entries(H):
    np, pd, plt, G = H.np, H.pd, H.plt, H.grid
    M, S, A, T, D, Q, SG = H.metrics, H.sutils, H.armodels, H.transform, H.dutils, H.qualitycontrol, H.signatures
    E = []

    def add(name, fn, gen, canonical="c64", optional=False, options=None, covers=None, reference=None, faulty=False):
        E.append(Entry(name, fn, gen, canonical, optional, options, covers, reference, faulty))

    def N(n):
        """series length: beyond the internal thresholds of the library in the `big` cases (same offset for every
        argument of the case, so that paired series keep matching lengths)"""
        return n + H.bigoff if H.big else n

    def opt(usual, other):
        """an option of the function under test: `usual` (what the small cases need) or, in the `big` / `varied`
        cases, `other` (the library default, or a value that switches an optional path on)"""
        return other if (H.big or H.varied) else usual

    def vec(rng, n=None, lo=0.1, hi=10.0):
        # H.tiny: lengths 1..3 in some of the random-mixture cases (most functions reject them; none may touch them)
        n = N(n or (rng.randint(1, 3) if H.tiny else rng.randint(8, 20)))
        a = np.array(floats(rng, n, lo, hi))
        if H.varied and n >= 4:
            # values AT the ends of the documented range and at the usual thresholds (0, censor)
            for v in (lo, hi, 0.0 if lo <= 0.1 else lo):
                a[rng.randrange(n)] = v
        return a

    def mat(rng, n, p, lo=0.1, hi=10.0):
        n = N(n)
        return np.array(floats(rng, n * p, lo, hi)).reshape(n, p)

    def holes(rng, a, always=False):
        """missing values in about half of the cases (the NaN-filtering paths compact / mask their data)"""
        a = np.array(a, dtype=np.float64)
        if always or rng.random() < 0.5:
            flat = a.reshape(-1)
            for i in rng.sample(range(flat.size), max(1, flat.size // 8)):
                flat[i] = np.nan
        return a

    def obs_ens(rng):
        n, p = rng.randint(8, 16), rng.randint(3, 6)
        return [Arg("obs", holes(rng, vec(rng, n))), Arg("ens", holes(rng, mat(rng, n, p)))]

    def obs_sim(rng):
        n = rng.randint(8, 20)
        return [Arg("obs", holes(rng, vec(rng, n))), Arg("sim", holes(rng, vec(rng, n)))]

    # ---------------- metrics
    add("metrics.pit", lambda obs, ens, **o: M.pit(obs, ens, **o), obs_ens,
        options={"kind": ["rank", "weak", "strict", "mean"], "cst": [0.3, 0., 0.5], "censor": [0., 2.]})
    add("metrics.pit/random", lambda obs, ens, **o: M.pit(obs, ens, random=True, **o), obs_ens,
        options={"cst": [0.3, 0.], "censor": [0., 2.]})
    add("metrics.crps", lambda obs, ens: M.crps(obs, ens), obs_ens)
    add("metrics.anderson_darling_test", lambda unifdata: M.anderson_darling_test(unifdata),
        lambda rng: [Arg("unifdata", vec(rng, None, 0.01, 0.99))])
    add("metrics.cramer_von_mises_test", lambda data: M.cramer_von_mises_test(data),
        lambda rng: [Arg("data", vec(rng, None, 0.01, 0.99))])
    for tp in ("CV", "KS", "AD"):
        add(f"metrics.alpha/{tp}", lambda obs, ens, tp=tp, **o: M.alpha(obs, ens, type=tp, **o), obs_ens,
            options={"cst": [0.3, 0.], "sudo_perc_threshold": [5, 60]})
    add("metrics.iqr", lambda ens, ref, **o: M.iqr(ens, ref, **o),
        lambda rng: [Arg("ens", mat(rng, 8, 5)), Arg("ref", mat(rng, 8, 6))], options={"coverage": [50., 90.]})
    trs = [lambda: T.Identity(), lambda: T.Log(), lambda: T.BoxCox2()]

    def with_trans(rng, args):
        tr = rng.choice(trs)()
        if tr.name == "BoxCox2":
            tr.lam = 0.4
        if "nu" in tr.params.names:
            tr.nu = 0.1
        return args + [Arg("trans", tr, "fixed")]
    for ex in (False, True):
        add(f"metrics.bias/excludenull={ex}", lambda obs, sim, trans, ex=ex, **o: M.bias(obs, sim, trans, excludenull=ex, **o),
            lambda rng: with_trans(rng, obs_sim(rng)), options={"type": ["standard", "normalised", "log"]})
        add(f"metrics.nse/excludenull={ex}", lambda obs, sim, trans, ex=ex: M.nse(obs, sim, trans, excludenull=ex),
            lambda rng: with_trans(rng, obs_sim(rng)))
        add(f"metrics.kge/excludenull={ex}", lambda obs, sim, trans, ex=ex: M.kge(obs, sim, trans, excludenull=ex),
            lambda rng: with_trans(rng, obs_sim(rng)))
    add("metrics.dscore/ensemble", lambda obs, sim, **o: M.dscore(obs, sim, **o),
        lambda rng: [Arg("obs", vec(rng, 10)), Arg("sim", mat(rng, 10, 4))], options={"eps": [1e-6, 0.5]})
    add("metrics.dscore/deterministic", lambda obs, sim: M.dscore(obs, sim),
        lambda rng: [Arg("obs", vec(rng, 10)), Arg("sim", mat(rng, 10, 1))])
    for st in ("median", "mean"):
        for ty in ("Pearson", "Spearman", "censored"):
            add(f"metrics.corr/{st}/{ty}",
                lambda obs, ens, trans, st=st, ty=ty, **o: M.corr(obs, ens, trans, stat=st, type=ty, **o),
                lambda rng: with_trans(rng, obs_ens(rng)), options={"excludenull": [False, True], "censor": [1e-10, 2.]})
    add("metrics.absolute_peak_error",
        lambda obs, sim, **o: M.absolute_peak_error(obs, sim, **({} if H.big else {**dict(winpeakbefore=2, winpeakafter=3), **o})),
        options={"winerase": [6, 2, 15], "neventmax": [3, 1, 50]}, gen=
        lambda rng: [Arg("obs", holes(rng, vec(rng, 40, -1, 10))), Arg("sim", holes(rng, vec(rng, 40, -1, 10)))])
    for mod in (False, True):
        add(f"metrics.relative_percentile_error/modified={mod}",
            lambda obs, sim, percentile_range, mod=mod, **o: M.relative_percentile_error(obs, sim, percentile_range,
                                                                                    modified=mod, **o),
            lambda rng: [Arg("obs", vec(rng, 30)), Arg("sim", vec(rng, 30)),
                         Arg("percentile_range", [10., 90.], "fixed")], options={"neval": [10, 2, 50]})
    add("metrics.confusion_matrix", lambda obs, sim: M.confusion_matrix(obs, sim),
        lambda rng: [Arg("obs", np.array([rng.randrange(3) for _ in range(N(15))]), "int"),
                     Arg("sim", np.array([rng.randrange(3) for _ in range(N(15))]), "int")])
    add("metrics.confusion_matrix/ncat", lambda obs, sim: M.confusion_matrix(obs, sim, ncat=4),
        lambda rng: [Arg("obs", np.array([rng.randrange(3) for _ in range(15)]), "int"),
                     Arg("sim", np.array([rng.randrange(3) for _ in range(15)]), "int")])
    add("metrics.binary", lambda conf_mat: M.binary(conf_mat),
        lambda rng: [Arg("conf_mat", np.array([[rng.randint(1, 9), rng.randint(1, 9)],
                                               [rng.randint(1, 9), rng.randint(1, 9)]]), "int")])

    # ---------------- sutils
    add("sutils.ppos", lambda nval, cst: S.ppos(nval, cst),
        lambda rng: [Arg("nval", rng.randint(2, 30), "fixed"), Arg("cst", rng.choice([0., 0.3, 0.5]), "fixed")], "fixed")
    add("sutils.acf", lambda data, **o: S.acf(data, **o), lambda rng: [Arg("data", holes(rng, vec(rng, 25)))],
        options={"maxlag": [1, 3, 5]})
    add("sutils.acf/idx", lambda data, idx: S.acf(data, maxlag=2, idx=idx),
        lambda rng: [Arg("data", vec(rng, 25)), Arg("idx", np.array([rng.random() < 0.8 for _ in range(25)]), "fixed")])
    add("sutils.lhs", lambda pmin, pmax, nsamples: S.lhs(nsamples, pmin, pmax),
        lambda rng: [Arg("pmin", vec(rng, 3, 0, 1)), Arg("pmax", vec(rng, 3, 2, 3))], options={"nsamples": [12, 1, 2, 40]})
    add("sutils.lhs_norm", lambda mean, cov: S.lhs_norm(12, mean, cov),
        lambda rng: [Arg("mean", vec(rng, 3)), Arg("cov", np.diag(floats(rng, 3, 1, 2)) + 0.1)])
    for srt in (False, True):
        add(f"sutils.standard_normal/sorted={srt}", lambda x, srt=srt, **o: S.standard_normal(x, sorted=srt, **o),
            lambda rng: [Arg("x", vec(rng))], options={"cst": [0., 0.3], "rank_method": ["average", "min", "first"]})
    add("sutils.semicorr", lambda unorm: S.semicorr(unorm), lambda rng: [Arg("unorm", mat(rng, 30, 2, -2, 2))])
    add("sutils.pareto_front", lambda data, **o: S.pareto_front(data, **o), lambda rng: [Arg("data", mat(rng, 12, 3))],
        options={"orientation": [1, -1]})
    for ai in (False, True):
        add(f"sutils.lstsq/add_intercept={ai}", lambda X, y, ai=ai, **o: S.lstsq(X, y, add_intercept=ai, **o),
            lambda rng: [Arg("X", holes(rng, mat(rng, 20, 2, -2, 2))), Arg("y", holes(rng, vec(rng, 20, -2, 2)))],
            options={"rcond": [1e-4, 1e-10]})

    # ---------------- armodels
    add("armodels.armodel_sim", lambda params, innov, **o: A.armodel_sim(params, innov, **o),
        lambda rng: [Arg("params", np.array([0.6, 0.2][:rng.randint(1, 2)])), Arg("innov", vec(rng, None, -1, 1))],
        options={"sim_mean": [0., 0.3], "sim_ini": [None, 1.5]})
    add("armodels.armodel_residual", lambda params, inputs, **o: A.armodel_residual(params, inputs, **o),
        lambda rng: [Arg("params", np.array([0.6, 0.2][:rng.randint(1, 2)])), Arg("inputs", vec(rng, None, -1, 1))],
        options={"sim_mean": [None, 0.3], "sim_ini": [None, 1.5]})
    add("armodels.yule_walker", lambda acf: A.yule_walker(acf), lambda rng: [Arg("acf", np.array([0.7, 0.4, 0.2]))])

    # ---------------- transforms: every class x forward / backward / jacobian / backward_censored
    def tr_make(name, rng):
        tr = T.get_transform(name)
        presets = {"Log": {"nu": 0.5}, "BoxCox2": {"nu": 0.5, "lam": 0.3}, "BoxCox1lam": {"lam": 0.3, "nu": 0.5},
                   "BoxCox2sym": {"nu": 0.5, "lam": 0.3}, "BoxCox1nu": {"nu": 0.5, "lam": 0.3},
                   "YeoJohnson": {"loc": 0.1, "scale": 1.2, "lam": 0.7},
                   "LogSinh": {"loga": -1., "logb": -0.5, "xmax": 2.}, "Reciprocal": {"nu": 0.5},
                   "Sinh": {"loga": -1., "logb": -0.5}, "Manly": {"lam": 0.4, "xmax": 2.},
                   "Logit": {"lower": 0., "upper": 1.}}
        for k, val in presets.get(name, {}).items():
            if k in tr.params.names or k in tr.constants.names:
                tr[k] = val
        return tr
    tnames = ["Identity", "Logit", "Log", "BoxCox2", "BoxCox1lam", "BoxCox2sym", "BoxCox1nu", "YeoJohnson",
              "LogSinh", "Reciprocal", "Softmax", "Sinh", "Manly"]
    for tn in tnames:
        def gen(rng, tn=tn):
            tr = tr_make(tn, rng)
            if tn == "Softmax":
                m = mat(rng, 6, 3, 0.05, 0.3)
                return [Arg("trans", tr, "fixed"), Arg("x", m)]
            if tn == "Logit":
                return [Arg("trans", tr, "fixed"), Arg("x", vec(rng, None, 0.05, 0.95))]
            return [Arg("trans", tr, "fixed"), Arg("x", vec(rng, None, 0.2, 0.9))]
        for meth in ("forward", "backward", "jacobian"):
            add(f"transform.{tn}.{meth}", lambda trans, x, meth=meth: getattr(trans, meth)(x), gen,
                covers=[f"transform.Transform.{meth}", f"transform.{tn}.__init__"])
        add(f"transform.{tn}.backward_censored", lambda trans, x: trans.backward_censored(x, censor=0.3), gen,
            covers=["transform.Transform.backward_censored"])

    # ---------------- dutils
    add("dutils.sequence_true", lambda values: D.sequence_true(values),
        lambda rng: [Arg("values", np.array([float(rng.random() < 0.5) for _ in range(N(20))]))])
    add("dutils.cast", lambda x, y: D.cast(x, y), lambda rng: [Arg("x", vec(rng, 5)), Arg("y", vec(rng, 5))])
    add("dutils.dayofyear", lambda days: D.dayofyear(days),
        lambda rng: [Arg("days", pd.date_range("2001-02-20", periods=20), "fixed")])
    for ts in ("D", "MS", "h"):
        add(f"dutils.compute_aggindex/{ts}", lambda time, ts=ts: D.compute_aggindex(time, ts),
            lambda rng: [Arg("time", pd.date_range("2001-02-20", periods=80), "fixed")])

    def agg_args(rng):
        n = rng.randint(8, 20)
        return [Arg("aggindex", np.repeat(np.arange(3, N(n)), 3)[:N(n)], "int"), Arg("inputs", vec(rng, n))]
    for op in range(4):
        add(f"dutils.aggregate/op={op}", lambda aggindex, inputs, op=op, **o: D.aggregate(aggindex, inputs, operator=op, **o), agg_args,
            options={"maxnan": [0, 1, 5]})
    add("dutils.flathomogen", lambda aggindex, inputs, **o: D.flathomogen(aggindex, inputs, **o), agg_args,
        options={"maxnan": [0, 1, 5]})
    for lg in (-2, 0, 3):
        add(f"dutils.lag/{lg}", lambda data, lg=lg, **o: D.lag(data, lg, **o), lambda rng: [Arg("data", vec(rng))],
            options={"missing": [np.nan, -9.]})
    add("dutils.lag/2d", lambda data: D.lag(data, 1), lambda rng: [Arg("data", mat(rng, 8, 3))])

    def daily(rng, n=800):
        return pd.Series(np.array(floats(rng, n)), index=pd.date_range("2001-01-01", periods=n))
    add("dutils.water_year_end", lambda x, **o: D.water_year_end(x, **o), lambda rng: [Arg("x", daily(rng), "fixed")], "fixed",
        options={"convolve_window": [3, 5]})

    def monthly(rng):
        return pd.Series(holes(rng, floats(rng, 14)), index=pd.date_range("2001-01-01", periods=14, freq="MS"))
    for ip in ("flat", "cubic"):
        add(f"dutils.monthly2daily/{ip}", lambda se, ip=ip, **o: D.monthly2daily(se, interpolation=ip, **o),
            lambda rng: [Arg("se", monthly(rng), "fixed")], "fixed", options={"minthreshold": [0., 1.]})

    def irregular(rng):
        n = 30
        t0 = np.datetime64("2001-01-01T00:10:00", "ns")
        stamps = t0 + np.cumsum(np.array([rng.randint(600, 4000) for _ in range(n)])).astype("timedelta64[s]")
        return pd.Series(np.array(floats(rng, n)), index=pd.DatetimeIndex(stamps.astype("datetime64[ns]")))
    for rain in (False, True):
        add(f"dutils.var2h/rainfall={rain}", lambda se, rain=rain, **o: D.var2h(se, rainfall=rain, **o),
            lambda rng: [Arg("se", irregular(rng), "fixed")], "fixed",
            options={"nbsec_per_period": [3600, 1800], "maxgapsec": [5 * 86400, 3600]})
    add("dutils.oz_timezone", lambda: D.oz_timezone(147.3, -35.2), lambda rng: [], "fixed")

    # ---------------- qualitycontrol / signatures
    add("qualitycontrol.ismisscens", lambda x, **o: Q.ismisscens(x, **o), options={"censor": [1., 0.], "eps": [1e-10, 0.5]},
        gen=
        lambda rng: [Arg("x", np.where(np.arange(N(15)) % 4 == 0, np.nan, vec(rng, 15, 0, 3)))])
    add("qualitycontrol.ismisscens/2d", lambda x: Q.ismisscens(x, censor=1.), lambda rng: [Arg("x", mat(rng, 8, 2, 0, 3))])
    add("qualitycontrol.islinear", lambda data, **o: Q.islinear(data, **o),
        options={"npoints": [3, 1, 2], "tol": [1e-6, 0.5], "thresh": [0., 3.]}, gen=
        lambda rng: [Arg("data", np.concatenate([np.arange(6.), vec(rng, 6), np.ones(5)]))])
    add("signatures.eckhardt", lambda flow, **o: SG.eckhardt(flow, **o), lambda rng: [Arg("flow", vec(rng, 30))],
        options={"thresh": [0.95, 0.5], "tau": [20, 100], "BFI_max": [0.8, 0.3], "timestep_type": [1, 0]})
    add("signatures.fdcslope", lambda x, **o: SG.fdcslope(x, **o), lambda rng: [Arg("x", holes(rng, vec(rng, 40)))],
        options={"q1": [50, 10], "q2": [90, 100], "cst": [0.375, 0.]})
    add("signatures.goue", lambda aggindex, values: SG.goue(aggindex, values),
        lambda rng: [Arg("aggindex", np.repeat(np.arange(3, N(40)), 4)[:N(40)], "int"), Arg("values", vec(rng, 40))])

    # ---------------- Grid methods
    def gshape():
        """(nrows, ncols): more cells than the nprint=100 default of the grid kernels in the `big` cases"""
        return (23, 24) if H.big else (6, 7)

    def fgrid(rng, dtype=None):
        nr, nc = gshape()
        g = G.Grid("g", nc, nr, cellsize=1., xllcorner=0., yllcorner=0., dtype=dtype or np.float64, nodata=-9)
        vals = np.round(np.array(floats(rng, nr * nc, 0, 50))).reshape(nr, nc)
        if H.varied and np.dtype(g.dtype).kind == "f":
            # missing cells in the first row, in the middle, in the last row and somewhere else
            vals = inject(np, rng, vals, "nan")
        g.data = vals
        return g
    gtypes = [np.float64, np.float32, np.int64, np.int32]

    def gxy(rng, npts=None):
        """points of the 7x6 unit grid anchored at (0, 0); in the varied cases also points AT the documented limits of
        the domain: the four corners, the right / top edge (cells are closed on their lower-left sides), cell borders"""
        pts = [[rng.uniform(0.1, 6.9), rng.uniform(0.1, 5.9)] for _ in range(npts or rng.randint(2, 9))]
        if H.varied:
            edge = [[0., 0.], [7., 6.], [7., 0.], [0., 6.], [7., rng.uniform(0, 6)], [rng.uniform(0, 7), 6.],
                    [0., rng.uniform(0, 6)], [rng.uniform(0, 7), 0.], [3., 2.], [7. - 1e-12, 6. - 1e-12]]
            for i in range(len(pts)):
                if rng.random() < 0.6:
                    pts[i] = list(rng.choice(edge))
        return np.array(pts)

    def gcells(rng):
        """cell numbers; in the varied cases also the first and last cell and numbers just outside the grid"""
        cells = [rng.randrange(42) for _ in range(rng.randint(2, 9))]
        if H.varied:
            for i in range(len(cells)):
                if rng.random() < 0.5:
                    cells[i] = rng.choice([0, 41, 6, 35, -1, 42])
        return np.array(cells)
    add("Grid.coord2cell", lambda self, xycoords: self.coord2cell(xycoords),
        lambda rng: [Arg("self", fgrid(rng, rng.choice(gtypes)), "fixed"), Arg("xycoords", gxy(rng))])
    add("Grid.cell2coord", lambda self, idxcells: self.cell2coord(idxcells),
        lambda rng: [Arg("self", fgrid(rng, rng.choice(gtypes)), "fixed"), Arg("idxcells", gcells(rng), "int")])
    add("Grid.cell2rowcol", lambda self, idxcells: self.cell2rowcol(idxcells),
        lambda rng: [Arg("self", fgrid(rng, rng.choice(gtypes)), "fixed"), Arg("idxcells", gcells(rng), "int")])
    add("Grid.neighbours", lambda self, idxcell: self.neighbours(idxcell),
        lambda rng: [Arg("self", fgrid(rng, rng.choice(gtypes)), "fixed"), Arg("idxcell", rng.randrange(42), "fixed")],
        "fixed")
    add("Grid.slice", lambda self, xyslice: self.slice(xyslice),
        lambda rng: [Arg("self", fgrid(rng, rng.choice(gtypes)), "fixed"), Arg("xyslice", gxy(rng))])
    add("Grid.__getitem__", lambda self, index: self[index],
        lambda rng: [Arg("self", fgrid(rng, rng.choice(gtypes)), "fixed"), Arg("index", gcells(rng), "int")])
    add("Grid.data.setter", covers=["Grid.data"], fn= lambda self, value: (setattr(self, "data", value), self.data)[1],
        gen=lambda rng: [Arg("self", G.Grid("g", 7, 6, dtype=rng.choice(gtypes)), "receiver"), Arg("value", mat(rng, 6, 7, 0, 50))])
    add("Grid.__setitem__", lambda self, index, value: (self.__setitem__(index, value), self.data)[1],
        lambda rng: [Arg("self", fgrid(rng, rng.choice(gtypes)), "receiver"), Arg("index", np.array([3, 11, 40]), "int"),
                     Arg("value", vec(rng, 3))])
    add("Grid.clip", lambda self, x0: self.clip(x0, 1.3, 5.1, 4.2),
        lambda rng: [Arg("self", fgrid(rng, rng.choice(gtypes)), "fixed"), Arg("x0", rng.uniform(0.2, 2.8), "fixed")], "fixed")
    add("Grid.clone", lambda self: self.clone(np.float32),
        lambda rng: [Arg("self", fgrid(rng, rng.choice(gtypes)), "fixed")], "fixed")
    add("Grid.to_dict", lambda self: self.to_dict(),
        lambda rng: [Arg("self", fgrid(rng, rng.choice(gtypes)), "fixed")], "fixed")
    # user callbacks: pure ones and ones that work in place on the array they are given and return it (legitimate with
    # Grid.apply, which documents that the function receives the grid data and its output becomes the new grid)
    def cb_floor(z):
        z[z < 20] = 0
        return z

    def cb_shift(z, value):
        z += value
        return z

    def cb_nan(z):
        return np.nan_to_num(z, copy=False, nan=-1.)

    def cb_sort(z):
        z.sort(axis=1)
        return z
    add("Grid.apply/pure", lambda self: self.apply(np.sqrt),
        lambda rng: [Arg("self", fgrid(rng, rng.choice([np.float64, np.float32])), "fixed")], "fixed")
    add("Grid.apply/pure_args", lambda self: self.apply(np.clip, 5, a_max=30),
        lambda rng: [Arg("self", fgrid(rng, rng.choice(gtypes)), "fixed")], "fixed")
    add("Grid.apply/inplace_mask", lambda self: self.apply(cb_floor),
        lambda rng: [Arg("self", fgrid(rng, rng.choice(gtypes)), "fixed")], "fixed")
    add("Grid.apply/inplace_add", lambda self, value: self.apply(cb_shift, value),
        lambda rng: [Arg("self", fgrid(rng, rng.choice(gtypes)), "fixed"), Arg("value", rng.randint(1, 9), "fixed")], "fixed")
    add("Grid.apply/inplace_nan_to_num", lambda self: self.apply(cb_nan),
        lambda rng: [Arg("self", fgrid(rng, rng.choice([np.float64, np.float32])), "fixed")], "fixed")
    add("Grid.apply/inplace_sort", lambda self: self.apply(cb_sort),
        lambda rng: [Arg("self", fgrid(rng, rng.choice(gtypes)), "fixed")], "fixed")
    add("Grid.same_geometry", lambda self, grd: self.same_geometry(grd),
        lambda rng: [Arg("self", fgrid(rng), "fixed"), Arg("grd", fgrid(rng, np.int32), "fixed")], "fixed")

    def coarse(rng, dtype=None):
        g = G.Grid("coarse", 3, 3, cellsize=3., xllcorner=-0.5, yllcorner=-0.5, dtype=dtype or np.float64)
        g.data = np.round(np.array(floats(rng, 9, 0, 50))).reshape(3, 3)
        return g
    for meth in ("nearest", "linear"):
        add(f"Grid.interpolate/{meth}", lambda self, grid, meth=meth: self.interpolate(grid, method=meth),
            lambda rng: [Arg("self", fgrid(rng, rng.choice(gtypes)), "fixed"),
                         Arg("grid", coarse(rng, rng.choice(gtypes)), "fixed")], "fixed")
    poly = np.array([[1., 1.], [5., 1.2], [5.5, 4.5], [2., 5.], [1., 1.]])
    add("Grid.cells_inside_polygon", lambda self, polygon, **o: self.cells_inside_polygon(polygon, **o),
        options={"atol": [1e-8, 0.1]}, gen=
        lambda rng: [Arg("self", fgrid(rng, rng.choice(gtypes)), "fixed"), Arg("polygon", poly + rng.uniform(0, 0.3))])

    def plotted(f):
        def run(**kw):
            fig, ax = plt.subplots()
            try:
                return f(ax=ax, **kw)
            finally:
                plt.close(fig)
        return run
    add("Grid.plot", plotted(lambda ax, self: (self.plot(ax), None)[1]),
        lambda rng: [Arg("self", fgrid(rng, rng.choice(gtypes)), "fixed")], "fixed")
    add("Grid.plot_values", plotted(lambda ax, self: (self.plot_values(ax), None)[1]),
        lambda rng: [Arg("self", fgrid(rng, rng.choice(gtypes)), "fixed")], "fixed")

    # ---------------- Catchment methods
    def catch(rng, boundary=True):
        return make_catchment(H, rng, boundary=boundary, flowdir=make_flowdir(H, rng, *gshape(), dtype=np.int64))
    add("Catchment.upstream", lambda self, idxdown: self.upstream(idxdown),
        lambda rng: [Arg("self", rawcatch(rng), "fixed"), Arg("idxdown", gcells(rng), "int")])
    add("Catchment.downstream", lambda self, idxup: self.downstream(idxup),
        lambda rng: [Arg("self", rawcatch(rng), "fixed"), Arg("idxup", gcells(rng), "int")])
    # mutators of their receiver: the receiver is rebuilt, the ARGUMENTS are what must stay untouched
    def outlet_cell(rng, nrows=6, ncols=7):
        """the outlet of a delineation: the last cell (everything drains there) in the canonical case; otherwise any cell,
        half of the time one of the first two rows / columns (a handful of cells upstream: fits a small `nval`), else one
        of the lower-right quarter (most of the grid upstream: overflows it), and now and then a cell outside the grid"""
        if not (H.varied or H.big):
            return nrows * ncols - 1
        u = rng.random()
        if u < 0.45:
            r, c = rng.choice([(rng.randrange(2), rng.randrange(ncols)), (rng.randrange(nrows), rng.randrange(2))])
        elif u < 0.9:
            r, c = rng.randrange(nrows // 2, nrows), rng.randrange(ncols // 2, ncols)
        elif u < 0.95:
            return rng.choice([-1, nrows * ncols])
        else:
            r, c = rng.randrange(nrows), rng.randrange(ncols)
        return r * ncols + c

    def inlet_cells(rng):
        if not (H.varied or H.big):
            return np.array([0, 8])
        return np.array([rng.randrange(42) for _ in range(rng.randint(1, 3))])
    add("Catchment.delineate_area", lambda flowdir, idxinlets, outlet, **o: _delin(G, flowdir, idxinlets, outlet, **o),
        options={"nval": [1000000, 5, 20, 1, 8, 12]}, faulty=True, gen=
        lambda rng: [Arg("flowdir", make_flowdir(H, rng, mode=fmode(rng)), "fixed"), Arg("idxinlets", inlet_cells(rng), "int"),
                     Arg("outlet", outlet_cell(rng), "fixed")])
    add("Catchment.delineate_boundary", lambda self, mask: _bound(self, mask),
        lambda rng: _mask_args(H, rng, catch(rng, False)))
    add("Catchment.compute_flowpathlengths", lambda self: _fpl(self),
        lambda rng: [Arg("self", catch(rng), "receiver")], "fixed")
    add("Catchment.intersect", lambda self, grid: self.intersect(grid),
        lambda rng: [Arg("self", catch(rng), "fixed"), Arg("grid", coarse(rng, rng.choice(gtypes)), "fixed")], "fixed")
    add("Catchment.intersect/filled", lambda self, grid: self.intersect(grid, filled=True),
        lambda rng: [Arg("self", catch(rng), "fixed"), Arg("grid", coarse(rng), "fixed")], "fixed")
    add("Catchment.isin", lambda self, cell: (self.isin(cell), self.isin(cell, filled=True)),
        lambda rng: [Arg("self", catch(rng), "fixed"), Arg("cell", rng.randrange(42), "fixed")], "fixed")
    add("Catchment.extent", lambda self: self.extent(), lambda rng: [Arg("self", catch(rng), "fixed")], "fixed")
    add("Catchment.to_dict", lambda self: self.to_dict(), lambda rng: [Arg("self", catch(rng), "fixed")], "fixed")
    add("Catchment.__add__", lambda self, other: self + other,
        lambda rng: [Arg("self", catch(rng), "fixed"), Arg("other", catch(rng), "fixed")], "fixed")
    add("Catchment.__sub__", lambda self, other: self - other,
        lambda rng: [Arg("self", catch(rng), "fixed"), Arg("other", catch(rng), "fixed")], "fixed")
    add("Catchment.compute_area", lambda self: self.compute_area(lambda x, y: (1000. * x, 1000. * y)),
        lambda rng: [Arg("self", catch(rng), "fixed")], "fixed")
    add("Catchment.plot_area", plotted(lambda ax, self: (self.plot_area(ax), None)[1]),
        lambda rng: [Arg("self", catch(rng), "fixed")], "fixed")
    add("Catchment.plot_boundary", plotted(lambda ax, self: (self.plot_boundary(ax), None)[1]),
        lambda rng: [Arg("self", catch(rng), "fixed")], "fixed")

    # ---------------- grid-level functions (grid arguments of every dtype: cell values must be kept)
    def fmode(rng):
        """flow-direction grids: acyclic in the canonical case, then also circular paths and values that are no codes"""
        return rng.choice(["acyclic", "cycle", "cycle", "invalid"]) if H.varied or H.big else "acyclic"

    def fdir(rng):
        return make_flowdir(H, rng, *gshape(), dtype=rng.choice([np.int64, np.int32, np.float64]), mode=fmode(rng))

    def rawcatch(rng):
        """a catchment whose area is not delineated (one-step queries work on any flow-direction grid)"""
        return G.Catchment("raw", make_flowdir(H, rng, *gshape(), mode=fmode(rng)))
    # size / limit arguments: large enough, the library default (big cases), and BELOW what the call needs (truncated runs)
    add("grid.delineate_river",
        lambda flowdir, idxupstream, nval: G.delineate_river(flowdir, idxupstream, **({} if H.big else dict(nval=nval))),
        lambda rng: [Arg("flowdir", fdir(rng), "fixed"), Arg("idxupstream", rng.choice([0, 0, 1, 8]), "fixed")], "fixed",
        options={"nval": [60, 2, 3, 5, 1, 5000]}, faulty=True)
    add("grid.accumulate", lambda flowdir, to_accumulate, **o: G.accumulate(flowdir, to_accumulate, **o),
        lambda rng: [Arg("flowdir", fdir(rng), "fixed"), Arg("to_accumulate", fgrid(rng, rng.choice(gtypes)), "fixed")], "fixed",
        options={"nprint": [10 ** 9, 100, 1, 7], "max_accumulated_cells": [-1, 1, 3, 10]}, faulty=True)
    add("grid.accumulate/default", lambda flowdir, **o: G.accumulate(flowdir, **o),
        lambda rng: [Arg("flowdir", fdir(rng), "fixed")], "fixed",
        options={"nprint": [10 ** 9, 100, 1, 7], "max_accumulated_cells": [-1, 1, 3, 10]})
    add("grid.slope", lambda flowdir, altitude, **o: G.slope(flowdir, altitude, **o), options={"nprint": [10 ** 9, 100, 1, 7]},
        gen=
        lambda rng: [Arg("flowdir", fdir(rng), "fixed"), Arg("altitude", fgrid(rng, rng.choice(gtypes)), "fixed")], canonical="fixed")
    add("grid.voronoi", lambda catchment, xypoints: G.voronoi(catchment, xypoints),
        lambda rng: [Arg("catchment", catch(rng), "fixed"), Arg("xypoints", gxy(rng))])
    add("grid.gsmooth", lambda grid: G.gsmooth(grid, coastwin=5, sigma=0.5, minval=opt(-np.inf, 20.)),
        lambda rng: [Arg("grid", fgrid(rng, rng.choice([np.float64, np.float32])), "fixed")], "fixed")
    add("grid.gsmooth/integer_grid", lambda grid: G.gsmooth(grid, coastwin=5, sigma=0.5, minval=0),
        lambda rng: [Arg("grid", fgrid(rng, rng.choice([np.int64, np.int32])), "fixed")], "fixed", optional=True)

    def smask(rng):
        nr, nc = gshape()
        m = G.Grid("m", nc, nr, cellsize=1., xllcorner=0., yllcorner=0., dtype=np.int32, nodata=0)
        m.data = (np.array(floats(rng, nr * nc, 0, 1)) > 0.2).astype(int).reshape(nr, nc)
        return m
    add("grid.gsmooth/mask", lambda grid, mask: G.gsmooth(grid, mask, coastwin=5, sigma=0.5, minval=opt(-np.inf, 20.)),
        lambda rng: [Arg("grid", fgrid(rng, rng.choice([np.float64, np.float32])), "fixed"),
                     Arg("mask", smask(rng), "fixed")], "fixed")

    # ---------------- gutils
    add("gutils.points_inside_polygon", lambda points, polygon, **o: H.gutils.points_inside_polygon(points, polygon, **o),
        options={"atol": [1e-8, 0.1]}, gen=
        lambda rng: [Arg("points", gxy(rng)), Arg("polygon", poly + rng.uniform(0, 0.3))])

    # a caller-supplied output / work vector: the same object in every call of a history; the answer must be the one
    # of the call without it
    add("gutils.points_inside_polygon/inside",
        lambda points, polygon, inside, **o: np.array(H.gutils.points_inside_polygon(points, polygon, inside=inside, **o)),
        options={"atol": [1e-8, 0.1]},
        gen=lambda rng: [Arg("points", gxy(rng, 12) + rng.choice([0., 0., 3., -2.]), kinds=["c64", "strided", "revF", "flt"]),
                         Arg("polygon", (poly - 3.) * rng.choice([1., 0.5, 0.3]) + 3. + rng.uniform(-1.5, 1.5)),
                         Arg("inside", np.full(12, rng.choice([0, 1, 5]), dtype=np.int32), "work")],
        covers=["gutils.points_inside_polygon"],
        reference=lambda points, polygon, inside, **o: np.array(H.gutils.points_inside_polygon(points, polygon, **o)))

    # ---------------- plots
    add("boxplot.boxplot_stats", lambda data: H.boxplot.boxplot_stats(data, 50., 90.),
        lambda rng: [Arg("data", holes(rng, vec(rng, 30)))])

    def bp(data, **kw):
        fig, ax = plt.subplots()
        try:
            b = H.boxplot.Boxplot(data, **kw)
            b.draw(ax=ax)
            return b.stats
        finally:
            plt.close(fig)
    add("boxplot.Boxplot", lambda data, **o: bp(data, **o), covers=["boxplot.Boxplot.__init__", "boxplot.Boxplot.draw"], gen= lambda rng: [Arg("data", holes(rng, mat(rng, 25, 3)))],
        options={"style": ["default", "narrow"], "show_mean": [False, True], "show_text": [False, True],
                 "width_from_count": [False, True], "box_coverage": [50., 80.], "whiskers_coverage": [90., 95.]})
    add("boxplot.Boxplot/1d", lambda data: bp(data, show_text=True, show_mean=True), lambda rng: [Arg("data", vec(rng, 25))])
    add("boxplot.Boxplot/by", lambda data, by: bp(data, by=by),
        lambda rng: [Arg("data", pd.Series(vec(rng, 30)), "fixed"),
                     Arg("by", pd.Series(np.array([rng.randrange(3) for _ in range(30)])), "fixed")], "fixed")

    def vp(data, **kw):
        fig, ax = plt.subplots()
        try:
            vl = H.violinplot.Violin(data, **kw)    # library defaults: npoints_kde, nresample_kde=500
            vl.draw(ax=ax)
            return (vl.stats, vl.kde_x, vl.kde_y)
        finally:
            plt.close(fig)
    add("violinplot.Violin", lambda data, **o: vp(data, **o), covers=["violinplot.Violin.__init__"], gen= lambda rng: [Arg("data", holes(rng, mat(rng, 25, 2)))],
        options={"show_text": [True, False], "npoints_kde": [None, 20, 101]})
    add("putils.kde", lambda xy, **o: H.putils.kde(xy, **o), lambda rng: [Arg("xy", mat(rng, 25, 2, -2, 2))],
        options={"ngrid": [8, 2, 50], "eps": [1e-10, 1e-3]})
    add("putils.kde/ties", lambda xy: H.putils.kde(xy, ngrid=8),
        lambda rng: [Arg("xy", np.round(mat(rng, 25, 2, -2, 2)))])
    add("putils.kde/eps=0", lambda xy: H.putils.kde(xy, ngrid=8, eps=0.), lambda rng: [Arg("xy", mat(rng, 25, 2, -2, 2))])
    add("putils.ecdfplot", plotted(lambda ax, df, **o: H.putils.ecdfplot(ax, df, **o)),
        lambda rng: [Arg("df", holes(rng, mat(rng, 20, 3)))], "pandas",
        options={"label_stat": ["mean", None, "median"], "cst": [0., 0.3]})
    for al in (False, True):
        add(f"putils.qqplot/addline={al}", plotted(lambda ax, data, al=al, **o: H.putils.qqplot(ax, data, addline=al, **o)),
            lambda rng: [Arg("data", holes(rng, vec(rng, 25)))], options={"censor": [None, 3.]})

    # ---------------- the rest of the public inventory of the four packages (accessors, constructors from
    # dictionaries, the remaining plot helpers taking arrays, object methods of Boxplot / Violin / Transform)
    add("Grid.accessors", lambda self: (self.shape, self.xlim, self.ylim, self.xvalues, self.yvalues, self.nodata,
                                        self.mindata, self.maxdata, self.dtype, np.array(self.data)),
        lambda rng: [Arg("self", fgrid(rng, rng.choice(gtypes)), "fixed")], "fixed",
        covers=["Grid." + k for k in ("shape", "xlim", "ylim", "xvalues", "yvalues", "nodata", "mindata", "maxdata",
                                      "dtype", "data", "__init__")])

    def gset(g, attr, val):
        setattr(g, attr, val)
        return np.array(g.data), g.dtype
    add("Grid.fill", lambda self, value: (self.fill(value), np.array(self.data))[1],
        lambda rng: [Arg("self", fgrid(rng, rng.choice(gtypes)), "receiver"), Arg("value", rng.randint(0, 9), "fixed")], "fixed")
    for attr, vals in (("mindata", [5, 10]), ("maxdata", [40, 30]), ("nodata", [-1, -5]), ("dtype", [np.float32, np.int64])):
        add(f"Grid.{attr}.setter", lambda self, value, attr=attr: gset(self, attr, value),
            lambda rng, vals=vals: [Arg("self", fgrid(rng, rng.choice(gtypes)), "receiver"),
                                    Arg("value", rng.choice(vals), "fixed")], "fixed", covers=[f"Grid.{attr}"])
    add("Grid.set_parent_attributes", lambda self, grid: (self.set_parent_attributes(grid, 1, 3, 0, 2), None)[1],
        lambda rng: [Arg("self", fgrid(rng), "receiver"), Arg("grid", fgrid(rng, rng.choice(gtypes)), "fixed")], "fixed")
    add("Grid.from_dict", lambda dic: G.Grid.from_dict(dic),
        lambda rng: [Arg("dic", fgrid(rng, rng.choice(gtypes)).to_dict(), "fixed")], "fixed")
    add("Catchment.from_dict", lambda dic: G.Catchment.from_dict(dic),
        lambda rng: [Arg("dic", catch(rng).to_dict(), "fixed")], "fixed")
    add("Catchment.clone", lambda self: self.clone(), lambda rng: [Arg("self", catch(rng), "fixed")], "fixed")
    add("Catchment.accessors",
        lambda self: (self.idxcell_outlet, self.idxinlets, np.array(self.idxcells_area), np.array(self.idxcells_area_filled),
                      self.flowpathlengths, np.array(self.xycells_boundary), np.array(self.idxcells_boundary),
                      np.array(self.flowdir.data)),
        lambda rng: [Arg("self", catch(rng), "fixed")], "fixed",
        covers=["Catchment." + k for k in ("idxcell_outlet", "idxinlets", "idxcells_area", "idxcells_area_filled",
                                           "flowpathlengths", "xycells_boundary", "idxcells_boundary", "flowdir",
                                           "__init__")])
    add("putils.bivarnplot", plotted(lambda ax, xy, **o: (H.putils.bivarnplot(ax, xy, **o), None)[1]),
        lambda rng: [Arg("xy", mat(rng, 30, 2, -2, 2))], options={"add_semicorr": [True, False]})
    add("putils.scattercat", plotted(lambda ax, x, y, z, **o: H.putils.scattercat(ax, x, y, z, **o)),
        lambda rng: [Arg("x", vec(rng, 30)), Arg("y", vec(rng, 30)), Arg("z", vec(rng, 30))],
        options={"ncats": [5, 3], "show_extremes_in_legend": [True, False]})
    add("putils.cov_ellipse", lambda mu, cov, **o: np.array(H.putils.cov_ellipse(mu, cov, **o).get_verts()),
        lambda rng: [Arg("mu", vec(rng, 2)), Arg("cov", np.array([[2., 0.3], [0.3, 1.]]) * rng.uniform(0.5, 2))],
        options={"pvalue": [0.95, 0.5]})
    add("putils.colors2cmap", lambda colors: H.putils.colors2cmap(colors)(np.linspace(0, 1, 7)),
        lambda rng: [Arg("colors", {0.: "#3399FF", rng.choice([0.1, 0.4]): "#33FFFF", 1.0: "#33FF99"}, "fixed")], "fixed")
    add("putils.cmap2colors", lambda ncols, cmap: H.putils.cmap2colors(ncols, cmap),
        lambda rng: [Arg("ncols", rng.randint(3, 9), "fixed"), Arg("cmap", "safe", "fixed")], "fixed")
    add("putils.cmap2colors/named", lambda ncols, cmap: H.putils.cmap2colors(ncols, cmap),
        lambda rng: [Arg("ncols", rng.randint(3, 9), "fixed"), Arg("cmap", rng.choice(["Paired", "viridis"]), "fixed")],
        "fixed", optional=True)
    add("boxplot.compute_percentiles", lambda coverage: H.boxplot.compute_percentiles(coverage),
        lambda rng: [Arg("coverage", rng.choice([50., 90., 10.]), "fixed")], "fixed")

    def bp_methods(data):
        fig, ax = plt.subplots()
        try:
            b = H.boxplot.Boxplot(data, show_text=True)
            b.draw(ax=ax)
            b.show_count()
            b.set_ylim((1., 8.))
            try:
                b.set_color(".*", "tab:red")
                coloured = True
            except TypeError:           # column labels that are not strings (ndarray input) are not matched by `re`
                coloured = False
            return b.stats, ax.get_ylim(), coloured
        finally:
            plt.close(fig)
    add("boxplot.Boxplot/methods", lambda data: bp_methods(data), lambda rng: [Arg("data", holes(rng, mat(rng, 25, 3)))],
        covers=["boxplot.Boxplot." + k for k in ("__init__", "draw", "stats", "ax", "show_count", "set_ylim", "set_color")])

    def vp_methods(data):
        fig, ax = plt.subplots()
        try:
            vl = H.violinplot.Violin(data)
            vl.reset_items()
            vl.draw(ax=ax, ylim=(0., 12.))
            return vl.stats, vl.kde_x, vl.kde_y, vl.data
        finally:
            plt.close(fig)
    add("violinplot.Violin/methods", lambda data: vp_methods(data), lambda rng: [Arg("data", holes(rng, mat(rng, 25, 2)))],
        covers=["violinplot.Violin." + k for k in ("__init__", "draw", "stats", "ax", "data", "kde_x", "kde_y", "reset_items")])

    def tr_misc(trans):
        out = []
        for m in ("get_nu", "get_lam", "get_xmax", "params_logprior"):
            if hasattr(trans, m):
                try:
                    out.append(getattr(trans, m)())
                except Exception as e:      # noqa: the base class raises NotImplementedError for some
                    out.append(type(e).__name__)
        out += [np.array(trans.params.values), np.array(trans.constants.values),
                [trans[k] for k in trans.params.names]]
        return out
    for tn in tnames:
        add(f"transform.{tn}.misc", lambda trans: tr_misc(trans), lambda rng, tn=tn: [Arg("trans", tr_make(tn, rng), "fixed")],
            "fixed", covers=[f"transform.{tn}." + k for k in ("__init__", "get_nu", "get_lam", "get_xmax", "params_logprior")]
            + ["transform.Transform." + k for k in ("params", "constants", "__getitem__", "__init__", "params_logprior")])

    def tr_set(trans, value):
        trans[trans.params.names[0]] = value
        held = float(trans[trans.params.names[0]])
        trans.reset()
        return held, np.array(trans.params.values)

    def tr_set_args(rng):
        tr = tr_make(rng.choice(["Log", "BoxCox2", "YeoJohnson", "Sinh"]), rng)
        return [Arg("trans", tr, "receiver"), Arg("value", float(tr[tr.params.names[0]]) * rng.choice([0.9, 0.8]), "fixed")]
    add("transform.Transform.__setitem__", lambda trans, value: tr_set(trans, value), tr_set_args, "fixed",
        covers=["transform.Transform.__setitem__", "transform.Transform.reset"])
    add("transform.get_transform", lambda name: T.get_transform(name).params.values,
        lambda rng: [Arg("name", rng.choice(tnames), "fixed")], "fixed")
    return E


def _delin(G, flowdir, idxinlets, outlet, **o):
    ca = G.Catchment("x", flowdir)
    ca.delineate_area(outlet, idxinlets, **o)
    return (ca._idxcells_area, ca._idxcells_area_filled, ca._idxinlets, ca._idxcell_outlet)


def _bound(ca, mask):
    ca.delineate_boundary(mask)
    return (ca._idxcells_boundary, ca._xycells_boundary)


def _fpl(ca):
    ca.compute_flowpathlengths()
    return ca.flowpathlengths


def _mask_args(H, rng, ca):
    np = H.np
    mask = np.zeros(ca._flowdir.nrows * ca._flowdir.ncols, dtype=np.int64)
    mask[ca._idxcells_area_filled] = 1
    return [Arg("self", ca, "receiver"), Arg("mask", mask, "int", kinds=["c64"])]


# functions of the quantifier that raise on EVERY input in this environment (nothing can be observed for them)
UNRUNNABLE = {
    "dutils.dayofyear": "pandas 3 returns a read-only `.values`; the function assigns into it and raises",
    "transform.Softmax.backward_censored": "np.maximum / float conversion of a 2-D censor: raises for every input",
    "transform.YeoJohnson.backward_censored": "forward(censor) of a scalar raises TypeError for every input",
    "putils.scattercat": "uses matplotlib.cm.get_cmap, removed from the installed matplotlib: raises for every input",
}


def oracle(ctx, H, rec, entries):
    np, pd = H.np, H.pd
    rng = ctx.rng
    sn = Snap(H)
    accepted_canonical = {}
    stats = {"calls": 0, "rejected": 0, "retyped": 0}
    for ent in entries:
        plans = []
        probe = ent.gen(rng)
        data_args = [a.name for a in probe if a.nature in ("float", "int")]
        if not data_args:
            plans = [("fixed", {})] * ctx.scale(8, 40) + [("fixed/big", {})] * ctx.scale(2, 6)
        else:
            for k in KINDS:
                plans.append((k, {n: k for n in data_args}))
            # the canonical kind again with missing / infinite values at the start, middle and end, and with sizes
            # beyond the internal thresholds of the library (500-point resampling, 300-step windows, nprint=100 ...)
            for lab in ("c64/nan", "c64/inf", "c64/naninf", "c64/big", "c64/big/nan"):
                plans.append((lab, {n: "c64" for n in data_args}))
            for _ in range(ctx.scale(6, 100)):
                asg = {n: rng.choice(KINDS) for n in data_args}
                plans.append((rng.choice(["mixed", "mixed", "mixed/nan", "mixed/naninf"]), asg))
        for iplan, (label, asg) in enumerate(plans):
            H.tiny = label.startswith("mixed") and rng.random() < 0.15
            H.big = "/big" in label
            H.bigoff = rng.randint(501, 560)
            # grids with missing cells / options away from their defaults: never in the first (canonical) case
            H.varied = iplan > 0 and rng.random() < 0.6
            hmode = label.rsplit("/", 1)[1] if label.rsplit("/", 1)[-1] in ("nan", "inf", "naninf") else "none"
            args = ent.gen(rng)
            kw, keep, kinds_used, unsnapped = {}, [], {}, set()
            for a in args:
                if a.nature in ("fixed", "receiver", "work"):
                    kw[a.name] = a.value
                    if a.nature in ("receiver", "work"):
                        unsnapped.add(a.name)
                    continue
                k = asg.get(a.name, "c64")
                if a.kinds is not None and k not in a.kinds:
                    k = a.kinds[0]
                if ent.canonical == "pandas" and k == "c64":
                    k = "pandas"
                base = inject(np, rng, a.value, hmode) if a.nature == "float" else a.value
                obj, ka = variant(np, pd, base, k, a.nature)
                kw[a.name] = obj
                keep.append(ka)
                kinds_used[a.name] = k
            if hmode != "none":
                kinds_used["holes"] = hmode
            # documented options: defaults in the canonical case, then every listed value in turn / at random
            optvals = {}
            for j, (k, vals) in enumerate(sorted(ent.options.items())):
                optvals[k] = vals[0] if iplan == 0 else (vals[iplan % len(vals)] if j == iplan % len(ent.options)
                                                        else rng.choice(vals))
            if optvals:
                kinds_used["options"] = repr(optvals)
            seed = rng.randrange(2 ** 31)
            before = {n: sn.snap(o) for n, o in kw.items() if n not in unsnapped}
            results, errs = [], []
            sig_kind = label if label != "mixed" else "mixed"
            for rep in range(2):
                np.random.seed(seed)
                n0 = rec.calls
                with warnings.catch_warnings(), quiet_stdout():
                    warnings.simplefilter("ignore")
                    try:
                        results.append(ent.fn(**kw, **optvals))
                        errs.append(None)
                    except Exception as e:        # noqa: a kind may be rejected, provided nothing changed
                        results.append(None)
                        errs.append(f"{type(e).__name__}: {str(e)[:100]}")
                stats["calls"] += 1
                after = {n: sn.snap(o) for n, o in kw.items() if n not in unsnapped}
                for n in after:
                    hard, soft = sn.diff(before[n], after[n], n)
                    if soft:
                        stats["retyped"] += 1
                        ctx.hist["oracle/grid_argument_retyped(values kept)"] = \
                            ctx.hist.get("oracle/grid_argument_retyped(values kept)", 0) + 1
                    if hard:
                        knd = kinds_used.get(n, "fixed")
                        ctx.finding(f"{ent.name}/argument_modified/{n}/{classify(hard[0])}",
                                    f"call {rep + 1} of {ent.name} changed its argument `{n}` ({knd}): {hard[0]}",
                                    {"function": ent.name, "argument": n, "kinds": kinds_used, "difference": hard[:3],
                                     "error": errs[-1], "numpy_seed": seed})
                        before[n] = after[n]       # report each change once
            if errs[0] is None and errs[1] is None:
                d = same(H, results[0], results[1])
                if d:
                    ctx.finding(f"{ent.name}/not_repeatable",
                                f"two consecutive calls of {ent.name} with the same arguments and numpy seed differ: {d}",
                                {"function": ent.name, "kinds": kinds_used, "difference": d, "numpy_seed": seed})
            elif (errs[0] is None) != (errs[1] is None):
                ctx.finding(f"{ent.name}/not_repeatable/second_call_{'fails' if errs[1] else 'succeeds'}",
                            f"the first call of {ent.name} {'succeeds' if errs[0] is None else 'fails'} and the second "
                            f"{'fails' if errs[1] else 'succeeds'} on the same arguments: {errs[1] or errs[0]}",
                            {"function": ent.name, "kinds": kinds_used, "errors": errs, "numpy_seed": seed})
            # a LATER call with other arguments must not reach back into the first result (a work buffer allocated
            # once and returned by every call passes "two calls give equal results" but fails this)
            if errs[0] is None:
                r1 = results[0]
                snap1 = sn.snap(r1)
                kw3 = {}
                for a in ent.gen(rng):
                    if a.name == "self" or a.nature in ("receiver", "work"):
                        kw3[a.name] = kw[a.name]                      # same receiver, other data
                    elif a.nature == "fixed":
                        kw3[a.name] = a.value
                    else:
                        kw3[a.name], ka = variant(np, pd, inject(np, rng, a.value, hmode) if a.nature == "float" else a.value,
                                                  kinds_used.get(a.name, "c64"), a.nature)
                        keep.append(ka)
                shared_in = [v for n in kw3 if kw3[n] is kw.get(n) for v in leaves(H, kw[n])]
                np.random.seed(seed + 1)
                with warnings.catch_warnings(), quiet_stdout():
                    warnings.simplefilter("ignore")
                    try:
                        r3 = ent.fn(**kw3, **optvals)
                    except Exception:      # noqa
                        r3 = None
                stats["calls"] += 1
                l1 = leaves(H, r1)
                if not overlap(H, l1, shared_in + [v for n in kw for v in leaves(H, kw[n])]):
                    hard, soft = sn.diff(snap1, sn.snap(r1), "result")
                    shares = overlap(H, l1, leaves(H, r3))
                    if hard or soft or shares:
                        ctx.finding(f"{ent.name}/result_changed_by_later_call",
                                    f"the result of the first call of {ent.name} "
                                    + ("was modified by" if hard or soft else "shares its buffer with the result of")
                                    + " a later call with other arguments"
                                    + (f": {(hard + soft)[0]}" if hard or soft else ""),
                                    {"function": ent.name, "kinds": kinds_used, "numpy_seed": seed})
            ok = errs[0] is None
            if not ok:
                stats["rejected"] += 1
            if (label == "c64" or (label == "fixed" and not H.varied)
                    or (ent.canonical == "pandas" and label == "pandas")):
                accepted_canonical[ent.name] = accepted_canonical.get(ent.name, False) or ok
                if not ok:
                    accepted_canonical.setdefault(ent.name + "!err", errs[0])
            ctx.count(("oracle", ent.name, label, tuple(sorted(kinds_used.items())), seed), ok,
                      f"oracle/{label}/{'accepted' if ok else 'rejected'}",
                      sample={"function": ent.name, "kinds": kinds_used, "accepted": ok})
    optional = {e.name for e in entries if e.optional}
    never = sorted(n for n, v in accepted_canonical.items() if v is False and n not in UNRUNNABLE and n not in optional)
    ctx.extra["oracle_functions_unrunnable_here"] = UNRUNNABLE
    ctx.extra["oracle_functions"] = len(entries)
    ctx.extra["oracle_calls"] = stats["calls"]
    ctx.extra["oracle_rejected_cases"] = stats["rejected"]
    ctx.extra["oracle_functions_never_accepted"] = {n: accepted_canonical.get(n + "!err") for n in never}
    for n in never:
        ctx.disagree(f"oracle: {n} rejects its canonical input ({accepted_canonical.get(n + '!err')}): nothing is "
                     f"checked for it", {"function": n})

# ----------------------------------------------------------------------------------------------
# inventory: every public function / method / property of the four packages, read from the CURRENT source on every
# run, must be exercised by an entry or excluded here with a reason; every kernel call site must have a DSL term
INVENTORY_MODULES = {"dutils": "data.dutils", "qualitycontrol": "data.qualitycontrol", "signatures": "data.signatures",
                     "containers": "data.containers", "grid": "gis.grid", "gutils": "gis.gutils", "oz": "gis.oz",
                     "putils": "plot.putils", "boxplot": "plot.boxplot", "violinplot": "plot.violinplot",
                     "armodels": "stat.armodels", "metrics": "stat.metrics", "sutils": "stat.sutils",
                     "transform": "stat.transform"}
EXCLUDED = [   # (regex on the qualified public name, reason)
    (r"^containers\.", "bounded vectors are property C12 (state machine with its own aliasing model)"),
    (r"^transform\.\w+\.params_sample$", "parameter sampling belongs to C12 (bounds edited in place: fixed there)"),
    (r"^grid\.Grid\.(from_stream|from_header|from_zip|load|save)$", "file input / output: property C13"),
    (r"^grid\.get_grid$", "reads the packaged reference grids from zip files (C13 reader); no array argument"),
    (r"^oz\.", "map layers: need shapefiles / cartopy data that are not installed; no numeric array argument"),
    (r"^putils\.(blackwhite|darken_or_lighten|set_mpl|line|waterbalplot)$",
     "no array / frame / dictionary argument or result (colour names, rcParams, a file name, axis decorations)"),
    (r"^boxplot\.BoxplotItem\.", "style attributes (strings and scalars), no array data"),
    (r"^boxplot\.Boxplot(Error)?$|^violinplot\.Violin(plotError)?$|^grid\.(Grid|Catchment)$|^transform\.\w+$",
     "the class itself (its methods are listed one by one)"),
]


def inventory(ctx, H, entries):
    import importlib
    import inspect
    import re
    public = []
    for short, mn in INVENTORY_MODULES.items():
        m = importlib.import_module("hydrodiy." + mn)
        for n, o in inspect.getmembers(m):
            if n.startswith("_") or getattr(o, "__module__", None) != m.__name__:
                continue
            if inspect.isfunction(o):
                public.append(f"{short}.{n}")
            elif inspect.isclass(o):
                for k, v in o.__dict__.items():
                    if k.startswith("_") and k not in ("__getitem__", "__setitem__", "__add__", "__sub__", "__init__"):
                        continue
                    if inspect.isfunction(v) or isinstance(v, (property, classmethod, staticmethod)):
                        public.append(f"{short}.{n}.{k}")
    covered = set()
    for e in entries:
        for c in e.covers:
            covered.add(c)
            if c.startswith(("Grid.", "Catchment.")):
                covered.add("grid." + c)
    missing, excluded = [], {}
    for name in public:
        if name in covered:
            continue
        why = next((r for pat, r in EXCLUDED if re.search(pat, name)), None)
        if why is None:
            missing.append(name)
        else:
            excluded[name] = why
    ctx.extra["inventory_public_names"] = len(public)
    ctx.extra["inventory_covered"] = len([n for n in public if n in covered])
    ctx.extra["inventory_excluded"] = {r: sorted(n for n, w in excluded.items() if w == r) for r in set(excluded.values())}
    ctx.extra["inventory_missing"] = missing
    for name in missing:
        ctx.disagree(f"inventory: public name {name} of the current source is neither exercised by an entry of the "
                     f"C18 oracle nor excluded with a reason", {"name": name})
    # kernel call sites of the Python sources vs DSL terms vs what the shim saw
    src = C.REPO / "src" / "hydrodiy"
    used = {}
    for f in sorted(src.rglob("*.py")):
        if "tests" in f.parts:
            continue
        for m in re.finditer(r"c_hydrodiy_(?:data|stat|gis)\.(\w+)\s*(?:\(|$)", f.read_text(), re.M):
            used.setdefault(m.group(1), str(f.relative_to(src)))
    modelled = set(ctx.lean.ask(["kernels"])[0].split(","))
    unmodelled = sorted(k for k in used if k not in modelled and not _scalar_only(H, k))
    ctx.extra["kernel_call_sites"] = len(used)
    ctx.extra["kernel_call_sites_without_dsl_term"] = {k: used[k] for k in unmodelled}
    for k in unmodelled:
        ctx.disagree(f"kernel {k} is called from {used[k]} but no DSL term of the ownership model mentions it",
                     {"kernel": k, "file": used[k]})
    return used


def _scalar_only(H, kname):
    """extension functions that take no array (calendar helpers, combi): nothing to own"""
    for mod in (H.c_data, H.c_stat, H.c_gis):
        f = getattr(mod, kname, None)
        if f is not None:
            doc = (getattr(f, "__doc__", "") or "")
            return kname in ("combi", "isleapyear", "daysinmonth", "dayofyear")
    return False


# ----------------------------------------------------------------------------------------------
# reference answers from a pristine interpreter state: a server process is forked before any library function has
# run; for every request it forks a child that rebuilds the case from its seed, applies the requested edits and makes
# ONE call. Module-level / lru caches, shared default objects and work buffers of the main process cannot reach it.
class Pristine:
    def __init__(self, H, entries):
        import multiprocessing.connection as mpc
        self.H, self.entries = H, entries
        self.conn, child = mpc.Pipe()
        self.ok = self.failed = 0
        self.slow = []
        self.pid = os.fork()
        if self.pid == 0:
            code = 0
            try:
                self.conn.close()
                self.serve(child)
            except BaseException:      # noqa
                code = 1
            os._exit(code)
        child.close()

    def serve(self, conn):
        import pickle
        import select
        while True:
            try:
                req = conn.recv()
            except EOFError:
                return
            if req is None:
                return
            r, w = os.pipe()
            pid = os.fork()
            if pid == 0:
                os.close(r)
                try:
                    out = pickle.dumps(self.answer(req))
                except BaseException as e:     # noqa
                    out = pickle.dumps(("infra", f"{type(e).__name__}: {e}"))
                with os.fdopen(w, "wb") as fh:
                    fh.write(out)
                os._exit(0)
            os.close(w)
            chunks = []
            while True:
                ready, _, _ = select.select([r], [], [], 60)
                if not ready:
                    os.kill(pid, 9)
                    chunks = [pickle.dumps(("infra", "timeout"))]
                    break
                chunk = os.read(r, 1 << 22)
                if not chunk:
                    break
                chunks.append(chunk)
            os.close(r)
            data = b"".join(chunks)
            os.waitpid(pid, 0)
            conn.send_bytes(pickle.dumps((req["id"], pickle.loads(data))))

    def answer(self, req):
        H = self.H
        ent = self.entries[req["entry"]]
        kw, optvals, _ku, _rc = make_case(H, ent, req["spec"])
        for _ in range(req["edits"]):
            mutate_args(H, kw)
        H.np.random.seed(req["numpy_seed"])
        with warnings.catch_warnings(), quiet_stdout():
            warnings.simplefilter("ignore")
            try:
                res = ent.fn(**kw, **optvals)
            except Exception as e:       # noqa
                return ("err", type(e).__name__)
        return ("ok", Snap(H, values_only=True).snap(res))

    def ask(self, entry_index, spec, edits, numpy_seed):
        import pickle
        import time
        self.nreq = getattr(self, "nreq", 0) + 1
        t0 = time.time()
        try:
            self.conn.send({"id": self.nreq, "entry": entry_index, "spec": spec, "edits": edits,
                            "numpy_seed": numpy_seed})
            while True:
                if not self.conn.poll(90):
                    raise TimeoutError("pristine server")
                rid, rep = pickle.loads(self.conn.recv_bytes())
                if rid == self.nreq:         # a late reply to a request given up earlier is dropped
                    break
        except Exception as e:       # noqa
            rep = ("infra", f"{type(e).__name__}: {e}")
        dt = time.time() - t0
        if dt > 5 or rep[0] == "infra":
            self.slow.append((self.entries[entry_index].name, round(dt, 1), rep[1] if rep[0] == "infra" else "slow"))
        if rep[0] == "infra":
            self.failed += 1
        else:
            self.ok += 1
        return rep

    def close(self):
        try:
            self.conn.send(None)
            self.conn.close()
            os.waitpid(self.pid, 0)
        except Exception:     # noqa
            pass


def make_case(H, ent, spec):
    """the arguments of one case, a deterministic function of `spec` (so that another process can rebuild them)"""
    import random
    np, pd = H.np, H.pd
    rng = random.Random(spec["seed"])
    H.tiny, H.big, H.bigoff, H.varied = spec["tiny"], spec["big"], spec["bigoff"], spec["varied"]
    hmode, asg, iplan = spec["holes"], spec["asg"], spec["iplan"]
    kw, kinds_used, receivers = {}, {}, set()
    for a in ent.gen(rng):
        if a.nature in ("fixed", "receiver", "work"):
            kw[a.name] = a.value
            if a.nature == "receiver":
                receivers.add(a.name)
            if a.nature == "work" or a.name == "self":
                kw.setdefault("__shared__", set()).add(a.name)
            continue
        k = asg.get(a.name, "c64")
        if a.kinds is not None and k not in a.kinds:
            k = a.kinds[0]
        if ent.canonical == "pandas" and k == "c64":
            k = "pandas"
        base = inject(np, rng, a.value, hmode) if a.nature == "float" else a.value
        obj, ka = variant(np, pd, base, k, a.nature)
        kw[a.name] = obj
        kw.setdefault("__keep__", []).append(ka)
        kinds_used[a.name] = k
    keep = kw.pop("__keep__", [])
    H._shared = kw.pop("__shared__", set())
    optvals = {}
    for j, (k, vals) in enumerate(sorted(ent.options.items())):
        optvals[k] = vals[0] if iplan == 0 else (vals[iplan % len(vals)] if j == iplan % len(ent.options)
                                                else rng.choice(vals))
    if optvals:
        kinds_used["options"] = repr(optvals)
    if hmode != "none":
        kinds_used["holes"] = hmode
    H._keepalive = keep
    return kw, optvals, kinds_used, receivers


def _edit_array(np, a):
    """equal-size in-place edit: other values, same dtype / shape / kind of content"""
    if a.size == 0 or not a.flags.writeable:
        return
    rolled = np.roll(a, 1, axis=0).copy() if a.ndim else a.copy()
    if a.dtype.kind == "f":
        a[...] = rolled * 0.75 + 0.01
    else:
        a[...] = rolled


def mutate_args(H, kw):
    """edit the arguments in place (arrays, lists, frames), re-assign public attributes of the objects (Grid.data,
    transform parameters): same sizes, other values. Deterministic."""
    np, pd = H.np, H.pd

    def edit(x, depth=0):
        if isinstance(x, np.ndarray):
            if x.dtype != object:
                _edit_array(np, x)
        elif isinstance(x, (pd.Series, pd.DataFrame)):
            v = np.array(x.values)
            if v.dtype != object and v.size:
                _edit_array(np, v)
                x.iloc[...] = v
        elif isinstance(x, list) and depth < 4:
            if x and all(isinstance(e, (int, float)) and not isinstance(e, bool) for e in x):
                v = np.array(x)
                _edit_array(np, v)
                x[:] = v.tolist()
            else:
                for e in x:
                    edit(e, depth + 1)
        elif isinstance(x, H.grid.Grid):
            # public attribute re-assigned, equal size; a pure rearrangement of the cell values, so that the edit does
            # not depend on the dtype the grid happens to have (the grid functions convert their arguments)
            x.data = np.roll(np.roll(np.array(x.data), 1, axis=0), 2, axis=1)
        elif isinstance(x, H.transform.Transform):
            for k in list(x.params.names)[:1]:
                try:
                    x[k] = x[k] * 0.95
                except Exception:      # noqa
                    pass
    for n in sorted(kw):
        edit(kw[n])


def scramble(H, x, depth=0):
    """what a caller may do with a result it owns: overwrite it in place"""
    np, pd = H.np, H.pd
    if isinstance(x, np.ndarray):
        if x.dtype != object and x.size and x.flags.writeable:
            x[...] = (~x if x.dtype.kind == "b" else (7 if x.dtype.kind in "iu" else -12345.678))
    elif isinstance(x, (pd.Series, pd.DataFrame)):
        try:
            x.iloc[...] = -12345.678 if all(str(t).startswith("float") for t in np.atleast_1d(x.dtypes)) else 7
        except Exception:      # noqa
            pass
    elif depth > 5:
        return
    elif isinstance(x, list):
        if x and all(isinstance(e, (int, float)) for e in x):
            x[:] = [7] * len(x)
        for e in x:
            scramble(H, e, depth + 1)
    elif isinstance(x, tuple):
        for e in x:
            scramble(H, e, depth + 1)
    elif isinstance(x, dict):
        for k in list(x):
            if isinstance(x[k], (int, float, str)) and not isinstance(x[k], bool):
                x[k] = 7
            else:
                scramble(H, x[k], depth + 1)
    elif isinstance(x, H.grid.Grid):
        scramble(H, x._data, depth + 1)
    elif isinstance(x, H.grid.Catchment):
        for k in ("_idxcells_area", "_idxcells_area_filled", "_idxcells_boundary", "_xycells_boundary"):
            scramble(H, getattr(x, k, None), depth + 1)
        scramble(H, x._flowdir, depth + 1)


def spoil(H, kw, shared, mode):
    """the arguments of a case made unfit for the call (the usual ways a caller gets it wrong): `short` = the LAST data
    argument loses its last element (paired series of unequal lengths; a table that no longer matches), `nan` = every
    float data argument is all-NaN. Copies: the originals are left alone. -> None when the case has no data argument."""
    np, pd = H.np, H.pd
    names = [n for n in sorted(kw) if n not in shared and isinstance(kw[n], (np.ndarray, pd.Series, pd.DataFrame, list))
             and len(kw[n]) > 0]
    if not names:
        return None
    out = dict(kw)
    if mode == "short":
        n = names[-1]
        x = kw[n]
        out[n] = (x.iloc[:-1].copy() if isinstance(x, (pd.Series, pd.DataFrame)) else
                  (x[:-1].copy() if isinstance(x, np.ndarray) else list(x[:-1])))
        return out
    done = False
    for n in names:
        x = kw[n]
        if isinstance(x, np.ndarray) and x.dtype.kind == "f":
            out[n] = np.full_like(x, np.nan)
            done = True
        elif isinstance(x, pd.Series) and x.dtype.kind == "f":
            out[n] = pd.Series(np.full(len(x), np.nan), index=x.index, name=x.name)
            done = True
        elif isinstance(x, pd.DataFrame) and all(t.kind == "f" for t in x.dtypes):
            out[n] = pd.DataFrame(np.full(x.shape, np.nan), index=x.index, columns=x.columns)
            done = True
    return out if done else None


def snap_equal(a, b):
    if isinstance(a, float) and isinstance(b, float):
        return a == b or (a != a and b != b)
    if isinstance(a, (list, tuple)) and isinstance(b, (list, tuple)):
        return len(a) == len(b) and all(snap_equal(u, v) for u, v in zip(a, b))
    return a == b


def histories(ctx, H, entries, pristine):
    """short histories on ONE set of argument objects (and one receiver):
    call -> [answer must equal the answer of a pristine interpreter] -> overwrite the returned object in place -> call
    again [must give the original answer] -> edit the arguments in place / re-assign public attributes, equal sizes ->
    call [must equal the pristine answer on the edited arguments] -> deep copy of the arguments -> call [same answer]"""
    import copy
    np = H.np
    rng = ctx.rng
    sn = Snap(H, values_only=True)
    stats = {"histories": 0, "steps": 0, "pristine_answers": 0, "result_edits": 0, "argument_edits": 0, "deepcopies": 0}

    def call(ent, kw, optvals, seed):
        np.random.seed(seed)
        with warnings.catch_warnings(), quiet_stdout():
            warnings.simplefilter("ignore")
            try:
                return ("ok", ent.fn(**kw, **optvals))
            except Exception as e:      # noqa
                return ("err", type(e).__name__)

    def versus(ent, tag, what, got, ref, case):
        """got: ('ok', object) | ('err', name); ref: ('ok', snapshot) | ('err', name)"""
        if ref[0] == "infra":
            return
        g = ("ok", sn.snap(got[1])) if got[0] == "ok" else got
        if g[0] != ref[0] or (g[0] == "ok" and not snap_equal(g[1], ref[1])) or (g[0] == "err" and g[1] != ref[1]):
            ctx.finding(f"{ent.name}/history/{tag}", f"{ent.name}: {what}", case)

    for ie, ent in enumerate(entries):
        if ent.name in UNRUNNABLE:
            continue
        probe = ent.gen(rng)
        data_args = [a.name for a in probe if a.nature in ("float", "int")]
        for ih in range(ctx.scale(2, 6) * (6 if ent.faulty else 1)):
            # entries with a capacity argument: two histories per value of it, inputs at / beyond the limits from the
            # second history on, and a case the function rejects is re-drawn (at most twice): the rejected calls are
            # then part of what happened before the accepted one, whose answer must still be the pristine one
            for _attempt in range(3 if ent.faulty and ih > 0 else 1):
                asg = {n: ("c64" if ih == 0 else rng.choice(KINDS)) for n in data_args}
                spec = {"seed": rng.randrange(2 ** 31), "asg": asg, "iplan": ih // 2 if ent.faulty else ih, "tiny": False,
                        "big": False, "bigoff": rng.randint(501, 560),
                        "varied": ih > 0 and (ent.faulty or rng.random() < 0.5),
                        "holes": "none" if ih == 0 else rng.choice(["none", "none", "nan"])}
                seed = rng.randrange(2 ** 31)
                kw, optvals, kinds_used, receivers = make_case(H, ent, spec)
                case = {"function": ent.name, "kinds": kinds_used, "case_seed": spec["seed"], "numpy_seed": seed}
                stats["histories"] += 1
                # step 0: first answer == pristine answer
                r1 = call(ent, kw, optvals, seed)
                ref1 = pristine.ask(ie, spec, 0, seed)
                stats["steps"] += 1
                stats["pristine_answers"] += ref1[0] != "infra"
                versus(ent, "first_answer_differs_from_pristine_state",
                       "the answer depends on what the process did before (differs from a fresh interpreter on the same "
                       "arguments)", r1, ref1, case)
                ctx.count(("history", ent.name, ih, spec["seed"]), r1[0] == "ok",
                          f"history/{'ok' if r1[0] == 'ok' else 'rejected'}")
                if r1[0] == "ok":
                    break
            if r1[0] != "ok":
                continue
            # step 1: overwrite the returned object in place, call again: the original answer
            arg_leaves = [v for n in kw for v in leaves(H, kw[n])]
            if not overlap(H, leaves(H, r1[1]), arg_leaves):
                snap1 = sn.snap(r1[1])
                scramble(H, r1[1])
                r2 = call(ent, kw, optvals, seed)
                stats["steps"] += 1
                stats["result_edits"] += 1
                versus(ent, "edited_result_changes_later_answer",
                       "after the caller overwrote the returned object in place, the same call no longer gives the "
                       "original answer", r2, ("ok", snap1), case)
            shared = set(H._shared)
            if ent.reference is not None:
                np.random.seed(seed)
                with warnings.catch_warnings(), quiet_stdout():
                    warnings.simplefilter("ignore")
                    try:
                        rr = ent.reference(**kw, **optvals)
                        d = same(H, r1[1], rr) if overlap(H, leaves(H, r1[1]), arg_leaves) else same(H, call(ent, kw, optvals, seed)[1], rr)
                    except Exception as e:      # noqa
                        d = f"reference form raises {type(e).__name__}"
                if d:
                    ctx.finding(f"{ent.name}/history/differs_from_reference_form",
                                f"{ent.name}: the answer differs from the same call made without the caller-supplied "
                                f"buffer: {d}", case)
            if receivers:
                continue        # a mutator's receiver legitimately accumulates state: no pristine comparison after edits
            # step 1b: call A -> calls B (other data, SAME options, same receiver / caller-supplied work buffers; a B that the
            # function REJECTS is looked for: other cases of the generator, then A's own arguments spoiled) -> call A
            # again: the first answer. A failed call must leave nothing behind (work vectors, caches, receiver state)
            # that a later valid call picks up.
            if shared or ent.faulty or ih % 2 == 1:
                snapA = sn.snap(call(ent, kw, optvals, seed)[1])
                tried, rejected = 0, 0

                def other_cases():
                    nonlocal tried, rejected
                    for _t in range(ctx.scale(3, 6) if ent.faulty else ctx.scale(1, 2)):
                        spec_b = dict(spec, seed=rng.randrange(2 ** 31))
                        kwb, optb, _k, _r = make_case(H, ent, spec_b)
                        for n in shared:
                            kwb[n] = kw[n]
                        rb = call(ent, kwb, optb, seed + 1)
                        tried += 1
                        if rb[0] == "err":
                            rejected += 1
                            break
                    make_case(H, ent, spec)      # restores the case flags (H.varied ...) of A; its objects are not used

                def spoiled_cases():
                    nonlocal tried, rejected
                    for mode in ("short", "nan"):
                        kws = spoil(H, kw, shared, mode)
                        if kws is not None:
                            rb = call(ent, kws, optvals, seed + 2)
                            tried += 1
                            rejected += rb[0] == "err"
                # the call made right before A is called again is, in turn, a rejected case of the generator (when one is
                # found) or A's own arguments spoiled
                for part in ((spoiled_cases, other_cases) if ih % 2 == 0 else (other_cases, spoiled_cases)):
                    part()
                ra = call(ent, kw, optvals, seed)
                stats["steps"] += tried + 2
                stats["aba"] = stats.get("aba", 0) + 1
                stats["aba_rejected_b"] = stats.get("aba_rejected_b", 0) + rejected
                ctx.hist[f"history/aba/{'with' if rejected else 'without'}_rejected_call"] = \
                    ctx.hist.get(f"history/aba/{'with' if rejected else 'without'}_rejected_call", 0) + 1
                versus(ent, "answer_changed_by_intermediate_call",
                       "call A, calls B with other arguments (same options, same receiver / work buffers"
                       + (", at least one of them rejected" if rejected else "") + "), call A again: the "
                       "answer differs from the first one", ra, ("ok", snapA), case)
            # step 2: arguments edited in place / public attributes re-assigned, equal sizes
            mutate_args(H, kw)
            r3 = call(ent, kw, optvals, seed)
            ref3 = pristine.ask(ie, spec, 1, seed)
            stats["steps"] += 1
            stats["argument_edits"] += 1
            stats["pristine_answers"] += ref3[0] != "infra"
            versus(ent, "stale_answer_after_argument_edit",
                   "after the arguments were edited in place (equal sizes) the answer is not the one a fresh interpreter "
                   "gives on the edited arguments", r3, ref3, case)
            # step 3: deep copy of the arguments
            try:
                kwc = copy.deepcopy(kw)
            except Exception:      # noqa
                continue
            r4 = call(ent, kwc, optvals, seed)
            stats["steps"] += 1
            stats["deepcopies"] += 1
            if r3[0] == "ok" and r4[0] == "ok":
                d = same(H, r3[1], r4[1])
                if d:
                    ctx.finding(f"{ent.name}/history/deepcopy_of_arguments_changes_answer",
                                f"{ent.name}: a deep copy of the arguments gives another answer: {d}", case)
    stats["pristine_failures"] = pristine.failed
    stats["pristine_slow_or_failed"] = pristine.slow[:20]
    ctx.extra["histories"] = stats
    if pristine.ok == 0:
        ctx.disagree("histories: no reference answer could be obtained from the pristine process", {})

# ----------------------------------------------------------------------------------------------
# histories on ONE Catchment receiver: random lists of public operations (accepted, rejected at each fault site, the
# caller overwriting the arrays the accessors hand out), every step compared with the object-level model
# (Model/C18Obj.lean: `hist` request) and checked by two model-free oracles
OBJ_FIELDS = ["outlet", "inlets", "area", "filled", "boundary", "xyboundary", "fpl"]
OBJ_ATTR = {"outlet": "_idxcell_outlet", "inlets": "_idxinlets", "area": "_idxcells_area", "filled": "_idxcells_area_filled",
            "boundary": "_idxcells_boundary", "xyboundary": "_xycells_boundary", "fpl": "_flowpathlengths"}
# what each method is documented to produce (everything else of the receiver must come out bit for bit as it went in)
OBJ_WRITES = {"delineate_area": {"outlet", "inlets", "area", "filled"}, "delineate_boundary": {"boundary", "xyboundary"},
              "compute_flowpathlengths": {"fpl"}}


def _obj_bytes(H, v):
    np, pd = H.np, H.pd
    if v is None:
        return None
    if isinstance(v, pd.DataFrame):
        return ("df", tuple(map(str, v.columns)), np.ascontiguousarray(v.values).tobytes())
    a = np.asarray(v)
    return (str(a.dtype), a.shape, a.tobytes())


def objects(ctx, H, rec):
    np, pd, G = H.np, H.pd, H.grid
    rng = ctx.rng
    stats = {"histories": 0, "operations": 0, "rejected_operations": 0, "twin_comparisons": 0, "caller_edits": 0,
             "aliased_attributes_seen": 0}
    requests, observed = [], []

    def fields_of(ca):
        return {f: getattr(ca, OBJ_ATTR[f], None) for f in OBJ_FIELDS}

    def same_buffer(a, b):
        if a is b:
            return True
        if isinstance(a, np.ndarray) and isinstance(b, np.ndarray) and a.size and b.size:
            return bool(np.shares_memory(a, b))
        return False

    def finding(method, tag, field, what, case):
        ctx.finding(f"Catchment.{method}/history/{tag}/{field}", what, case)

    for ih in range(ctx.scale(60, 400)):
        nrows, ncols = rng.randint(4, 7), rng.randint(4, 8)
        mode = rng.choice(["acyclic", "acyclic", "acyclic", "cycle", "invalid"])
        fd = make_flowdir(H, rng, nrows, ncols, dtype=rng.choice([np.int64, np.int32]), mode=mode)
        ncell = nrows * ncols
        ca = G.Catchment("h", fd)
        fd_bytes = ca._flowdir.data.tobytes()
        coarse = G.Grid("coarse", 3, 3, cellsize=3., xllcorner=-0.5, yllcorner=-0.5, dtype=np.float64)
        toks, steps, keepalive = [], [], []
        last_area = None        # arguments of the last accepted delineation
        dirty = set()           # attributes the caller has overwritten since
        done_after = set()      # 'fpl' / 'boundary': computed after the last accepted delineation (with which mask)
        hist_desc = []
        cap = rng.choice([None, None, 6, 10, ncell + 2])       # one capacity for the whole history (work vectors of a size)
        # arrays the caller handed in earlier (the constructor's grid, inlets, masks): out of reach of every later method,
        # and never what an attribute refers to (the model: every attribute refers to a buffer made inside a call)
        given = [["the flow direction grid given to the constructor", fd._data, fd._data.tobytes()]]

        def small_cell():
            r, c = rng.choice([(rng.randrange(2), rng.randrange(ncols)), (rng.randrange(nrows), rng.randrange(2))])
            return r * ncols + c

        for iop in range(rng.randint(5, ctx.scale(12, 20))):
            before = fields_of(ca)
            before_bytes = {f: _obj_bytes(H, v) for f, v in before.items()}
            keepalive.append(before)
            kind = rng.choices(["A", "Afault", "B", "F", "R", "E"], [4, 3, 3, 3, 3, 2])[0]
            if iop == 0:
                kind = rng.choice(["A", "A", "A", "Afault", "F", "B"])
            method, tok, err, answers = None, None, None, None
            with warnings.catch_warnings(), quiet_stdout():
                warnings.simplefilter("ignore")
                if kind in ("A", "Afault"):
                    method = "delineate_area"
                    outlet = rng.choice([ncell - 1, rng.randrange(ncell), rng.randrange(ncell), small_cell()])
                    wi = rng.random() < 0.5
                    inl = None
                    if wi:
                        inl_base = np.array([rng.randrange(ncell) for _ in range(rng.randint(1, 3))])
                        inl, _keep = variant(np, pd, inl_base, rng.choice(["c64", "i32", "list", "strided", "pandas"]), "int")
                        keepalive.append(_keep)
                    kwargs = {} if cap is None or mode != "acyclic" and cap is None else {"nval": cap}
                    if mode != "acyclic" and "nval" not in kwargs:
                        kwargs["nval"] = 4 * ncell          # circular paths: the search only stops when the vectors are full
                    intent = "ok"
                    if kind == "Afault":
                        intent = rng.choice(["badOutlet", "badInlets", "badNval", "kernelError", "kernelError", "kernelError"])
                        if intent == "badOutlet":
                            outlet = rng.choice(["x", None, "1.5"])
                        elif intent == "badInlets":
                            inl, wi = rng.choice([["a"], np.array(["x", "y"]), [[1], [2, 3]]]), True
                        elif intent == "badNval":
                            if rng.random() < 0.3:
                                outlet = [1, 2]       # np.int64 makes an array of it: the extension call rejects it
                            else:
                                kwargs["nval"] = rng.choice([-1, -5, 2.5])
                        else:
                            which = rng.randrange(3)
                            if which == 0:
                                kwargs["nval"] = rng.choice([1, 2, 3, 4])
                                outlet = ncell - 1 if rng.random() < 0.7 else outlet
                            elif which == 1:
                                outlet = rng.choice([-1, ncell, ncell + 5])
                            else:
                                inl, wi = np.array([rng.choice([-1, ncell])]), True
                    args_desc = {"outlet": repr(outlet), "inlets": None if inl is None else repr(np.asarray(inl, dtype=object).tolist())[:60],
                                 **{k: repr(v) for k, v in kwargs.items()}}
                    try:
                        ca.delineate_area(outlet, inl, **kwargs)
                    except Exception as e:      # noqa
                        err = type(e).__name__
                    if isinstance(inl, np.ndarray) and inl.size and inl.dtype != object:
                        given.append(["the inlets given to an earlier delineate_area", inl, inl.tobytes()])
                    if err is None:
                        out = "empty" if len(ca._idxcells_area) == 0 else "cells"
                        last_area = (outlet, inl, kwargs)
                        dirty, done_after = set(), set()
                    else:
                        out = intent if intent in ("badOutlet", "badInlets", "badNval") else "kernelError"
                        if out not in ("badOutlet",):
                            last_area = None if out == "kernelError" else last_area
                        if out in ("badInlets", "badNval"):
                            dirty |= {"outlet", "inlets"}     # outlet (and inlets) of a call that went no further
                    tok = f"A:{1 if (wi and inl is not None) else 0}:{ih % 7}:{out}"
                    hist_desc.append(("delineate_area", args_desc, err))
                elif kind == "B":
                    method = "delineate_boundary"
                    mask, mid = None, "-"
                    u = rng.random()
                    if u < 0.3 and ca._idxcells_area_filled is not None:
                        mask = np.zeros(ncell, dtype=np.int64)
                        mask[ca._idxcells_area_filled] = 1
                        mid = "1"
                    elif u < 0.45:
                        mask, mid = np.zeros(ncell, dtype=np.int64), "2"       # a mask that does not contain the area: rejected
                    mask_before = None if mask is None else mask.tobytes()
                    try:
                        ca.delineate_boundary(mask)
                    except Exception as e:      # noqa
                        err = type(e).__name__
                    if mask is not None and mask.tobytes() != mask_before:
                        finding(method, "argument_modified", "catchment_area_mask", "delineate_boundary changed the mask it was given",
                                {"history": hist_desc[-6:]})
                    tok = f"B:{mid}:{'ok' if err is None else 'err'}"
                    if mask is not None:
                        given.append(["the mask given to an earlier delineate_boundary", mask, mask.tobytes()])
                    if err is None:
                        done_after.add(("boundary", mid))
                    hist_desc.append(("delineate_boundary", {"mask": mid}, err))
                elif kind == "F":
                    method = "compute_flowpathlengths"
                    try:
                        ca.compute_flowpathlengths()
                    except Exception as e:      # noqa
                        err = type(e).__name__
                    tok = f"F:{'ok' if err is None else 'err'}"
                    if err is None:
                        done_after.add(("fpl", None))
                    hist_desc.append(("compute_flowpathlengths", {}, err))
                elif kind == "R":
                    cells = np.array([rng.randrange(ncell) for _ in range(3)])
                    cell = rng.randrange(ncell)
                    name, fn, fld = rng.choice([
                        ("idxcells_area", lambda: ca.idxcells_area, "area"),
                        ("idxcells_area_filled", lambda: ca.idxcells_area_filled, "filled"),
                        ("idxinlets", lambda: ca.idxinlets, "inlets"), ("idxcell_outlet", lambda: ca.idxcell_outlet, "outlet"),
                        ("flowpathlengths", lambda: ca.flowpathlengths, "fpl"),
                        ("xycells_boundary", lambda: ca.xycells_boundary, "xyboundary"),
                        ("idxcells_boundary", lambda: ca.idxcells_boundary, "boundary"),
                        ("extent", lambda: ca.extent(), "filled"), ("isin", lambda: (ca.isin(cell), ca.isin(cell, filled=True)), "area"),
                        ("to_dict", lambda: ca.to_dict(), "area"), ("intersect", lambda: ca.intersect(coarse), "area"),
                        ("intersect/filled", lambda: ca.intersect(coarse, filled=True), "filled"),
                        ("upstream", lambda: ca.upstream(cells), "area"), ("downstream", lambda: ca.downstream(cells), "area"),
                        ("compute_area", lambda: ca.compute_area(lambda x, y: (1000. * x, 1000. * y)), "boundary"),
                        ("clone", lambda: ca.clone().to_dict(), "area"), ("__str__", lambda: str(ca), "area"),
                        ("__add__", lambda: (ca + ca).idxcells_area, "filled"), ("__sub__", lambda: (ca - ca).idxcells_area, "filled")])
                    method = name
                    answers = []
                    for _rep in range(2):
                        try:
                            answers.append(("ok", fn()))
                        except Exception as e:      # noqa
                            answers.append(("err", type(e).__name__))
                    if answers[0][0] != answers[1][0] or (answers[0][0] == "ok" and same(H, answers[0][1], answers[1][1])):
                        finding(name, "not_repeatable", fld, f"two consecutive calls of Catchment.{name} on the same receiver differ",
                                {"history": hist_desc[-6:]})
                    tok = f"R:{fld}"
                    hist_desc.append((name, {}, answers[0][1] if answers[0][0] == "err" else None))
                else:
                    fld = rng.choice(["area", "filled", "boundary", "xyboundary", "inlets"])
                    method = "caller_edit"
                    v = before[fld]
                    if isinstance(v, np.ndarray) and v.flags.writeable:
                        v[...] = v[::-1].copy()          # the same cells / points in the reverse order
                        dirty.add(fld)
                        stats["caller_edits"] += 1
                    elif v is not None:
                        fld = "outlet"                   # nothing the caller can overwrite in place
                    tok = f"E:{fld}" if isinstance(v, np.ndarray) and v.flags.writeable else f"R:{fld}"
                    hist_desc.append(("caller_edit", {"field": fld}, None))
            stats["operations"] += 1
            stats["rejected_operations"] += err is not None
            after = fields_of(ca)
            after_bytes = {f: _obj_bytes(H, v) for f, v in after.items()}
            case = {"method": method, "history": [list(h) for h in hist_desc[-8:]], "grid": [nrows, ncols], "flowdir": mode}
            # ---- oracle 1 (model-free): the frame of every method, accepted or rejected
            if method != "caller_edit":
                allowed = OBJ_WRITES.get(method, set())
                for f in OBJ_FIELDS:
                    if f in allowed or after_bytes[f] == before_bytes[f]:
                        continue
                    if f == "filled" and method == "delineate_boundary" and before_bytes[f] is not None and after_bytes[f] is not None \
                            and before[f] is after[f] and sorted(np.asarray(after[f]).tolist()) == sorted(
                                np.frombuffer(before_bytes[f][2], dtype=before_bytes[f][0]).tolist()):
                        ctx.hist["objects/filled_cells_reordered_by_delineate_boundary"] = \
                            ctx.hist.get("objects/filled_cells_reordered_by_delineate_boundary", 0) + 1
                        continue        # the documented exception: the kernel sorts the filled cells (same cells)
                    finding(method, "receiver_state_modified", f,
                            f"Catchment.{method} ({'rejected: ' + err if err else 'accepted'}) changed `{OBJ_ATTR[f]}` of its "
                            f"receiver, which it only reads / does not concern it", case)
                if ca._flowdir.data.tobytes() != fd_bytes:
                    finding(method, "receiver_state_modified", "flowdir", f"Catchment.{method} changed the flow directions", case)
                    fd_bytes = ca._flowdir.data.tobytes()
            for gv in given:
                if gv[1].tobytes() != gv[2]:
                    finding(method, "earlier_argument_modified", "argument", f"after Catchment.{method}, {gv[0]} no longer holds "
                            f"what it held", case)
                    gv[2] = gv[1].tobytes()
                for f in OBJ_FIELDS + ["flowdir"]:
                    v = ca._flowdir._data if f == "flowdir" else after[f]
                    if isinstance(v, np.ndarray) and v.size and np.shares_memory(v, gv[1]):
                        ctx.disagree(f"object history: `{OBJ_ATTR.get(f, '_flowdir')}` refers to {gv[0]}: the model says every "
                                     f"attribute refers to a buffer made inside a call", case)
            # ---- what the model is asked / compared with
            toks.append(tok)
            hk = "objects/op/" + (":".join(tok.split(":")[::3]) if tok[0] == "A" else tok.split(":")[0] + ":" + tok.split(":")[-1]
                                   if tok[0] in "BF" else tok[0])
            ctx.hist[hk] = ctx.hist.get(hk, 0) + 1
            steps.append({"raised": err is not None, "none": {f: after[f] is None for f in OBJ_FIELDS},
                          "alias": {(f, g): same_buffer(after[f], after[g]) for i, f in enumerate(OBJ_FIELDS)
                                    for g in OBJ_FIELDS[i + 1:] if after[f] is not None and after[g] is not None},
                          "rebound": {f: after[f] is not before[f] for f in OBJ_FIELDS},
                          "changed": {f: after[f] is before[f] and after_bytes[f] != before_bytes[f] for f in OBJ_FIELDS},
                          "case": case})
            # ---- oracle 2 (model-free): what the last accepted delineation and the computations made since stored does
            # not depend on anything that happened before: a new Catchment given those calls only holds the same
            if last_area is not None and method in ("delineate_area", "delineate_boundary", "compute_flowpathlengths") \
                    and err is None:
                twin = G.Catchment("twin", fd)
                with warnings.catch_warnings(), quiet_stdout():
                    warnings.simplefilter("ignore")
                    try:
                        twin.delineate_area(last_area[0], last_area[1], **last_area[2])
                        terr = None
                    except Exception as e:      # noqa
                        terr = type(e).__name__
                    stats["twin_comparisons"] += 1
                    if terr is not None:
                        finding("delineate_area", "answer_depends_on_earlier_calls", "raises",
                                f"a new Catchment rejects ({terr}) the delineation this receiver accepted", case)
                    else:
                        cmp_fields = ["outlet", "inlets", "area", "filled"]
                        if ("fpl", None) in done_after and not ({"area", "outlet"} & dirty):
                            twin.compute_flowpathlengths()
                            cmp_fields.append("fpl")
                        for key in [k for k in done_after if k[0] == "boundary"][-1:]:
                            if not ({"filled", "boundary", "xyboundary"} & dirty) and method == "delineate_boundary":
                                m = None
                                if key[1] == "1":
                                    m = np.zeros(ncell, dtype=np.int64)
                                    m[twin._idxcells_area_filled] = 1
                                try:
                                    twin.delineate_boundary(m)
                                    cmp_fields += ["boundary", "xyboundary"]
                                except Exception:      # noqa
                                    pass
                        tw = fields_of(twin)
                        for f in cmp_fields:
                            if f in dirty:
                                continue
                            a, b = _obj_bytes(H, after[f]), _obj_bytes(H, tw[f])
                            if f == "filled" and a is not None and b is not None:
                                a, b = sorted(np.asarray(after[f]).tolist()), sorted(np.asarray(tw[f]).tolist())
                            if a != b:
                                owner = {"fpl": "compute_flowpathlengths", "boundary": "delineate_boundary",
                                         "xyboundary": "delineate_boundary"}.get(f, "delineate_area")
                                finding(owner, "answer_depends_on_earlier_calls", f,
                                        f"`{OBJ_ATTR[f]}` after this history differs from what a new Catchment holds after the "
                                        f"last accepted delineation (and the same computations) alone", case)
        stats["histories"] += 1
        requests.append("hist [" + ",".join(toks) + "]")
        observed.append(steps)
        ctx.count(("objects", ih, tuple(toks)), True, "objects/history")
    replies = ctx.lean.ask(requests)
    for req, rep, steps in zip(requests, replies, observed):
        if not rep.startswith("ok "):
            ctx.disagree(f"driver: {rep}", {"request": req[:200]})
            continue
        msteps = rep.split(" ", 1)[1].split("|")
        prev_buf = ["-"] * len(OBJ_FIELDS)
        prev_cnt = ["-"] * len(OBJ_FIELDS)
        for k, (ms, st) in enumerate(zip(msteps, steps)):
            raised, bufs, cnts = ms.split(";")
            bufs, cnts = bufs.split(","), cnts.split(",")
            impl = [f"raised={int(st['raised'])}"]
            model = [f"raised={raised}"]
            for i, f in enumerate(OBJ_FIELDS):
                impl.append(f"{f}:{'None' if st['none'][f] else 'set'}:{'new' if st['rebound'][f] and not st['none'][f] else 'kept'}")
                model.append(f"{f}:{'None' if bufs[i] == '-' else 'set'}:{'new' if bufs[i] != prev_buf[i] and bufs[i] != '-' else 'kept'}")
            for (f, g), al in sorted(st["alias"].items()):
                i, j = OBJ_FIELDS.index(f), OBJ_FIELDS.index(g)
                if al:
                    stats["aliased_attributes_seen"] += 1
                impl.append(f"{f}~{g}:{int(al)}")
                model.append(f"{f}~{g}:{int(bufs[i] == bufs[j])}")
            ctx.compare("C18/object_history", {"request": req[:300], "step": k, **st["case"]}, " ".join(impl), " ".join(model))
            for i, f in enumerate(OBJ_FIELDS):
                if st["changed"][f] and bufs[i] == prev_buf[i] and cnts[i] == prev_cnt[i]:
                    ctx.disagree(f"object history: the contents of `{OBJ_ATTR[f]}` changed in a step in which the model stores "
                                 f"nothing into it", {"request": req[:300], "step": k, **st["case"]})
            prev_buf, prev_cnt = bufs, cnts
    ctx.extra["object_histories"] = stats


# ----------------------------------------------------------------------------------------------
# histories on ONE Grid receiver: everything the caller handed in earlier (arrays given to the data setter / to
# __setitem__) and everything the grid handed out earlier (clones, clips, applied grids, extracted values) must be out of
# reach of later mutators, and the receiver out of reach of edits of what it handed out (`returned_private`)
def grid_objects(ctx, H):
    np, pd, G = H.np, H.pd, H.grid
    rng = ctx.rng
    stats = {"histories": 0, "operations": 0, "watched_arrays": 0}

    def cb_floor(z):
        z[z < 20] = 0
        return z

    def cb_shift(z):
        z += 3
        return z
    for ih in range(ctx.scale(40, 300)):
        nrows, ncols = rng.randint(3, 6), rng.randint(3, 7)
        dt = rng.choice([np.float64, np.float32, np.int64, np.int32])
        g = G.Grid("g", ncols, nrows, cellsize=1., xllcorner=0., yllcorner=0., dtype=dt, nodata=-9)
        watched = []        # [label, object, array, bytes]: the caller's own arrays and what earlier calls handed out
        desc = []

        def watch(label, arr, keep=None):
            if isinstance(arr, np.ndarray) and arr.size:
                watched.append([label, keep, arr, arr.tobytes()])
                stats["watched_arrays"] += 1

        for iop in range(rng.randint(4, ctx.scale(10, 16))):
            op = rng.choice(["set", "set", "fill", "setitem", "dtype", "min", "max", "apply", "clone", "clip", "getitem",
                             "edit_data", "edit_result", "from_dict", "interpolate"])
            edited, err = None, None
            recv0 = g._data.tobytes()
            with warnings.catch_warnings(), quiet_stdout():
                warnings.simplefilter("ignore")
                try:
                    if op == "set":
                        base = np.round(np.array(floats(rng, nrows * ncols, 0, 50))).reshape(nrows, ncols)
                        nat = "float" if rng.random() < 0.5 else "int"
                        val, keep = variant(np, pd, base, rng.choice(KINDS), nat)
                        if rng.random() < 0.4 and isinstance(val, np.ndarray):
                            val = val.astype(g.dtype)           # already the dtype of the grid: nothing to convert
                        g.data = val
                        watch("argument of the data setter", np.asarray(val) if not isinstance(val, list) else None, (val, keep))
                    elif op == "fill":
                        g.fill(rng.randint(0, 9))
                    elif op == "setitem":
                        idx = np.array(rng.sample(range(nrows * ncols), 3))
                        vals, keep = variant(np, pd, np.array(floats(rng, 3, 0, 50)), rng.choice(["c64", "strided", "flt", "i64"]), "float")
                        g[idx] = vals
                        watch("values given to __setitem__", vals, keep)
                        watch("index given to __setitem__", idx)
                    elif op == "dtype":
                        g.dtype = rng.choice([np.float64, np.float32, np.int64, np.int32])
                    elif op == "min":
                        g.mindata = rng.choice([0, 5, 10])
                    elif op == "max":
                        g.maxdata = rng.choice([45, 40, 30])
                    elif op == "apply":
                        r = g.apply(rng.choice([cb_floor, cb_shift, np.sqrt, np.abs]))
                        watch("data of the grid returned by apply", r._data, r)
                    elif op == "clone":
                        r = g.clone(rng.choice([None, None, np.float32, np.int64]))
                        watch("data of the clone", r._data, r)
                    elif op == "clip":
                        r = g.clip(0.2, 0.3, ncols - 1.2, nrows - 1.1)
                        watch("data of the clipped grid", r._data, r)
                    elif op == "getitem":
                        r = g[np.array(rng.sample(range(nrows * ncols), 3))]
                        watch("values returned by __getitem__", r)
                    elif op == "from_dict":
                        r = G.Grid.from_dict(g.to_dict())
                        watch("data of the grid rebuilt from to_dict", r._data, r)
                    elif op == "interpolate":
                        tgt = G.Grid("t", 3, 3, cellsize=1.5, xllcorner=0.2, yllcorner=0.2, dtype=np.float64)
                        r = g.interpolate(tgt, method=rng.choice(["nearest", "linear"]))
                        watch("data of the interpolated grid", r._data, r)
                    elif op == "edit_data":
                        d = g.data                       # the accessor hands out the grid's own array: editing it IS editing the grid
                        d[...] = d[::-1].copy()
                        recv0 = g._data.tobytes()
                    elif op == "edit_result" and watched:
                        edited = rng.randrange(len(watched))
                        arr = watched[edited][2]
                        if arr.flags.writeable:
                            arr[...] = (arr[::-1] if arr.ndim else arr).copy() if arr.dtype.kind != "f" else arr[::-1].copy() * 0.5 + 1
                            watched[edited][3] = arr.tobytes()
                except Exception as e:      # noqa
                    err = type(e).__name__
            desc.append((op, err))
            stats["operations"] += 1
            case = {"operation": op, "history": desc[-8:], "grid_dtype": str(np.dtype(dt)), "shape": [nrows, ncols]}
            for k, (label, _keep, arr, snap) in enumerate(watched):
                if arr.tobytes() != snap:
                    ctx.finding(f"Grid.{op}/history/earlier_array_modified", f"after `{op}` on the grid, {label} (an array the caller "
                                f"gave to / got from an EARLIER call) no longer holds what it held", case)
                    watched[k][3] = arr.tobytes()
                elif np.shares_memory(arr, g._data):
                    ctx.disagree(f"Grid history: the grid's data shares memory with {label}; the model says what a Grid stores and "
                                 f"hands out is private (returned_private)", case)
            if op == "edit_result" and g._data.tobytes() != recv0:
                ctx.finding("Grid.data/history/receiver_modified_through_result", "overwriting an array an earlier call handed out "
                            "changed the cells of the grid", case)
            ctx.count(("gridobj", ih, iop, op), err is None, f"gridobjects/{op}")
        stats["histories"] += 1
    ctx.extra["grid_object_histories"] = stats


# ----------------------------------------------------------------------------------------------
# corpus: minimised past failures, replayed first (same checks as the oracle: arguments byte-wise unchanged after each
# of two calls, equal answers, and call A -> call B -> call A when the case has `args_b`)
def corpus(ctx, H):
    import json
    np, pd, G = H.np, H.pd, H.grid
    sn = Snap(H)

    def f64(x):
        return np.array([[float(v) for v in r] if isinstance(r, list) else float(r) for r in x], dtype=np.float64)

    def mkgrid(d, dtype=np.float64):
        g = G.Grid("g", d["ncols"], d["nrows"], dtype=dtype, nodata=-1)
        g.data = (np.arange(d["ncols"] * d["nrows"], dtype=float).reshape(d["nrows"], d["ncols"]) if d["data"] == "arange"
                  else f64(d["data"]))
        return g

    def inplace_cb(z):
        z[z < 0] = 0
        return z
    def build(j, args):
        a = {k: f64(v) for k, v in args.items()}
        call = j["call"]
        opts = j.get("options", {})
        if call == "Grid.slice":
            g = mkgrid(j["grid"])
            return {"self": g, **a}, lambda self, xyslice: self.slice(xyslice)
        if call == "points_inside_polygon/inside":
            return a, lambda points, polygon, inside: np.array(H.gutils.points_inside_polygon(points, polygon, inside=inside))
        if call == "putils.kde":
            return a, lambda xy: H.putils.kde(xy, ngrid=6)
        if call == "grid.accumulate":
            return {"flowdir": mkgrid(j["grid"], np.int64)}, lambda flowdir: G.accumulate(flowdir, nprint=10 ** 9)
        if call == "grid.delineate_river":
            return {"flowdir": mkgrid(j["grid"], np.int64)}, lambda flowdir: G.delineate_river(flowdir, 0, **opts)
        if call == "metrics.kge/column":
            return a, lambda obs, sim: H.metrics.kge(obs, sim)
        if call == "sutils.pareto_front":
            return a, lambda data: H.sutils.pareto_front(data, **opts)
        if call == "qualitycontrol.islinear":
            return a, lambda data: H.qualitycontrol.islinear(data)
        if call == "grid.gsmooth":
            return {"grid": mkgrid(j["grid"])}, lambda grid: G.gsmooth(grid, **opts)
        if call == "Grid.apply/inplace":
            return {"self": mkgrid(j["grid"])}, lambda self: self.apply(inplace_cb)
        if call == "sutils.lstsq/frame":
            return ({"X": pd.DataFrame(a["X"], columns=["a", "b"]), "y": pd.Series(a["y"])},
                    lambda X, y: H.sutils.lstsq(X, y, add_intercept=True)[0])
        raise ValueError(f"corpus: unknown call {call}")

    def catchment_history(f, j):
        """ops on one Catchment; at the end (i) every method left alone what it only reads, (ii) the receiver holds what a
        new Catchment holds after the last delineation (and the computations made since) alone"""
        fd = mkgrid(j["grid"], np.int32)
        ca = G.Catchment("c", fd)
        last, since = None, []
        for op in j["ops"]:
            watch = {k: _obj_bytes(H, getattr(ca, OBJ_ATTR[k])) for k in OBJ_FIELDS}
            meth, args = op[0], op[1:]
            with warnings.catch_warnings(), quiet_stdout():
                warnings.simplefilter("ignore")
                try:
                    getattr(ca, meth)(*[a for a in args[:2]], **(args[2] if len(args) > 2 else {}))
                    if meth == "delineate_area":
                        last, since = op, []
                    else:
                        since.append(meth)
                except Exception:      # noqa
                    pass
            for k in OBJ_FIELDS:
                if k not in OBJ_WRITES.get(meth, set()) and k != "filled" and \
                        _obj_bytes(H, getattr(ca, OBJ_ATTR[k])) != watch[k]:
                    ctx.finding(f"corpus/{f.stem}/receiver_state_modified/{k}", f"corpus case {f.stem}: {meth} changed "
                                f"`{OBJ_ATTR[k]}` ({j.get('origin', '')})", {"corpus": f.name})
        if last is not None:
            twin = G.Catchment("t", fd)
            twin.delineate_area(*last[1:3], **(last[3] if len(last) > 3 else {}))
            for m in since:
                getattr(twin, m)()
            for k in OBJ_FIELDS:
                a, b = getattr(ca, OBJ_ATTR[k]), getattr(twin, OBJ_ATTR[k])
                if k == "filled" and a is not None and b is not None:
                    a, b = np.sort(a), np.sort(b)
                if k in ("boundary", "xyboundary", "fpl") and not since:
                    continue
                if _obj_bytes(H, a) != _obj_bytes(H, b):
                    ctx.finding(f"corpus/{f.stem}/answer_depends_on_earlier_calls/{k}", f"corpus case {f.stem}: `{OBJ_ATTR[k]}` "
                                f"differs from what a new Catchment holds after the last delineation alone "
                                f"({j.get('origin', '')})", {"corpus": f.name})

    n = 0
    for f in sorted((C.ROOT / "corpus" / PID).glob("*.json")):
        j = json.loads(f.read_text())
        if j["call"] == "Catchment.history":
            catchment_history(f, j)
            n += 1
            ctx.count(("corpus", f.name), True, "corpus")
            continue
        kw, fn = build(j, j["args"])
        work = None
        if j["call"] == "points_inside_polygon/inside":
            work = np.full(len(kw["points"]), 5, dtype=np.int32)
            kw["inside"] = work
        before = {k: sn.snap(v) for k, v in kw.items() if v is not work}
        answers = []
        for rep in range(2):
            np.random.seed(11)
            with warnings.catch_warnings(), quiet_stdout():
                warnings.simplefilter("ignore")
                try:
                    answers.append(("ok", fn(**kw)))
                except Exception as e:      # noqa
                    answers.append(("err", type(e).__name__))
            for k in before:
                hard, _soft = sn.diff(before[k], sn.snap(kw[k]), k)
                if hard:
                    ctx.finding(f"corpus/{f.stem}/argument_modified/{k}", f"corpus case {f.stem}: call {rep + 1} changed "
                                f"its argument `{k}`: {hard[0]} ({j.get('origin', '')})", {"corpus": f.name})
                    before[k] = sn.snap(kw[k])
        if answers[0][0] != answers[1][0] or (answers[0][0] == "ok" and same(H, answers[0][1], answers[1][1])):
            ctx.finding(f"corpus/{f.stem}/not_repeatable", f"corpus case {f.stem}: two consecutive calls differ "
                        f"({j.get('origin', '')})", {"corpus": f.name})
        if "args_b" in j and answers[0][0] == "ok":
            first = sn.snap(answers[0][1])
            kwb, _fn = build(j, {**j["args"], **j["args_b"]})
            if work is not None:
                kwb["inside"] = work
            fn(**kwb)
            again = fn(**kw)
            if not snap_equal(sn.snap(again), first):
                ctx.finding(f"corpus/{f.stem}/answer_changed_by_intermediate_call", f"corpus case {f.stem}: call A, call B "
                            f"on the same work buffer, call A again: another answer ({j.get('origin', '')})",
                            {"corpus": f.name})
            if work is not None:
                free = np.array(H.gutils.points_inside_polygon(kw["points"], kw["polygon"]))
                if not np.array_equal(free, again):
                    ctx.finding(f"corpus/{f.stem}/differs_from_reference_form", f"corpus case {f.stem}: the answer with "
                                f"the caller-supplied work vector differs from the answer without it",
                                {"corpus": f.name})
        n += 1
        ctx.count(("corpus", f.name), answers[0][0] == "ok", "corpus")
    ctx.extra["corpus_cases"] = n


def classify(msg):
    for key, tag in (("dtype", "dtype"), ("shape", "shape"), ("columns", "columns"), ("index", "index"),
                     ("outside the view", "outside_view"), ("grid cell", "grid_cells"), ("grid attributes", "grid_attributes"),
                     ("catchment", "catchment_state"), ("values", "values"), ("length", "length")):
        if key in msg:
            return tag
    return "other"


def body(ctx):
    H = load(ctx)
    rec = Recorder(H)
    entries = build_entries(H)
    pristine = Pristine(H, entries)          # forked before any library function has run in this process
    try:
        import time
        if os.environ.get("VERIF_C18_NO_CORPUS") != "1":     # self-test switch: do the generators alone find it?
            corpus(ctx, H)
        t = [time.time()]
        inventory(ctx, H, entries)
        t.append(time.time())
        correspondence(ctx, H, rec)
        t.append(time.time())
        oracle(ctx, H, rec, entries)
        t.append(time.time())
        histories(ctx, H, entries, pristine)
        t.append(time.time())
        objects(ctx, H, rec)
        grid_objects(ctx, H)
        t.append(time.time())
        ctx.extra["phase_seconds"] = dict(zip(("inventory", "correspondence", "oracle", "histories", "objects"),
                                              (round(b - a, 1) for a, b in zip(t, t[1:]))))
    finally:
        pristine.close()
        rec.uninstall()
        H.plt.close("all")
    ctx.extra["kernel_calls_seen_by_the_shim"] = rec.calls
    ctx.extra["rule"] = __doc__.split("Cases:")[1].strip()
    ctx.assumptions += [
        "numpy's view-or-copy behaviour (astype, ascontiguousarray, atleast_nd, boolean indexing, pandas -> ndarray) is "
        "axiomatised in the DSL and observed by the shim, not proved",
        "the Cython layer never copies a buffer (typed ndarray arguments, mode='c'): a buffer that reaches a pyx function "
        "is the buffer the kernel sees",
        "kernel write-sets are read off the C sources and checked by the shim (bytes changed => flagged written)",
        "Catchment.delineate_boundary sorts the receiver's own _idxcells_area_filled in place and "
        "points_inside_polygon(inside=...) fills the caller's OUTPUT array: receiver state / output parameter, outside "
        "the property's quantifier (arguments passed as data), proved to be the only caller buffers written",
        "grid arguments: the property asks that cell VALUES are kept; accumulate / slope / delineate_river retype the "
        "caller's grids (dtype changes, values preserved): counted in the histogram, not a violation",
    ]


def main(tier, replay=None):
    return C.run_check(
        PID, tier, body, needs_native=True, replay=replay,
        level_partial=[
            "the DSL terms are the wrapper bodies: recorder shim (correspondence), not a proof",
            "functions that never reach a kernel (pure numpy / pandas / matplotlib code): oracle only",
            "repeatability of the real code (the theorem is about the model; the real code is observed on two calls)",
            "numpy / pandas copy semantics and the kernels' write-sets are assumptions of the model",
        ],
        trusted=["numpy / pandas copy semantics (axioms of the DSL, observed by the recorder shim)",
                 "kernel write-sets read off the C sources (observed: changed bytes must be flagged written)",
                 "np.shares_memory (exact overlap test) and byte-wise snapshots"])
