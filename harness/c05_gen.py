"""C05 — generators of API probes (pure Python, no hydrodiy import; JSON-serialisable probes).

One probe = one call of a public entry point (see `harness/c05_worker.py` for how the JSON is turned into the
call). Every probe carries `cls`: the named input class it was drawn from — the predicate part of a finding's
signature `entry/branch/predicate`.

Stream per entry point (property quantifier): lengths 0..8 first, then random larger ones; value classes
finite / NaN / +-inf / huge / negative / zero / ties; scalar options at and beyond their documented ranges
(nprint = 0, maxnan < 0, npoints, nval buffer sizes 1.., AR orders 0..11); one-cell catchments; more catchment
cells than Voronoi points; series shorter than a period; cell numbers outside the grid; every entry point that takes
arrays again with its INPUT arrays handed over read-only (`gen_readonly`).
"""
import math
import re

I32MIN, I32MAX = -2 ** 31, 2 ** 31 - 1
I64MIN, I64MAX = -2 ** 63, 2 ** 63 - 1
FLOWCODES = [32, 64, 128, 16, 0, 1, 8, 4, 2]
FCLASSES = ["fin", "nan", "allnan", "inf", "huge", "neg", "zero", "ties", "mixed"]


def enc(x):
    """float -> JSON value"""
    if isinstance(x, float):
        if x != x:
            return "nan"
        if x == math.inf:
            return "inf"
        if x == -math.inf:
            return "-inf"
    return x


def fvals(rng, n, cls):
    out = []
    for _ in range(n):
        if cls == "fin":
            v = rng.uniform(0, 100)
        elif cls == "nan":
            v = math.nan if rng.random() < 0.4 else rng.uniform(0, 10)
        elif cls == "allnan":
            v = math.nan
        elif cls == "inf":
            v = rng.choice([math.inf, -math.inf, rng.uniform(-5, 5)])
        elif cls == "huge":
            v = rng.choice([1e300, -1e300, 1.7e308, -1.7e308, 1e19, -1e19, 9.3e18, 4.3e9, 2.2e9, 5e-324])
        elif cls == "neg":
            v = -rng.uniform(0, 100)
        elif cls == "zero":
            v = rng.choice([0.0, -0.0])
        elif cls == "ties":
            v = float(rng.randint(0, 2))
        else:
            v = rng.choice([math.nan, math.inf, -math.inf, 0.0, 1e300, -1.0, rng.uniform(-10, 10), rng.uniform(0, 1)])
        out.append(enc(v))
    return out


def A(v, d="float64", shape=None):
    s = {"d": d, "v": v}
    if shape is not None:
        s["shape"] = shape
    return s


def lengths(rng, nrand, nmax):
    """0..8 first, then random larger ones"""
    return list(range(0, 9)) + [rng.randint(9, nmax) for _ in range(nrand)]


def coarse(cls, keep=(0,)):
    """the predicate of a finding's signature: the components `keep` of the fine class, sizes bucketed"""
    comps = cls.split("/")
    out = []
    for i in keep:
        if i >= len(comps):
            continue
        c = comps[i]
        c = re.sub(r"^(len|n|m|k|p|pts|cells)(\d+)$", lambda m: m.group(1) + ("0" if m.group(2) == "0" else
                                                                                "1" if m.group(2) == "1" else "2+"), c)
        c = re.sub(r"^order(\d+)$", lambda m: "order0" if m.group(1) == "0" else
                   "order11+" if int(m.group(1)) > 10 else "order1-10", c)
        out.append(c)
    return "/".join(out)


# which components of the fine class name the input class that matters for each entry point
PRED_KEEP = {
    "coord2cell": (0, 2), "slice": (0, 2), "cell2coord": (0, 2), "cell2rowcol": (0, 2), "neighbours": (1,),
    "accumulate": (1, 2), "slope": (1,), "delineate_boundary": (1,), "compute_flowpathlengths": (1,),
    "intersect": (1, 2), "voronoi": (1, 2), "delineate_area": (1, 3), "delineate_river": (1, 2),
    "upstream": (2,), "downstream": (2,), "points_inside_polygon": (0, 1), "crps": (0, 1), "dscore": (0, 1),
    "pareto_front": (0, 1), "armodel_sim": (0, 1), "armodel_residual": (0, 1), "cs.olsleverage": (0, 1),
    "var2h": (0, 1), "islinear": (0, 2), "eckhardt": (0,), "aggregate": (0, 1), "flathomogen": (0, 1),
}


def P(entry, cls, **a):
    return {"kind": "api", "entry": entry, "cls": cls, "pred": coarse(cls, PRED_KEEP.get(entry, (0,))), "a": a}


# ---------------------------------------------------------------------------------------------
def index_vals(rng, n, kind):
    if kind == "const":
        return [rng.choice([0, 1, -7, 199501, I32MIN, I32MAX])] * n
    if kind == "strict":
        s = rng.randint(-50, 50)
        return [s + i for i in range(n)]
    if kind == "decr":
        return [n - i for i in range(n)]
    if kind == "extreme":
        return sorted(rng.choice([I32MIN, I32MIN + 1, -1, 0, 1, I32MAX - 1, I32MAX]) for _ in range(n))
    if kind == "wide":       # int64 values that wrap in astype(int32)
        return [rng.choice([2 ** 31, 2 ** 32 + 1, -2 ** 31 - 1, 2 ** 40, 5]) for _ in range(n)]
    if kind == "rand":
        return [rng.randint(-3, 3) for _ in range(n)]
    out, cur = [], rng.randint(0, 202512)
    for _ in range(n):
        if rng.random() < 0.35:
            cur += rng.randint(1, 3)
        out.append(cur)
    return out


def gen_data(rng, scale, size):
    ps = []
    nmax = size(200, 10000)
    for n in lengths(rng, scale(10, 60), nmax):
        for rep in range(scale(3, 8) if n <= 8 else 1):
            kind = rng.choice(["const", "strict", "runs", "runs", "decr", "extreme", "wide", "rand"])
            fc = rng.choice(FCLASSES)
            idx = index_vals(rng, n, kind)
            vals = fvals(rng, n, fc)
            op = rng.choice([0, 1, 2, 3, -1, 4, 7])
            maxnan = rng.choice([0, 1, -1, -5, n, I32MAX, I32MIN])
            ps.append(P("aggregate", f"len{min(n, 9)}/{kind}/{fc}", aggindex=A(idx, "int64"), inputs=A(vals),
                        operator=op, maxnan=maxnan))
            ps.append(P("flathomogen", f"len{min(n, 9)}/{kind}/{fc}", aggindex=A(idx, "int64"), inputs=A(vals),
                        maxnan=maxnan))
    # length mismatch, out-of-range option (rejected by the wrappers)
    ps.append(P("aggregate", "mismatch", aggindex=A([1, 2], "int64"), inputs=A([1.0])))
    ps.append(P("flathomogen", "mismatch", aggindex=A([1], "int64"), inputs=A([1.0, 2.0])))
    ps.append(P("aggregate", "maxnan_beyond_int32", aggindex=A([1, 2], "int64"), inputs=A([1.0, 2.0]), maxnan=2 ** 31))

    for n in lengths(rng, scale(10, 60), nmax):
        for rep in range(scale(4, 10) if n <= 8 else 1):
            fc = rng.choice(FCLASSES + ["linear", "linear"])
            if fc == "linear":
                a, b = rng.uniform(-2, 2), rng.uniform(0, 5)
                vals = [a * i + b if rng.random() < 0.9 else rng.uniform(0, 5) for i in range(n)]
            else:
                vals = fvals(rng, n, fc)
            npoints = rng.choice([1, 2, 3, max(n, 1), 10 ** 6, 0, -1, 2 ** 40])
            tol = rng.choice([1e-6, 1e-10, 1e300, "nan", "inf", 1e-11, 0.5])
            thresh = rng.choice([0.0, -1.0, 1e300, "nan", "-inf", 50.0])
            ps.append(P("islinear", f"len{min(n, 9)}/{fc}/np{'+' if npoints > 0 else '-'}", data=A(vals),
                        npoints=npoints, tol=tol, thresh=thresh))
    ps.append(P("islinear", "2d", data=A([[1.0, 2.0], [3.0, 4.0]])))
    ps.append(P("islinear", "int_dtype", data=A([1, 2, 3, 4], "int64")))

    for n in lengths(rng, scale(10, 60), nmax):
        for rep in range(scale(3, 8) if n <= 8 else 1):
            fc = rng.choice(FCLASSES)
            ok = rng.random() < 0.6      # options inside their documented ranges
            ps.append(P("eckhardt", f"len{min(n, 9)}/{fc}/{'opt_in' if ok else 'opt_any'}", flow=A(fvals(rng, n, fc)),
                        thresh=rng.choice([0.95, 0.0, 1.0] if ok else [0.95, 0.0, 1.0, -0.1, 1.1, "nan"]),
                        tau=rng.choice([20, 0, -1, "nan", "inf", 1e-300, 1e300]),
                        BFI_max=rng.choice([0.8, 0.0, 1.0] if ok else [0.8, 0.0, 1.0, 1.5, "nan"]),
                        timestep_type=rng.choice([0, 1] if ok else [0, 1, 1, 2, -1])))

    # var2h: irregular stamps (seconds), series shorter than a period, decreasing / duplicated stamps, long spans
    for n in list(range(0, 9)) + [rng.randint(9, size(60, 2000)) for _ in range(scale(8, 40))]:
        for rep in range(scale(4, 10) if n <= 8 else 1):
            kind = rng.choice(["short", "regular", "irregular", "irregular", "dup", "decr", "gappy", "sparse"])
            t0 = rng.choice([0, 1, 3599, 3600, 86400 * 365 * 30 + 17, 1700000000])
            secs, cur = [], t0
            for i in range(n):
                secs.append(cur)
                step = {"short": rng.randint(1, 300), "regular": 600, "irregular": rng.randint(1, 7000),
                        "dup": rng.choice([0, 0, 900]), "decr": rng.choice([-500, 1200]),
                        "gappy": rng.choice([60, 600, 86400 * 7]), "sparse": rng.randint(3600, 40000)}[kind]
                cur += step
            fc = rng.choice(["fin", "fin", "nan", "neg", "inf", "huge", "zero"])
            ok = rng.random() < 0.75     # options inside their documented ranges
            ps.append(P("var2h", f"len{min(n, 9)}/{kind}/{fc}/{'opt_in' if ok else 'opt_any'}", secs=secs,
                        values=A(fvals(rng, n, fc)),
                        nbsec=rng.choice([3600, 1800] if ok else [3600, 1800, 60, 0, -3600]),
                        rainfall=rng.choice([False, True] if ok else [False, True, 2, -1]),
                        maxgapsec=rng.choice([5 * 86400, 3600, I32MAX] if ok else [5 * 86400, 3600, I32MAX, 3599, 0]),
                        unit=rng.choice(["ns", "ns", "us", "ms", "s"])))
    # period index i*nbsec_per_period beyond 32 bits: two stamps 70 / 40 years apart
    ps.append(P("var2h", "span70y/3600", secs=[0, 70 * 365 * 86400], values=A([1.0, 2.0]), nbsec=3600, maxgapsec=I32MAX))
    ps.append(P("var2h", "span40y/1800", secs=[5, 40 * 365 * 86400], values=A([1.0, 2.0]), nbsec=1800, maxgapsec=I32MAX))
    ps.append(P("var2h", "span70y/3600/us", secs=[0, 70 * 365 * 86400], values=A([1.0, 2.0]), nbsec=3600,
                maxgapsec=I32MAX, unit="us"))

    # c-module date helpers and combi (no Python wrapper: the pyx asserts are the only protection)
    ints = [0, 1, -1, 2, 4, 12, 13, 28, 29, 30, 31, 32, 100, 400, 1900, 2000, 2024, 9999, I32MAX, I32MAX - 1, I32MIN,
            I32MIN + 1]
    for _ in range(scale(60, 400)):
        y, m, d = rng.choice(ints), rng.choice(ints), rng.choice(ints)
        ps.append(P("cd.isleapyear", "int_edges", year=y))
        ps.append(P("cd.daysinmonth", "int_edges", year=y, month=m))
        ps.append(P("cd.dayofyear", "int_edges", month=m, day=d))
        ps.append(P("cd.combi", "int_edges", n=rng.choice(ints + [30, 60, 61]), k=rng.choice(ints + [30, 15])))

    def date(kind):
        if kind == "valid":
            return [rng.randint(1, 9999), rng.randint(1, 12), rng.randint(1, 28)]
        if kind == "monthend":
            y, m = rng.choice([1900, 2000, 2023, 2024]), rng.randint(1, 12)
            return [y, m, rng.choice([28, 29, 30, 31])]
        if kind == "yearmax":
            return [rng.choice([I32MAX, I32MAX - 1, I32MIN]), rng.choice([12, 11, 1]), rng.choice([31, 30, 1])]
        return [rng.choice(ints), rng.choice(ints), rng.choice(ints)]
    for _ in range(scale(60, 400)):
        kind = rng.choice(["valid", "monthend", "monthend", "yearmax", "edges"])
        ps.append(P("cd.add1month", kind, date=A(date(kind), "int32")))
        ps.append(P("cd.add1day", kind, date=A(date(kind), "int32")))
        ps.append(P("cd.comparedates", kind, date1=A(date(kind), "int32"), date2=A(date(kind), "int32")))
        day = rng.choice([20240131.0, 19000229.0, 0.0, -1.0, 99991231.0, 1e8, 2147483647.0, 2147483648.0, -2147483649.0,
                          2.2e11, 1e19, 1e300, "nan", "inf", "-inf", 20241301.0, 20240132.0, 5e-324,
                          float(rng.randint(10000101, 99991231))])
        ps.append(P("cd.getdate", "day_" + ("special" if isinstance(day, str) else "big" if abs(day) > 1e8 else "num"),
                    day=day, date=A([0, 0, 0], "int32")))
    for ln in (0, 1, 2, 4):
        ps.append(P("cd.add1month", f"wronglen{ln}", date=A([2000] * ln, "int32")))
        ps.append(P("cd.add1day", f"wronglen{ln}", date=A([2000] * ln, "int32")))
        ps.append(P("cd.getdate", f"wronglen{ln}", day=20000101.0, date=A([0] * ln, "int32")))
        ps.append(P("cd.comparedates", f"wronglen{ln}", date1=A([2000] * ln, "int32"), date2=A([2000, 1, 1], "int32")))
        ps.append(P("cd.comparedates", f"wronglen{ln}b", date1=A([2000, 1, 1], "int32"), date2=A([2000] * ln, "int32")))
    return ps


# ---------------------------------------------------------------------------------------------
def fmat(rng, n, m, cls):
    return [fvals(rng, m, cls) for _ in range(n)]


def gen_stat(rng, scale, size):
    ps = []
    for n in lengths(rng, scale(6, 30), size(40, 300)):
        for m in ([0, 1, 2, 3, 5] if n <= 8 else [rng.randint(1, size(12, 60))]):
            for rep in range(scale(2, 5) if n <= 8 else 1):
                fc = rng.choice(FCLASSES)
                oc = rng.choice(FCLASSES)
                ens = A(fmat(rng, n, m, fc), shape=[n, m])
                obs = fvals(rng, n, oc)
                ps.append(P("crps", f"n{min(n, 9)}/m{min(m, 4)}/{fc}/{oc}", obs=A(obs), ens=ens))
                ps.append(P("dscore", f"n{min(n, 9)}/m{min(m, 4)}/{fc}/{oc}", obs=A(obs), sim=ens,
                            eps=rng.choice([1e-6, 1e-6, 0.0, -1.0, 1e-30, "nan", "inf", 1e300])))
    ps.append(P("crps", "obs_n1", obs=A([[1.0], [2.0], [3.0]]), ens=A([[1.0, 2.0], [2.0, 3.0], [0.0, 5.0]])))
    ps.append(P("crps", "obs_11", obs=A([[1.0]]), ens=A([[1.0, 2.0]])))
    ps.append(P("crps", "mismatch", obs=A([1.0, 2.0]), ens=A([[1.0, 2.0]])))
    ps.append(P("dscore", "sim_1d", obs=A([1.0, 2.0, 3.0]), sim=A([1.0, 2.0, 3.0])))
    ps.append(P("dscore", "mismatch", obs=A([1.0, 2.0]), sim=A([[1.0, 2.0], [1.0, 3.0], [3.0, 4.0]])))

    for n in lengths(rng, scale(10, 50), size(300, 10000)):
        for rep in range(scale(4, 10) if n <= 8 else 1):
            kind = rng.choice(["unif", "unif", "sorted", "outside", "nan", "inf", "edge01", "ties", "neg"])
            if kind in ("unif", "sorted"):
                u = [rng.random() for _ in range(n)]
                if kind == "sorted":
                    u.sort()
            elif kind == "outside":
                u = [rng.choice([rng.random(), 1.5, -0.5]) for _ in range(n)]
            elif kind == "edge01":
                u = [rng.choice([0.0, 1.0, rng.random(), 5e-324, 1 - 2 ** -53]) for _ in range(n)]
            elif kind == "ties":
                u = [rng.choice([0.25, 0.5]) for _ in range(n)]
            else:
                u = fvals(rng, n, kind)
            ps.append(P("anderson_darling_test", f"len{min(n, 9)}/{kind}", u=A([enc(x) for x in u])))
    ps.append(P("anderson_darling_test", "scalar", u=A(0.3)))
    ps.append(P("anderson_darling_test", "2d", u=A([[0.1, 0.2], [0.3, 0.4]])))

    for order in range(0, 12):
        for n in [0, 1, 2, 3, 5, 8] + [rng.randint(9, size(200, 5000)) for _ in range(scale(1, 3))]:
            for rep in range(scale(1, 3)):
                pc = rng.choice(["fin", "fin", "nan", "inf", "huge", "zero"])
                params = [enc(rng.uniform(-1, 1)) for _ in range(order)] if pc == "fin" else fvals(rng, order, pc)
                fc = rng.choice(FCLASSES)
                x = fvals(rng, n, fc)
                mean = rng.choice([0.0, 5.0, "nan", "inf", None])
                ini = rng.choice([None, 0.0, "nan", 1e300])
                ps.append(P("armodel_sim", f"order{order}/len{min(n, 9)}/{pc}/{fc}", params=A(params), x=A(x),
                            sim_mean=0.0 if mean is None else mean, sim_ini=ini))
                ps.append(P("armodel_residual", f"order{order}/len{min(n, 9)}/{pc}/{fc}", params=A(params), x=A(x),
                            sim_mean=mean, sim_ini=ini))
    ps.append(P("armodel_sim", "scalar_param", params=A(0.9), x=A([1.0, 2.0, 3.0])))
    ps.append(P("armodel_sim", "x_2d", params=A([0.9]), x=A([[1.0, 2.0], [3.0, 4.0]])))
    ps.append(P("armodel_residual", "x_2d", params=A([0.9]), x=A([[1.0, 2.0], [3.0, 4.0]])))
    ps.append(P("armodel_sim", "x_scalar", params=A([0.9]), x=A(1.0)))

    for n in lengths(rng, scale(6, 30), size(60, 400)):
        for m in ([0, 1, 2, 3, 4] if n <= 8 else [rng.randint(1, 6)]):
            for rep in range(scale(2, 5) if n <= 8 else 1):
                fc = rng.choice(FCLASSES)
                ps.append(P("pareto_front", f"n{min(n, 9)}/m{m}/{fc}", data=A(fmat(rng, n, m, fc), shape=[n, m]),
                            orientation=rng.choice([1, -1, 0, 2, I32MAX, I32MIN])))
    ps.append(P("pareto_front", "1d", data=A([1.0, 2.0, 3.0])))
    ps.append(P("pareto_front", "3d", data=A([[[1.0, 2.0]]])))
    ps.append(P("pareto_front", "orientation_beyond_int32", data=A([[1.0, 2.0]]), orientation=2 ** 31))

    for n in range(0, scale(5, 8)):
        for p in range(0, 5):
            fc = rng.choice(FCLASSES)
            ps.append(P("cs.olsleverage", f"n{n}/p{p}/{fc}", predictors=A(fmat(rng, n, p, fc), shape=[n, p]),
                        tXXinv=A(fmat(rng, p, p, fc), shape=[p, p]), leverages=A([0.0] * n)))
    ps.append(P("cs.olsleverage", "lev_short", predictors=A(fmat(rng, 3, 2, "fin")), tXXinv=A(fmat(rng, 2, 2, "fin")),
                leverages=A([0.0] * 2)))
    ps.append(P("cs.olsleverage", "txx_small", predictors=A(fmat(rng, 3, 2, "fin")), tXXinv=A(fmat(rng, 1, 1, "fin")),
                leverages=A([0.0] * 3)))
    ps.append(P("cs.olsleverage", "txx_notsquare", predictors=A(fmat(rng, 3, 2, "fin")),
                tXXinv=A(fmat(rng, 2, 1, "fin")), leverages=A([0.0] * 3)))
    return ps


# ---------------------------------------------------------------------------------------------
def geom(rng, kind=None):
    kind = kind or rng.choice(["small", "small", "small", "row", "col", "one", "offset", "csz0", "csznan", "cszneg",
                               "cszinf", "csztiny", "zerocols", "zerorows"])
    g = {"nrows": rng.randint(1, 6), "ncols": rng.randint(1, 6), "csz": 1.0, "xll": 0.0, "yll": 0.0}
    if kind == "row":
        g["nrows"] = 1
    elif kind == "col":
        g["ncols"] = 1
    elif kind == "one":
        g["nrows"] = g["ncols"] = 1
    elif kind == "offset":
        g.update(csz=rng.choice([0.5, 0.1, 2.0, 0.05]), xll=rng.choice([-3.5, 140.0, 1e6]), yll=rng.choice([-44.0, 7.25, -1e6]))
    elif kind == "csz0":
        g["csz"] = 0.0
    elif kind == "csznan":
        g["csz"] = "nan"
    elif kind == "cszneg":
        g["csz"] = -1.0
    elif kind == "cszinf":
        g["csz"] = "inf"
    elif kind == "csztiny":
        g["csz"] = rng.choice([1e-300, 5e-324, 1e-19])
    elif kind == "zerocols":
        g["ncols"] = 0
    elif kind == "zerorows":
        g["nrows"] = 0
    return g, kind


def cover(rng, fd):
    """a coarser (or finer) grid overlapping the extent of the unit-cell flow direction grid `fd`"""
    csz = rng.choice([2.0, 2.0, 3.0, 1.0, 0.5, 2.5])
    xll, yll = rng.choice([0.0, -1.0, -0.5, 1.0]), rng.choice([0.0, -1.0, -0.5, 1.0])
    ncols = max(1, int(math.ceil((fd["ncols"] - xll) / csz)) + rng.choice([0, 0, 1, -1]))
    nrows = max(1, int(math.ceil((fd["nrows"] - yll) / csz)) + rng.choice([0, 0, 1, -1]))
    return {"nrows": nrows, "ncols": ncols, "csz": csz, "xll": xll, "yll": yll}, "cover"


def coords(rng, g, n, cls):
    """points relative to the grid extent"""
    out = []
    csz = g["csz"] if isinstance(g["csz"], float) and g["csz"] == g["csz"] and abs(g["csz"]) < 1e300 else 1.0
    w, h = g["ncols"] * csz, g["nrows"] * csz
    for _ in range(n):
        if cls == "inside":
            p = [g["xll"] + rng.random() * w, g["yll"] + rng.random() * h]
        elif cls == "centre":
            p = [g["xll"] + (rng.randint(0, max(g["ncols"], 1)) + 0.5) * csz, g["yll"] + (rng.randint(0, max(g["nrows"], 1)) + 0.5) * csz]
        elif cls == "edge":
            p = [g["xll"] + rng.randint(-1, g["ncols"] + 1) * csz, g["yll"] + rng.randint(-1, g["nrows"] + 1) * csz]
        elif cls == "around":
            p = [g["xll"] + rng.uniform(-1.5, 1.5) * w + rng.uniform(-2, 2), g["yll"] + rng.uniform(-1.5, 1.5) * h]
        else:
            p = fvals(rng, 2, cls)
        out.append([enc(float(v)) if not isinstance(v, str) else v for v in p])
    return out


def cells(rng, g, n, cls):
    ntot = g["nrows"] * g["ncols"]
    out = []
    for _ in range(n):
        if cls == "valid" and ntot > 0:
            out.append(rng.randrange(ntot))
        elif cls == "edge":
            out.append(rng.choice([-1, 0, ntot - 1, ntot, ntot + 1, -2]))
        elif cls == "huge":
            out.append(rng.choice([I64MAX, I64MIN, 2 ** 62, -2 ** 62, 2 ** 32, I64MAX - 1, 2 ** 53 + 1]))
        else:
            out.append(rng.choice([-1, ntot, rng.randrange(max(ntot, 1)), rng.randrange(max(ntot, 1)), 2 ** 40]))
    return out


def flowdir(rng, nrows=None, ncols=None, kind=None, maxdim=6):
    kind = kind or rng.choice(["rand", "rand", "south", "east", "sink", "cycle", "badcodes", "converge"])
    nrows = nrows if nrows is not None else rng.randint(1, maxdim)
    ncols = ncols if ncols is not None else rng.randint(1, maxdim)
    data = []
    for r in range(nrows):
        row = []
        for c in range(ncols):
            if kind == "south":
                v = 4
            elif kind == "east":
                v = 1
            elif kind == "sink":
                v = 0
            elif kind == "cycle":
                v = 1 if c % 2 == 0 else 16
            elif kind == "badcodes":
                v = rng.choice(FLOWCODES + [3, -1, 999, I64MAX, 5])
            elif kind == "converge":
                cr, cc = nrows // 2, ncols // 2
                dr, dc = (cr > r) - (cr < r), (cc > c) - (cc < c)
                v = {(-1, -1): 32, (-1, 0): 64, (-1, 1): 128, (0, -1): 16, (0, 0): 0, (0, 1): 1, (1, -1): 8, (1, 0): 4,
                     (1, 1): 2}[(dr, dc)]
            else:
                v = rng.choice(FLOWCODES)
            row.append(v)
        data.append(row)
    return {"nrows": nrows, "ncols": ncols, "data": data}, kind


def gen_gis(rng, scale, size):
    ps = []
    ptcls = ["inside", "centre", "edge", "around", "nan", "inf", "huge", "mixed", "neg"]
    # ---- Grid methods
    for n in lengths(rng, scale(4, 20), size(40, 2000)):
        for rep in range(scale(4, 10) if n <= 8 else 1):
            g, gk = geom(rng)
            pc = rng.choice(ptcls)
            ps.append(P("coord2cell", f"len{min(n, 9)}/{gk}/{pc}", g=g, xy=A(coords(rng, g, n, pc), shape=[n, 2])))
            ps.append(P("slice", f"len{min(n, 9)}/{gk}/{pc}", g=dict(g, data=None), xy=A(coords(rng, g, n, pc), shape=[n, 2])))
            cc = rng.choice(["valid", "edge", "huge", "mixed"])
            cl = cells(rng, g, n, cc)
            ps.append(P("cell2coord", f"len{min(n, 9)}/{gk}/{cc}", g=g, cells=A(cl, "int64")))
            ps.append(P("cell2rowcol", f"len{min(n, 9)}/{gk}/{cc}", g=g, cells=A(cl, "int64")))
    for _ in range(scale(60, 400)):
        g, gk = geom(rng)
        cc = rng.choice(["valid", "edge", "huge", "mixed"])
        ps.append(P("neighbours", f"{gk}/{cc}", g=g, cell=cells(rng, g, 1, cc)[0]))
    g33 = {"nrows": 3, "ncols": 3}
    for shape, tag in (([3, 1], "n_by_1"), ([2, 3], "n_by_3"), ([0, 1], "0_by_1"), ([1, 1], "1_by_1"), ([5, 1], "5_by_1")):
        v = [[0.5 + i] * shape[1] for i in range(shape[0])]
        ps.append(P("coord2cell", "shape_" + tag, g=g33, xy=A(v, shape=shape)))
        ps.append(P("slice", "shape_" + tag, g=g33, xy=A(v, shape=shape)))
    ps.append(P("coord2cell", "shape_1d_len2", g=g33, xy=A([0.5, 1.5])))
    ps.append(P("coord2cell", "shape_1d_len3", g=g33, xy=A([0.5, 1.5, 2.5])))
    ps.append(P("coord2cell", "shape_1d_len1", g=g33, xy=A([0.5])))
    ps.append(P("coord2cell", "shape_3d", g=g33, xy=A([[[0.5, 1.5]]])))
    ps.append(P("coord2cell", "shape_scalar", g=g33, xy=A(0.5)))
    ps.append(P("cell2coord", "cells_2d", g=g33, cells=A([[0, 1], [2, 3]], "int64")))
    ps.append(P("cell2rowcol", "cells_scalar", g=g33, cells=A(4, "int64")))

    # ---- polygons
    for n in lengths(rng, scale(3, 15), size(40, 500)):
        for k in ([0, 1, 2, 3, 4, 6] if n <= 8 else [rng.randint(3, 12)]):
            for rep in range(scale(1, 3)):
                pc, vc = rng.choice(ptcls[3:] + ["around"]), rng.choice(["around", "around", "nan", "inf", "huge", "ties"])
                gg = {"nrows": 4, "ncols": 4, "csz": 1.0, "xll": 0.0, "yll": 0.0}
                pts = coords(rng, gg, n, pc)
                poly = coords(rng, gg, k, vc if vc != "ties" else "centre")
                a = dict(points=A(pts, shape=[n, 2]), polygon=A(poly, shape=[k, 2]),
                         atol=rng.choice([1e-8, 0.0, -1.0, "nan", "inf"]), nprint=rng.choice([0, 0, 1, -1, 5, I32MAX]))
                if rng.random() < 0.3:
                    a["inside"] = A([rng.choice([0, 1, 7]) for _ in range(n)], "int32")
                ps.append(P("points_inside_polygon", f"n{min(n, 9)}/k{min(k, 4)}/{pc}/{vc}", **a))
    pts3 = [[0.5, 0.5], [1.5, 1.5], [9.0, 9.0]]
    tri = [[0.0, 0.0], [3.0, 0.0], [0.0, 3.0]]
    ps.append(P("points_inside_polygon", "inside_wrong_dtype", points=A(pts3), polygon=A(tri), inside=A([0, 0, 0], "int64")))
    ps.append(P("points_inside_polygon", "inside_short", points=A(pts3), polygon=A(tri), inside=A([0, 0], "int32")))
    ps.append(P("points_inside_polygon", "inside_long", points=A(pts3), polygon=A(tri), inside=A([0, 0, 0, 0], "int32")))
    ps.append(P("points_inside_polygon", "points_n_by_1", points=A([[0.5], [1.5]]), polygon=A(tri)))
    ps.append(P("points_inside_polygon", "points_n_by_3", points=A([[0.5, 1.0, 2.0]]), polygon=A(tri)))
    ps.append(P("points_inside_polygon", "polygon_k_by_1", points=A(pts3), polygon=A([[0.0], [1.0], [2.0]])))
    ps.append(P("points_inside_polygon", "polygon_k_by_3", points=A(pts3), polygon=A([[0.0, 0.0, 1.0], [3.0, 0.0, 1.0], [0.0, 3.0, 1.0]])))
    ps.append(P("points_inside_polygon", "polygon_1d", points=A(pts3), polygon=A([0.0, 1.0, 2.0, 3.0])))
    for k in (0, 1, 2, 3, 5):
        g, gk = geom(rng, rng.choice(["small", "one", "offset", "zerocols"]))
        ps.append(P("cells_inside_polygon", f"k{k}/{gk}", g=g, polygon=A(coords(rng, g, k, "around"), shape=[k, 2])))

    # ---- catchments
    maxdim = size(6, 12)
    for _ in range(scale(150, 1200)):
        fd, fk = flowdir(rng, maxdim=maxdim)
        ntot = fd["nrows"] * fd["ncols"]
        n = rng.choice([0, 1, 2, 3, 8])
        cc = rng.choice(["valid", "valid", "edge", "huge", "mixed"])
        cl = cells(rng, fd, n, cc)
        ps.append(P("upstream", f"{fk}/len{n}/{cc}", fd=fd, cells=A(cl, "int64")))
        ps.append(P("downstream", f"{fk}/len{n}/{cc}", fd=fd, cells=A(cl, "int64")))
        oc = rng.choice(["valid"] * 6 + ["edge", "huge"])
        outlet = cells(rng, fd, 1, oc)[0]
        ic = rng.choice(["none", "none", "empty", "valid", "edge"])
        inlets = None if ic == "none" else [] if ic == "empty" else cells(rng, fd, rng.randint(1, 3), ic)
        nval = rng.choice([0, 1, 2, 3, max(ntot - 1, 0), ntot, ntot + 1, 1000])
        ps.append(P("delineate_area", f"{fk}/outlet_{oc}/inlets_{ic}/nval{'_small' if nval <= ntot else ''}",
                    fd=fd, outlet=outlet, inlets=inlets, nval=nval))
        ps.append(P("delineate_river", f"{fk}/cell_{oc}/nval{'_small' if nval <= ntot else ''}", fd=fd, cell=outlet,
                    nval=nval))
        # catchment-level entries on a delineated catchment
        base = dict(fd=fd, outlet=outlet, inlets=inlets, nval=1000)
        tag = f"{fk}/outlet_{oc}/delineated"
        ps.append(P("delineate_boundary", tag, **base))
        ps.append(P("compute_flowpathlengths", tag, **base))
        g, gk = cover(rng, fd) if rng.random() < 0.7 else \
            geom(rng, rng.choice(["small", "one", "offset", "row", "csztiny", "csz0", "zerocols"]))
        ps.append(P("intersect", tag + "/" + gk, g=g, filled=rng.random() < 0.5, **base))
        k = rng.choice([0, 1, 1, 2, 3, 5])
        vc = rng.choice(["around", "around", "nan", "inf", "huge"])
        gg = dict(fd, csz=1.0, xll=0.0, yll=0.0)
        ps.append(P("voronoi", f"{tag}/pts{k}/{vc}", xy=A(coords(rng, gg, k, vc), shape=[k, 2]), **base))
    # explicit areas through Catchment.from_dict: one cell, far apart cells, duplicates, cells outside the grid
    for _ in range(scale(150, 1200)):
        fd, fk = flowdir(rng, maxdim=maxdim)
        ntot = fd["nrows"] * fd["ncols"]
        ak = rng.choice(["one", "one", "two_far", "all", "subset", "dups", "outside", "negative", "empty", "row"])
        if ak == "one":
            area = [rng.randrange(ntot)]
        elif ak == "two_far":
            area = [0, ntot - 1]
        elif ak == "all":
            area = list(range(ntot))
        elif ak == "subset":
            area = sorted(rng.sample(range(ntot), rng.randint(1, ntot)))
            rng.shuffle(area)
        elif ak == "dups":
            area = [rng.randrange(ntot) for _ in range(rng.randint(2, 6))]
        elif ak == "outside":
            area = [rng.randrange(ntot), ntot + rng.randint(0, 5), rng.choice([2 ** 40, ntot])]
        elif ak == "negative":
            area = [rng.randrange(ntot), -rng.randint(1, 3)]
        elif ak == "row":
            area = list(range(fd["ncols"]))
        else:
            area = []
        outlet = rng.choice([0, ntot - 1, -1, ntot, area[0] if area else 0])
        base = dict(fd=fd, area=area, outlet=outlet)
        tag = f"{fk}/area_{ak}"
        mk = rng.choice(["default", "default", "ones", "zeros", "short", "wrongdtype", "twos"])
        mask = None
        if mk == "ones":
            mask = A([1] * ntot, "int64")
        elif mk == "zeros":
            mask = A([0] * ntot, "int64")
        elif mk == "twos":
            mask = A([rng.choice([1, 2]) for _ in range(ntot)], "int64")
        elif mk == "short":
            mask = A([1] * max(ntot - 1, 0), "int64")
        elif mk == "wrongdtype":
            mask = A([1] * ntot, "int32")
        ps.append(P("delineate_boundary", f"{tag}/mask_{mk}", mask=mask, **base))
        ps.append(P("compute_flowpathlengths", tag, **base))
        g, gk = cover(rng, fd) if rng.random() < 0.7 else \
            geom(rng, rng.choice(["small", "one", "offset", "row", "csztiny", "csz0"]))
        ps.append(P("intersect", tag + "/" + gk, g=g, filled=rng.random() < 0.5, **base))
        k = rng.choice([0, 1, 1, 2, 3, 5])
        vc = rng.choice(["around", "around", "nan", "inf"])
        gg = dict(fd, csz=1.0, xll=0.0, yll=0.0)
        ps.append(P("voronoi", f"{tag}/pts{k}/{vc}", xy=A(coords(rng, gg, k, vc), shape=[k, 2]), **base))
    ps.append(P("voronoi", "pts_k_by_1", fd=flowdir(rng, 3, 3, "south")[0], outlet=7, xy=A([[1.0], [2.0]])))
    ps.append(P("voronoi", "pts_k_by_3", fd=flowdir(rng, 3, 3, "south")[0], outlet=7, xy=A([[1.0, 2.0, 3.0]])))
    ps.append(P("voronoi", "pts_1d_len2", fd=flowdir(rng, 3, 3, "south")[0], outlet=7, xy=A([1.0, 2.0])))
    # zero-column flow direction grid
    ps.append(P("voronoi", "zerocols", fd={"nrows": 2, "ncols": 0, "data": None}, area=[0, 1], xy=A([[1.0, 2.0]])))
    ps.append(P("delineate_boundary", "zerocols/mask_empty", fd={"nrows": 2, "ncols": 0, "data": None}, area=[0], mask=A([], "int64")))
    ps.append(P("delineate_river", "zerocols", fd={"nrows": 2, "ncols": 0, "data": None}, cell=0, nval=5))
    ps.append(P("delineate_area", "zerocols", fd={"nrows": 2, "ncols": 0, "data": None}, outlet=0, nval=5))

    # ---- accumulate / slope
    for _ in range(scale(120, 900)):
        fd, fk = flowdir(rng, maxdim=maxdim)
        ntot = fd["nrows"] * fd["ncols"]
        nprint = rng.choice([0, 0, 1, -1, 100, 3, I64MAX, I64MIN])
        # (a cap of 2**62 on a cyclic grid is 2**62 steps by specification: caps stay small enough to finish)
        maxcells = rng.choice([-1, -1, 0, 1, 2, ntot, -5, 10 ** 4])
        fc = rng.choice([None, "fin", "nan", "inf", "huge", "neg"])
        field = None
        if fc is not None:
            mism = rng.random() < 0.1
            fr, fcn = (fd["nrows"] + 1, fd["ncols"]) if mism else (fd["nrows"], fd["ncols"])
            field = {"nrows": fr, "ncols": fcn, "data": [fvals(rng, fcn, fc) for _ in range(fr)]}
            if mism:
                fc += "_mismatch"
        ps.append(P("accumulate", f"{fk}/nprint{'0' if nprint == 0 else '-' if nprint < 0 else '+'}/maxcells{'-' if maxcells < 1 else '+'}/{fc}",
                    fd=fd, field=field, nprint=nprint, maxcells=maxcells))
        ac = rng.choice(["fin", "nan", "inf", "huge", "neg", "zero"])
        mism = rng.random() < 0.1
        ar, an = (fd["nrows"], fd["ncols"] + 1) if mism else (fd["nrows"], fd["ncols"])
        alt = {"nrows": ar, "ncols": an, "data": [fvals(rng, an, ac) for _ in range(ar)],
               "csz": rng.choice([1.0, 0.0, -1.0, "nan", 1e-300])}
        ps.append(P("slope", f"{fk}/nprint{'0' if nprint == 0 else '-' if nprint < 0 else '+'}/{ac}{'_mismatch' if mism else ''}",
                    fd=fd, alt=alt, nprint=nprint))
    ps.append(P("accumulate", "zerocols", fd={"nrows": 2, "ncols": 0, "data": None}, nprint=1))
    ps.append(P("slope", "zerocols", fd={"nrows": 2, "ncols": 0, "data": None}, alt={"nrows": 2, "ncols": 0, "data": None}, nprint=1))
    return ps


def gen_hist(rng, scale, size):
    """histories: one probe = 20 to 80 calls on one set of objects / buffers (see the `h.*` entries of the worker)"""
    ps = []
    for _ in range(scale(12, 60)):
        n = rng.choice([0, 1, 2, 3, 5, 8, 13, rng.randint(14, size(60, 400))])
        fc = rng.choice(["fin", "fin", "nan", "inf", "neg", "ties"])
        kind = rng.choice(["runs", "runs", "strict", "const", "rand"])
        ps.append(P("h.series", f"len{min(n, 9)}/{kind}/{fc}", x=A(fvals(rng, n, fc)), idx=A(index_vals(rng, n, kind), "int64"),
                    k=rng.randint(0, max(n, 1)), operator=rng.randint(0, 3), maxnan=rng.choice([0, 1, -1])))
        m = rng.choice([0, 1, 2, 3, 5, 8, rng.randint(9, size(40, 300))])
        secs, cur = [], rng.choice([0, 3599, 1700000000])
        for i in range(m):
            secs.append(cur)
            cur += rng.choice([rng.randint(1, 7000), 600, rng.randint(3000, 20000)])
        ps.append(P("h.var2h", f"len{min(m, 9)}", secs=secs, values=A(fvals(rng, m, rng.choice(["fin", "nan", "neg"])))))
        nn, mm = rng.choice([0, 1, 2, 3, 5, 8]), rng.choice([0, 1, 2, 3, 5])
        ps.append(P("h.stat", f"n{min(nn, 9)}/m{min(mm, 4)}", ens=A(fmat(rng, nn, mm, rng.choice(["fin", "ties", "nan"])), shape=[nn, mm]),
                    obs=A(fvals(rng, nn, rng.choice(["fin", "fin", "nan"]))),
                    params=A([enc(rng.uniform(-1, 1)) for _ in range(rng.choice([0, 1, 2, 3, 9, 10]))]),
                    u=A([enc(rng.random()) for _ in range(rng.choice([0, 1, 2, 7, 30]))])))
        y = rng.choice([1999, 2000, 2023, 2024, 1900, I32MAX, I32MAX - 1, 0, -1])
        ps.append(P("h.dates", "year_edge" if abs(y) > 10 ** 6 else "year", date=A([y, rng.randint(1, 12), rng.randint(1, 31)], "int32"),
                    date2=A([rng.choice([1999, 2024, y]), rng.randint(1, 12), rng.randint(1, 28)], "int32"),
                    ndays=rng.randint(1, 70), nmonths=rng.randint(1, 30),
                    days=[rng.choice([20240131.0, 19000229.0, "nan", 1e300, 99991231.0, 20231231.0, 0.0])
                          for _ in range(rng.randint(0, 4))]))
    for _ in range(scale(12, 60)):
        g, gk = geom(rng, rng.choice(["small", "small", "offset", "row", "col", "one"]))
        n = rng.choice([0, 1, 2, 3, 5, 8, rng.randint(9, size(30, 200))])
        ps.append(P("h.grid", f"len{min(n, 9)}/{gk}", g=dict(g, data=None), xy=A(coords(rng, g, n, rng.choice(["inside", "around", "edge", "mixed"])), shape=[n, 2]),
                    badcell=rng.choice([10 ** 9, -1, I64MAX, g["nrows"] * g["ncols"]]), ncols2=rng.choice([0, 1, 100, g["ncols"] + 1]),
                    csz2=rng.choice([0.0, "nan", -1.0, 1e-300, 2.0])))
        fd, fk = flowdir(rng, maxdim=size(6, 10))
        ntot = fd["nrows"] * fd["ncols"]
        g2, _ = cover(rng, fd)
        k = rng.choice([1, 2, 3, 5])
        gg = dict(fd, csz=1.0, xll=0.0, yll=0.0)
        ps.append(P("h.catchment", f"{fk}", fd=fd, g=g2, xy=A(coords(rng, gg, k, "around"), shape=[k, 2]),
                    outlet1=rng.randrange(ntot), outlet2=rng.randrange(ntot),
                    inlets=rng.choice([None, [rng.randrange(ntot)]]),
                    badcell=rng.choice([-3, ntot, ntot + 7, 2 ** 40, -1]), badcode=rng.choice([999, 3, -1, 0]),
                    ncols2=rng.choice([0, 1, fd["ncols"] + 2, 1000]), nvals=[0, 1, 2, 3, ntot, ntot + 1]))
        fcl = rng.choice(["fin", "nan", "huge", "neg"])
        mk = lambda: [fvals(rng, fd["ncols"], fcl) for _ in range(fd["nrows"])]      # noqa
        ps.append(P("h.fields", f"{fk}/{fcl}", fd=fd, field={"nrows": fd["nrows"], "ncols": fd["ncols"], "data": mk()},
                    alt={"nrows": fd["nrows"], "ncols": fd["ncols"], "data": mk()},
                    alt2={"nrows": fd["nrows"] + 1, "ncols": fd["ncols"], "data": None},
                    nprint=rng.choice([0, 0, 1, -1]), badcode=rng.choice([5, 999, -1]), nrows2=rng.choice([0, 1, fd["nrows"] + 3])))
        n = rng.choice([0, 1, 2, 3, 5, 8, 20])
        kv = rng.choice([1, 2, 3, 4, 6])
        gp = {"nrows": 4, "ncols": 4, "csz": 1.0, "xll": 0.0, "yll": 0.0}
        ps.append(P("h.polygon", f"n{min(n, 9)}/k{min(kv, 4)}", points=A(coords(rng, gp, n, "around"), shape=[n, 2]),
                    polygon=A(coords(rng, gp, kv, "around"), shape=[kv, 2]), g=gp))
    return ps


# arguments that are OUTPUT (or in/out) buffers of the entry point: the caller gives them to be written
OUT_ARGS = {"cd.add1month": {"date"}, "cd.add1day": {"date"}, "cd.getdate": {"date"}, "cs.olsleverage": {"leverages"},
            "points_inside_polygon": {"inside"}}
RO_KINDS = ["flag", "bytes", "memmap"]


def _nelem(v):
    return sum(_nelem(x) for x in v) if isinstance(v, list) else 1


def gen_readonly(rng, probes, scale):
    """read-only inputs: for every entry point of the stream that takes arrays, some of its probes again with every
    INPUT array handed over read-only — `writeable=False` on ordinary memory ("flag"), `np.frombuffer` over an
    immutable bytes object ("bytes"), `np.memmap(mode="r")` of a scratch file ("memmap"). A kernel that writes into (or
    sorts) memory it was only given to read changes the caller's data (reported by the worker) or dies on the
    read-only mapping (attributed to the probe)."""
    by_entry = {}
    for p in probes:
        if p["entry"].startswith("h."):
            continue
        names = [k for k, v in p["a"].items() if isinstance(v, dict) and "v" in v and "d" in v
                 and k not in OUT_ARGS.get(p["entry"], ())]
        if names:
            by_entry.setdefault(p["entry"], []).append((p, names))
    out = []
    for entry in sorted(by_entry):
        lst = by_entry[entry]
        big = [x for x in lst if any(_nelem(x[0]["a"][k]["v"]) >= 3 for k in x[1])] or lst
        for kind in RO_KINDS:
            for p, names in rng.sample(big, min(len(big), scale(3, 8))):
                a = dict(p["a"])
                for k in names:
                    a[k] = dict(a[k], ro=kind, name=k)
                out.append({"kind": "api", "entry": entry, "cls": p["cls"] + "/ro_" + kind,
                            "pred": p["pred"] + "/ro_" + kind, "a": a})
    return out


def gen_all(rng, scale, size=None):
    """`scale(q, t)` = number of repetitions, `size(q, t)` = largest lengths / grid sides (default: same as scale)"""
    size = size or scale
    base = gen_data(rng, scale, size) + gen_stat(rng, scale, size) + gen_gis(rng, scale, size)
    return base + gen_readonly(rng, base, scale) + gen_hist(rng, scale, size)
